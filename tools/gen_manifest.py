#!/usr/bin/env python3
"""Regenerates /verif/MANIFEST.json from the table below (and validates it against the schema if
jsonschema is importable). Run: /venv/bin/python tools/gen_manifest.py"""
import importlib
import json
import pathlib
import sys

VERIF = pathlib.Path(__file__).resolve().parent.parent
sys.path.insert(0, str(VERIF))

PY = "/venv/bin/python"

NOT_APPLICABLE = {
    "C17": "clip/reflect/toroidal are pure floating-point arithmetic quantified over all reals, decimal bounds and ulps; no dataflow/typestate/shape argument bounds rounding error (needs interval/solver reasoning or execution, which are other technique families). The nearby structural fact (call sites pass a handled method literal and the problem's own bounds) is claimed under C01.",
}

PENDING_REASON = "static rules for this property are still under construction in hmslint (see DESIGN.md §5 for the planned clause); not claimed until the check exists"


def main():
    props = [json.loads(l) for l in (VERIF / "properties.jsonl").read_text().splitlines() if l.strip()]
    checks = []
    na = []
    for p in props:
        pid = p["id"]
        if pid not in NOT_APPLICABLE and (VERIF / "hmslint" / "rules" / f"{pid.lower()}.py").exists():
            mod = importlib.import_module(f"hmslint.rules.{pid.lower()}")
            text, note = " ".join(mod.CLAIM.split()), " ".join(mod.NOTE.split())
            checks.append(
                {
                    "property_id": pid,
                    "quick_cmd": f"{PY} -m hmslint.check {pid} --tier quick",
                    "thorough_cmd": f"{PY} -m hmslint.check {pid} --tier thorough",
                    "evidence_file": f"evidence/{pid}.json",
                    "replay_cmd_template": f"{PY} -m hmslint.check {pid} --replay {{path}}",
                    "engine": "hmslint",
                    "level_claimed": {"category": "other", "text": "Static analysis of the current source (no execution). " + text, "design_ref": f"DESIGN.md §5 {pid}"},
                    "level_note": note,
                    "technique": getattr(mod, "TECHNIQUE", "custom ast/CFG/dataflow static analysis"),
                }
            )
        elif pid in NOT_APPLICABLE:
            na.append({"property_id": pid, "reason": NOT_APPLICABLE[pid]})
        else:
            na.append({"property_id": pid, "reason": PENDING_REASON})
    manifest = {
        "version": 1,
        "setup_cmd": f"{PY} -m compileall -q hmslint",
        "hooks": {
            "guard": "PYHMS_VERIF",
            "enable": "none needed: the checks read /repo/pyhms source text; no instrumentation was added to the repository",
            "baseline_off_cmd": "cd /repo && /venv/bin/python -m pytest -ra -q -p no:cacheprovider --timeout=900 --continue-on-collection-errors",
            "source_commits": [],
            "add_only": True,
        },
        "engines": [
            {
                "name": "hmslint",
                "path": "hmslint/",
                "serves_properties": [c["property_id"] for c in checks],
                "kind_free_text": "repository-specific static analyser (stdlib ast): program model, statement CFG with short-circuit decision nodes, receiver-type inference and callee resolution, effect summaries, typestate / dataflow / polarity rules; thorough tier adds seeded-mutant and benign-twin adequacy runs on scratch copies",
            }
        ],
        "checks": checks,
        "notes": "All checks are static: nothing under /repo is imported or executed. exit 0 = all obligations discharged; exit 1 + VIOLATION line = witnessed violation; exit 2 + ANALYSIS-ERROR/ANALYSIS-INCONCLUSIVE = analyser cannot decide. Genuine defects found on the pinned tree were repaired by `fix:` commits in /repo and are logged in known_findings.jsonl (status fixed; suppresses nothing). One genuine defect is recorded rather than repaired (status known: C18 / R18.11, metaepochs without an evaluation when every active deme hibernates; findings/C18-hibernation-stall): the C18 check prints a KNOWN-FINDING line for exactly that construct and exits 0; any other violation is reported as usual.",
        "not_applicable": na,
    }
    out = VERIF / "MANIFEST.json"
    out.write_text(json.dumps(manifest, indent=1) + "\n")
    try:
        import jsonschema

        schema = json.loads(pathlib.Path("/root/.vp/MANIFEST.schema.json").read_text())
        jsonschema.validate(manifest, schema)
        print("MANIFEST.json valid;", len(checks), "checks,", len(na), "not claimed")
    except ImportError:
        print("MANIFEST.json written (jsonschema not importable here);", len(checks), "checks")


if __name__ == "__main__":
    main()
