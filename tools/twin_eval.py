#!/usr/bin/env python3
"""Confirm benign refactorings written by independent sub-agents (same digest clean vs patched, tests pass) and
run every hmslint check against them: any VIOLATION is a false alarm of the checker, exit-2 verdicts are listed.

usage: tools/twin_eval.py /tmp/seed/twout_C03 [--no-tests] [--keep-as r1]
Confirmed twins are copied to /verif/seeded/twins/<prop>-<round>-<k>/.
"""
import argparse
import json
import os
import pathlib
import shutil
import subprocess
import sys
import tempfile

VERIF = pathlib.Path(__file__).resolve().parent.parent
sys.path.insert(0, str(VERIF))
PY = "/venv/bin/python"


def sh(cmd, cwd=None, env=None, timeout=1800):
    p = subprocess.run(cmd, cwd=cwd, env=env, capture_output=True, text=True, timeout=timeout)
    return p.returncode, p.stdout + p.stderr


def _digest_of(out: str) -> str:
    """the digest a script printed: the first sha256-looking token (scripts may print further checks after it), else the last line"""
    import re

    m = re.search(r"\b[0-9a-f]{64}\b", out)
    if m:
        return m.group(0)
    return out.strip().splitlines()[-1] if out.strip() else ""


def main():
    ap = argparse.ArgumentParser()
    ap.add_argument("outdir")
    ap.add_argument("--no-tests", action="store_true")
    ap.add_argument("--round", default="r1")
    ap.add_argument("--no-copy", action="store_true")
    args = ap.parse_args()
    from hmslint.check import run_all

    out = pathlib.Path(args.outdir)
    wt = pathlib.Path(tempfile.mkdtemp(prefix="twinconfirm-", dir="/tmp"))
    shutil.rmtree(wt)
    rc, o = sh(["git", "-C", "/repo", "worktree", "add", "-q", "--detach", str(wt), "HEAD"])
    if rc:
        print(o)
        return 2
    env = dict(os.environ, PYTHONPATH=str(wt))
    bad = 0
    try:
        for vdir in sorted(p for p in out.iterdir() if p.is_dir()):
            patch, eq, meta = vdir / "patch.diff", vdir / "equiv.py", vdir / "meta.json"
            if not patch.exists():
                continue
            m = json.loads(meta.read_text()) if meta.exists() else {}
            sh(["git", "-C", str(wt), "checkout", "-q", "--", "."])
            sh(["git", "-C", str(wt), "clean", "-fdq"])
            d0 = d1 = None
            if eq.exists():
                rc0, o0 = sh([PY, str(eq)], cwd=wt, env=env, timeout=900)
                d0 = _digest_of(o0)
            rca, oa = sh(["git", "-C", str(wt), "apply", str(patch)])
            if rca:
                print(f"== {vdir}: patch does not apply: {oa[-200:]}")
                continue
            if eq.exists():
                rc1, o1 = sh([PY, str(eq)], cwd=wt, env=env, timeout=900)
                d1 = _digest_of(o1)
            tests = ""
            if not args.no_tests:
                rct, ot = sh([PY, "-m", "pytest", "-q", "-p", "no:cacheprovider", "--timeout=900", "-x"], cwd=wt, env=env)
                tests = ot.strip().splitlines()[-1] if ot.strip() else ""
            res = run_all(str(wt))
            viol = {p: v["violations"] for p, v in res.items() if v["violations"]}
            und = {p: v["undecided"][:3] for p, v in res.items() if v["undecided"]}
            same = d0 is not None and d0 == d1
            print(f"== {vdir} [{m.get('property')}] digest_same={same} tests={tests}")
            print(f"   {m.get('summary', '')[:220]}")
            if viol:
                bad += 1
                print(f"   FALSE ALARM (VIOLATION): {viol}")
                # details
                for pid in viol:
                    rc2, o2 = sh([PY, "-m", "hmslint.check", pid, "--repo", str(wt), "--no-evidence"], cwd=VERIF)
                    for l in o2.splitlines():
                        if l.strip().startswith(("R", "C0", "C1")) and "pyhms/" in l:
                            print("        " + l.strip()[:260])
            if und:
                print(f"   undecided (exit 2): { {k: v for k, v in und.items()} }"[:900])
            if not viol and not und:
                print("   silent on all checks")
            if same and not args.no_copy and (args.no_tests or ("passed" in tests and "failed" not in tests and "error" not in tests)):
                dst = VERIF / "seeded" / "twins" / f"{m.get('property', 'X')}-{args.round}-{vdir.name}"
                dst.mkdir(parents=True, exist_ok=True)
                shutil.copy(patch, dst / "patch.diff")
                if eq.exists():
                    shutil.copy(eq, dst / "equiv.py")
                m2 = dict(m)
                m2["confirmation"] = {"digest_clean": d0, "digest_patched": d1, "tests": tests, "ran": "scratch worktree of /repo HEAD: equiv.py clean and patched, pytest, then hmslint run_all on the patched tree"}
                (dst / "meta.json").write_text(json.dumps(m2, indent=1))
    finally:
        sh(["git", "-C", "/repo", "worktree", "remove", "--force", str(wt)])
        shutil.rmtree(wt, ignore_errors=True)
    return 1 if bad else 0


if __name__ == "__main__":
    sys.exit(main())
