#!/usr/bin/env python3
"""Prompt for an independent sub-agent that writes behaviour-preserving refactorings (benign twins) of the code a
property is anchored in (used to find false alarms of the checks). Only the property text and file list are given."""
import json, sys
pid = sys.argv[1]
n = int(sys.argv[2]) if len(sys.argv) > 2 else 4
rnd = sys.argv[3] if len(sys.argv) > 3 else ""
import glob
earlier = []
for m in sorted(glob.glob(f"/verif/seeded/twins/{pid}-*/meta.json")):
    try:
        earlier.append(json.load(open(m)).get("summary", ""))
    except Exception:
        pass
excl = ("\nRefactorings of these kinds were already written by others - do something DIFFERENT (other functions, other kinds of restructuring; be bolder: move logic between methods of the same class, replace a loop by vectorised numpy or the reverse, change a local data structure to an equivalent one, merge or split functions, restructure control flow), still strictly behaviour-preserving:\n" + "\n".join(f"  - {e[:220]}" for e in earlier) + "\n") if (rnd and earlier) else ""
props = {json.loads(l)["id"]: json.loads(l) for l in open("/verif/properties.jsonl") if l.strip()}
p = props[pid]
wt = f"/tmp/seed/tw{rnd}_{pid}"
files = ", ".join(p["anchors"]["files"])
print(f"""You are helping to evaluate a verification tool for the Python library pyhms (agh-a2s/pyhms: a Hierarchic Memetic Strategy — a tree of evolutionary sub-populations with sprouting and stop conditions). You get a private scratch git worktree of the library at {wt} (source under {wt}/pyhms, tests under {wt}/test). Work ONLY inside {wt} and /tmp/seed/twout{rnd}_{pid}. Never touch /repo or /verif, never run `git commit`, never use `git stash` (the stash is shared between all worktrees of the repository).

The library satisfies this property, and it must KEEP satisfying it after your edits:

  [{p['id']}] {p['title']}
  Statement: {p['statement']}

The code that makes the property hold lives mainly in: {files}

Your job: produce {n} DIFFERENT, independent BEHAVIOUR-PRESERVING refactorings of that code — the kind of clean-up a maintainer does without changing what the program computes: rename local variables, introduce or inline a local, extract a small private helper method/function (or inline one), rewrite an expression into an equivalent one (e.g. `a >= b` as `not a < b` only where exactly equivalent, `x.copy()` vs `np.copy(x)`, a comprehension vs. an explicit loop, if/else vs. conditional expression, early return vs. nested if), reorder statements that do not depend on each other, split a compound condition into nested ifs, move a constant into a named variable. Each refactoring should touch the code that is relevant to the property above (not comments, docstrings or unrelated functions), should be moderately sized (5-40 changed lines), and must not change ANY observable behaviour: same results, same random-number consumption order, same evaluation order and counts, same exceptions. Do NOT fix bugs, do not change algorithms, do not change public names or signatures used from other modules or from the tests.
{excl}
How to run things (offline sandbox; do not install anything):
  * tests: cd {wt} && /venv/bin/python -m pytest -q -p no:cacheprovider --timeout=900   (must report 55 passed with each refactoring)
  * scripts: cd {wt} && PYTHONPATH={wt} /venv/bin/python script.py   (PYTHONPATH is essential, otherwise `import pyhms` resolves to another checkout)

For each variant k = 1..{n} create /tmp/seed/twout{rnd}_{pid}/{{k}}/ with:
  * patch.diff — `git -C {wt} diff` of exactly this refactoring against the clean worktree (must apply with `git apply` to a clean checkout);
  * equiv.py — a small deterministic script (fixed seeds, < 60 s) that exercises the refactored code through the public API (e.g. a short seeded run of a tree with the relevant engines / sprout mechanism / both optimisation directions where relevant) and prints a digest (e.g. sha256 of genomes, fitness values, ids, counts); it must print the SAME digest on the clean checkout and with the patch applied — run it both ways and record both digests;
  * meta.json — {{"property": "{p['id']}", "kind": "benign-refactoring", "summary": "<one line>", "files": [...], "digest_clean": "...", "digest_patched": "...", "tests": "<n passed>"}}.
Restore the worktree (`git -C {wt} checkout -- .` and remove stray files) after each variant so the patches are independent. If a refactoring changes the digest or breaks a test, it is not behaviour-preserving: discard it and write another.

Finish with a short report listing the variants. Leave the worktree clean.""")
