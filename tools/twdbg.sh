#!/bin/sh
# usage: tools/twdbg.sh <dir with patch.diff> [props...]   -> applies the patch to a scratch copy /tmp/dbg and runs the checks
rm -rf /tmp/dbg; mkdir /tmp/dbg; cp -r /repo/pyhms /tmp/dbg/
(cd /tmp/dbg && patch -p1 -s < "$1/patch.diff") || exit 3
shift
for p in "$@"; do /venv/bin/python -m hmslint.check "$p" --repo /tmp/dbg --no-evidence | grep -v "^  ok" | cut -c1-600; done
