#!/usr/bin/env python3
"""Generic AST mutation sweep over the property-anchored source files: which single-point semantic changes do the
hmslint rules notice?  (adequacy exploration; survivors are triaged by hand — many are equivalent or outside every property)

usage: tools/mutgen.py [--files a.py,b.py] [--limit N] [--jobs 16] [--out /tmp/mutgen.json] [--with-tests]
"""
import argparse
import ast
import copy
import json
import os
import pathlib
import shutil
import subprocess
import sys
import tempfile
import time
from concurrent.futures import ProcessPoolExecutor

VERIF = pathlib.Path(__file__).resolve().parent.parent
sys.path.insert(0, str(VERIF))

CMP_SWAPS = {ast.Lt: [ast.LtE, ast.Gt], ast.LtE: [ast.Lt, ast.GtE], ast.Gt: [ast.GtE, ast.Lt], ast.GtE: [ast.Gt, ast.LtE], ast.Eq: [ast.NotEq], ast.NotEq: [ast.Eq], ast.Is: [ast.IsNot], ast.IsNot: [ast.Is], ast.In: [ast.NotIn], ast.NotIn: [ast.In]}
NAME_SWAPS = {"max": "min", "min": "max", "argmax": "argmin", "argmin": "argmax", "all": "any", "any": "all", "is_active": "_hibernating", "current_population": "all_individuals", "best_current_individual": "best_individual", "best_individual": "best_current_individual", "all_demes": "active_demes", "active_demes": "all_demes", "genomes": "fitnesses", "append": "extend", "levels": "leaves", "copy": "__copy__", "isnan": "isinf", "uniform": "normal", "floor_divide": "true_divide", "concatenate": "vstack"}


def anchored_files():
    files = set()
    for l in (VERIF / "properties.jsonl").read_text().splitlines():
        if l.strip():
            files |= set(json.loads(l)["anchors"]["files"])
    return sorted(files)


class Site:
    def __init__(self, path, lineno, kind, desc):
        self.path, self.lineno, self.kind, self.desc = path, lineno, kind, desc


def gen_mutants(path: pathlib.Path, rel: str):
    """yields (description, new_source)"""
    src = path.read_text()
    tree = ast.parse(src)
    nodes = list(ast.walk(tree))
    out = []

    def emit(desc, mutate):
        t2 = copy.deepcopy(tree)
        n2 = list(ast.walk(t2))
        try:
            ok = mutate(n2)
        except Exception:
            return
        if ok is False:
            return
        try:
            new = ast.unparse(t2)
            ast.parse(new)
        except Exception:
            return
        out.append((desc, new))

    for i, n in enumerate(nodes):
        ln = getattr(n, "lineno", 0)
        if isinstance(n, ast.Compare):
            for j, op in enumerate(n.ops):
                for new_op in CMP_SWAPS.get(type(op), []):
                    def m(ns, i=i, j=j, new_op=new_op):
                        ns[i].ops[j] = new_op()
                    emit(f"{rel}:{ln} compare {type(op).__name__}->{new_op.__name__} in `{ast.unparse(n)[:60]}`", m)
        elif isinstance(n, ast.BoolOp):
            def m(ns, i=i):
                ns[i].op = ast.Or() if isinstance(ns[i].op, ast.And) else ast.And()
            emit(f"{rel}:{ln} and<->or in `{ast.unparse(n)[:60]}`", m)
        elif isinstance(n, ast.UnaryOp) and isinstance(n.op, ast.Not):
            def m(ns, i=i):
                ns[i].op = ast.UAdd() if False else ns[i].op
                # replace `not x` by `x`: mutate parent by turning operand into double negation removal
                ns[i].operand = ast.UnaryOp(op=ast.Not(), operand=ns[i].operand)
            emit(f"{rel}:{ln} drop `not` in `{ast.unparse(n)[:60]}`", m)
        elif isinstance(n, ast.UnaryOp) and isinstance(n.op, ast.USub) and not isinstance(n.operand, ast.Constant):
            def m(ns, i=i):
                ns[i].op = ast.UAdd()
            emit(f"{rel}:{ln} drop unary minus in `{ast.unparse(n)[:60]}`", m)
        elif isinstance(n, ast.Constant) and isinstance(n.value, bool):
            def m(ns, i=i):
                ns[i].value = not ns[i].value
            emit(f"{rel}:{ln} {n.value}->{not n.value}", m)
        elif isinstance(n, ast.Constant) and isinstance(n.value, int) and not isinstance(n.value, bool) and abs(n.value) <= 3:
            for d in (1, -1):
                def m(ns, i=i, d=d):
                    ns[i].value = ns[i].value + d
                emit(f"{rel}:{ln} const {n.value}->{n.value + d}", m)
        elif isinstance(n, ast.BinOp) and isinstance(n.op, (ast.Add, ast.Sub)):
            def m(ns, i=i):
                ns[i].op = ast.Sub() if isinstance(ns[i].op, ast.Add) else ast.Add()
            emit(f"{rel}:{ln} +<->- in `{ast.unparse(n)[:60]}`", m)
        elif isinstance(n, ast.Attribute) and n.attr in NAME_SWAPS and isinstance(n.ctx, ast.Load):
            def m(ns, i=i):
                ns[i].attr = NAME_SWAPS[ns[i].attr]
            emit(f"{rel}:{ln} .{n.attr}->.{NAME_SWAPS[n.attr]} in `{ast.unparse(n)[:60]}`", m)
        elif isinstance(n, ast.Name) and n.id in ("max", "min", "all", "any") and isinstance(n.ctx, ast.Load):
            def m(ns, i=i):
                ns[i].id = NAME_SWAPS[ns[i].id]
            emit(f"{rel}:{ln} {n.id}->{NAME_SWAPS[n.id]}", m)
        elif isinstance(n, ast.IfExp):
            def m(ns, i=i):
                ns[i].body, ns[i].orelse = ns[i].orelse, ns[i].body
            emit(f"{rel}:{ln} swap arms of `{ast.unparse(n)[:60]}`", m)
        elif isinstance(n, ast.Call) and len(n.args) >= 2 and not any(isinstance(a, ast.Starred) for a in n.args[:2]):
            def m(ns, i=i):
                ns[i].args[0], ns[i].args[1] = ns[i].args[1], ns[i].args[0]
            emit(f"{rel}:{ln} swap first two args of `{ast.unparse(n)[:60]}`", m)
        elif isinstance(n, ast.keyword) and n.arg in ("reverse", "replace", "scramble") and isinstance(n.value, ast.Constant):
            pass  # covered by bool flip
        # statement deletions
        if isinstance(n, (ast.FunctionDef, ast.If, ast.For, ast.While, ast.With, ast.Try)) or isinstance(n, ast.Module):
            for fld in ("body", "orelse"):
                body = getattr(n, fld, None)
                if not isinstance(body, list):
                    continue
                for k, st in enumerate(body):
                    if isinstance(st, (ast.Expr, ast.Assign, ast.AugAssign, ast.Return, ast.Continue, ast.Break, ast.Raise)) and not (isinstance(st, ast.Expr) and isinstance(st.value, ast.Constant)):
                        if isinstance(st, ast.Expr) and isinstance(st.value, ast.Call) and "logger" in ast.unparse(st.value.func):
                            continue
                        if isinstance(st, ast.Expr) and isinstance(st.value, ast.Call) and ast.unparse(st.value.func).endswith(".log"):
                            continue
                        def m(ns, i=i, fld=fld, k=k):
                            b = getattr(ns[i], fld)
                            if len(b) == 1:
                                b[k] = ast.Pass()
                            else:
                                del b[k]
                        emit(f"{rel}:{st.lineno} delete `{ast.unparse(st)[:60]}`", m)
    return out


def run_one(args):
    rel, desc, new_src, with_tests = args
    from hmslint.check import run_all
    tmp = pathlib.Path(tempfile.mkdtemp(prefix="mutgen-"))
    try:
        shutil.copytree("/repo/pyhms", tmp / "pyhms", ignore=shutil.ignore_patterns("__pycache__"))
        (tmp / rel).write_text(new_src)
        try:
            res = run_all(str(tmp))
        except Exception as e:  # noqa: BLE001
            return {"desc": desc, "error": repr(e)[:200]}
        r = {"desc": desc, "violations": {p: sorted(v["violations"]) for p, v in res.items() if v["violations"]}, "undecided": {p: v["undecided"][:2] for p, v in res.items() if v["undecided"]}}
        if with_tests and not r["violations"]:
            shutil.copytree("/repo/test", tmp / "test")
            pr = subprocess.run(["/venv/bin/python", "-m", "pytest", "-q", "-x", "-p", "no:cacheprovider", "--timeout=300"], cwd=tmp, env=dict(os.environ, PYTHONPATH=str(tmp)), capture_output=True, text=True)
            r["tests"] = "pass" if pr.returncode == 0 else "fail"
        return r
    finally:
        shutil.rmtree(tmp, ignore_errors=True)


def main():
    ap = argparse.ArgumentParser()
    ap.add_argument("--files")
    ap.add_argument("--limit", type=int, default=0)
    ap.add_argument("--jobs", type=int, default=16)
    ap.add_argument("--out", default="/tmp/mutgen.json")
    ap.add_argument("--with-tests", action="store_true")
    ap.add_argument("--sample-seed", type=int, default=0)
    args = ap.parse_args()
    files = args.files.split(",") if args.files else anchored_files()
    muts = []
    for rel in files:
        p = pathlib.Path("/repo") / rel
        if not p.exists():
            continue
        for desc, new in gen_mutants(p, rel):
            muts.append((rel, desc, new, args.with_tests))
    import random

    random.Random(args.sample_seed).shuffle(muts)
    if args.limit:
        muts = muts[: args.limit]
    print(f"{len(muts)} mutants over {len(files)} files", flush=True)
    t0 = time.time()
    results = []
    with ProcessPoolExecutor(max_workers=args.jobs) as ex:
        for k, r in enumerate(ex.map(run_one, muts, chunksize=2)):
            results.append(r)
            if (k + 1) % 100 == 0:
                print(f"  {k + 1}/{len(muts)}  ({time.time() - t0:.0f}s)", flush=True)
    killed = [r for r in results if r.get("violations")]
    undec = [r for r in results if not r.get("violations") and r.get("undecided")]
    surv = [r for r in results if not r.get("violations") and not r.get("undecided") and not r.get("error")]
    print(f"reported by some check: {len(killed)}; undecided only (exit 2): {len(undec)}; silent: {len(surv)}; errors: {sum(1 for r in results if r.get('error'))}; wall {time.time() - t0:.0f}s")
    pathlib.Path(args.out).write_text(json.dumps(results, indent=1))
    by_file = {}
    for r in surv:
        by_file.setdefault(r["desc"].split(":")[0], []).append(r)
    for f, rs in sorted(by_file.items()):
        print(f"--- silent in {f}: {len(rs)}")


if __name__ == "__main__":
    main()
