#!/usr/bin/env python3
"""Recomputes /verif/seeded/EXPECT.json: for every kept seeded change, which properties' checks report it
(exit 1) on a scratch copy and through which rules. The thorough tier then requires these detections to persist."""
import json, pathlib, shutil, subprocess, sys, tempfile
from concurrent.futures import ProcessPoolExecutor
VERIF = pathlib.Path(__file__).resolve().parent.parent
sys.path.insert(0, str(VERIF))

def one(args):
    sid, patch = args
    from hmslint.check import run_property
    from hmslint.core import VIOLATION
    tmp = pathlib.Path(tempfile.mkdtemp(prefix="seedexp-"))
    try:
        shutil.copytree("/repo/pyhms", tmp / "pyhms", ignore=shutil.ignore_patterns("__pycache__"))
        pr = subprocess.run(["patch", "-p1", "-s", "-f", "-d", str(tmp), "-i", patch], capture_output=True, text=True)
        if pr.returncode:
            return sid, None
        from hmslint.check import run_all

        res = run_all(str(tmp))
        out = {pid: v["violations"] for pid, v in sorted(res.items()) if v["violations"]}
        return sid, out
    finally:
        shutil.rmtree(tmp, ignore_errors=True)

def main():
    seeds = sorted((VERIF / "seeded").glob("*/patch.diff"))
    with ProcessPoolExecutor(max_workers=16) as ex:
        res = dict(ex.map(one, [(p.parent.name, str(p)) for p in seeds]))
    exp = {}
    for sid, out in sorted(res.items()):
        meta = json.loads((VERIF / "seeded" / sid / "meta.json").read_text())
        own = meta.get("property")
        if out is None:
            print(sid, "patch does not apply"); continue
        exp[sid] = out
        print(f"{sid}: own={own} detected_by={ {k: v for k, v in out.items()} }" + ("" if own in out else "   <-- NOT detected by its own property's check"))
    (VERIF / "seeded" / "EXPECT.json").write_text(json.dumps(exp, indent=1, sort_keys=True) + "\n")

if __name__ == "__main__":
    main()
