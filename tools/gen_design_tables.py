#!/usr/bin/env python3
"""Regenerates the machine-derived tables of DESIGN.md (between <!-- BEGIN:GEN x --> / <!-- END:GEN x --> markers):
rules per property (from the rule modules), seeded changes and which checks catch them (seeded/EXPECT.json + meta.json),
benign refactorings (seeded/twins), fixed defects (known_findings.jsonl).   usage: /venv/bin/python tools/gen_design_tables.py"""
import importlib
import json
import pathlib
import re
import sys

VERIF = pathlib.Path(__file__).resolve().parent.parent
sys.path.insert(0, str(VERIF))


def rules_table():
    out = ["| property | rule | what it decides (first sentence of the rule's docstring) | min. subjects |", "|---|---|---|---:|"]
    for p in sorted((VERIF / "hmslint" / "rules").glob("c[0-9][0-9].py")):
        mod = importlib.import_module(f"hmslint.rules.{p.stem}")
        for rid, fn, mn in mod.RULES:
            doc = (fn.__doc__ or "").strip().split("\n\n")[0].replace("\n", " ")
            doc = re.sub(r"^[RC][0-9.O]+\s*", "", doc)
            out.append(f"| {p.stem.upper()} | {rid} | {doc[:230]} | {mn} |")
    return "\n".join(out)


def seeded_table():
    exp = json.loads((VERIF / "seeded" / "EXPECT.json").read_text())
    out = ["| change | breaks | what it does (independent sub-agent's summary, shortened) | needs, to manifest | reported by (exit 1) |", "|---|---|---|---|---|"]
    for d in sorted((VERIF / "seeded").glob("C*-r*/meta.json")):
        m = json.loads(d.read_text())
        sid = d.parent.name
        det = exp.get(sid, {})
        own = m.get("property")
        by = "; ".join(f"**{k}** {','.join(v)}" if k == own else f"{k} {','.join(v)}" for k, v in sorted(det.items())) or "—"
        out.append(f"| {sid} | {own} | {m.get('summary', '')[:200].replace('|', '/')} | {str(m.get('needs', ''))[:140].replace('|', '/')} | {by} |")
    return "\n".join(out)


def twins_table():
    und = {}
    up = VERIF / "seeded" / "twins" / "UNDECIDED.json"
    if up.exists():
        und = json.loads(up.read_text())
    out = ["| refactoring | anchored in | summary | verdict of the 19 checks |", "|---|---|---|---|"]
    n_silent = n_und = 0
    for d in sorted((VERIF / "seeded" / "twins").glob("*/meta.json")):
        m = json.loads(d.read_text())
        u = und.get(d.parent.name)
        if u:
            n_und += 1
            verdict = "no violation; undecided (exit 2): " + "; ".join(f"{p} {','.join(r)}" for p, r in sorted(u.items()))
        else:
            n_silent += 1
            verdict = "silent"
        out.append(f"| {d.parent.name} | {m.get('property')} | {m.get('summary', '')[:150].replace('|', '/')} | {verdict} |")
    out.append(f"| **total {n_silent + n_und}** | | | **{n_silent} silent on all 19 checks, {n_und} undecided somewhere, 0 reported as violation** |")
    return "\n".join(out)


def fixed_table():
    out = ["| property | commit in /repo | what failed |", "|---|---|---|"]
    for l in (VERIF / "known_findings.jsonl").read_text().splitlines():
        if l.startswith("{"):
            k = json.loads(l)
            if k.get("status") == "fixed":
                what = re.sub(r"^fixed: property=\S+ \S+ ", "", k["what"])
                out.append(f"| {k['property']} | `{k['commit']}` | {what[:260].replace('|', '/')} |")
    return "\n".join(out)


def main():
    p = VERIF / "DESIGN.md"
    s = p.read_text()
    for name, fn in (("rules", rules_table), ("seeded", seeded_table), ("twins", twins_table), ("fixed", fixed_table)):
        b, e = f"<!-- BEGIN:GEN {name} -->", f"<!-- END:GEN {name} -->"
        if b in s and e in s:
            i, j = s.index(b) + len(b), s.index(e)
            s = s[:i] + "\n" + fn() + "\n" + s[j:]
        else:
            print(f"marker for {name} not found", file=sys.stderr)
    p.write_text(s)


if __name__ == "__main__":
    main()
