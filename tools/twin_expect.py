#!/usr/bin/env python3
"""Recomputes seeded/twins/UNDECIDED.json: for every kept benign refactoring and every property, the rules that answer
`undecided` (ANALYSIS-INCONCLUSIVE / ANALYSIS-ERROR, exit 2).  Refuses to write the file if any refactoring is reported as a
VIOLATION by any check: that is a false alarm to be fixed in the checker, never something to list.
usage: /venv/bin/python tools/twin_expect.py [--jobs 16]"""
import argparse
import json
import pathlib
import shutil
import subprocess
import sys
import tempfile
from concurrent.futures import ProcessPoolExecutor

VERIF = pathlib.Path(__file__).resolve().parent.parent
sys.path.insert(0, str(VERIF))


def one(d):
    from hmslint.check import run_all

    tmp = pathlib.Path(tempfile.mkdtemp(prefix="twinexp-"))
    try:
        shutil.copytree("/repo/pyhms", tmp / "pyhms", ignore=shutil.ignore_patterns("__pycache__"))
        pr = subprocess.run(["patch", "-p1", "-s", "-f", "-d", str(tmp), "-i", str(d / "patch.diff")], capture_output=True, text=True)
        if pr.returncode:
            return d.name, {"error": "patch does not apply"}, {}
        res = run_all(str(tmp))
        viol = {p: sorted(v["violations"]) for p, v in res.items() if v["violations"]}
        und = {}
        for p, v in res.items():
            rules = sorted({u.split(":")[0].strip() for u in v["undecided"]})
            if rules:
                und[p] = rules
        return d.name, viol, und
    finally:
        shutil.rmtree(tmp, ignore_errors=True)


def main():
    ap = argparse.ArgumentParser()
    ap.add_argument("--jobs", type=int, default=16)
    args = ap.parse_args()
    dirs = sorted(p.parent for p in (VERIF / "seeded" / "twins").glob("*/patch.diff"))
    with ProcessPoolExecutor(max_workers=args.jobs) as ex:
        results = list(ex.map(one, dirs))
    bad = {n: v for n, v, _ in results if v}
    out = {n: u for n, _, u in results if u}
    for n, u in sorted(out.items()):
        print(f"{n}: undecided {u}")
    if bad:
        for n, v in sorted(bad.items()):
            print(f"FALSE ALARM {n}: {v}")
        print("not writing UNDECIDED.json: fix the false alarms first")
        return 1
    (VERIF / "seeded" / "twins" / "UNDECIDED.json").write_text(json.dumps(out, indent=1, sort_keys=True) + "\n")
    print(f"{len(dirs)} refactorings: {len(dirs) - len(out)} silent on all checks, {len(out)} undecided somewhere; no false alarm")
    return 0


if __name__ == "__main__":
    sys.exit(main())
