#!/usr/bin/env python3
"""Confirm seeded changes produced by independent sub-agents and run the checks against them.

usage: tools/seed_eval.py /tmp/seed/out_C16 [--keep] [--props C16,C03]
For every variant directory k: (1) in a scratch git worktree of /repo: demo.py exits 0 on the clean tree;
(2) with patch.diff applied: demo.py exits non-zero and the 55-test suite passes; (3) every implemented
hmslint check is run against the patched scratch tree (--repo) and the reporting rules are listed.
Confirmed variants are copied to /verif/seeded/<prop>-<n>/ with an extended meta.json.
"""
import argparse
import json
import os
import pathlib
import shutil
import subprocess
import sys
import tempfile

VERIF = pathlib.Path(__file__).resolve().parent.parent
PY = "/venv/bin/python"


def sh(cmd, cwd=None, env=None, timeout=1200):
    p = subprocess.run(cmd, cwd=cwd, env=env, shell=isinstance(cmd, str), capture_output=True, text=True, timeout=timeout)
    return p.returncode, p.stdout + p.stderr


def implemented():
    return sorted(p.stem.upper() for p in (VERIF / "hmslint" / "rules").glob("c[0-9][0-9].py"))


def main():
    ap = argparse.ArgumentParser()
    ap.add_argument("outdir")
    ap.add_argument("--props")
    ap.add_argument("--no-tests", action="store_true")
    ap.add_argument("--no-copy", action="store_true")
    ap.add_argument("--round", default="r1")
    args = ap.parse_args()
    out = pathlib.Path(args.outdir)
    props = args.props.split(",") if args.props else implemented()
    wt = pathlib.Path(tempfile.mkdtemp(prefix="seedconfirm-", dir="/tmp"))
    shutil.rmtree(wt)
    rc, o = sh(["git", "-C", "/repo", "worktree", "add", "-q", "--detach", str(wt), "HEAD"])
    if rc:
        print(o)
        return 2
    env = dict(os.environ, PYTHONPATH=str(wt))
    results = []
    try:
        for vdir in sorted(p for p in out.iterdir() if p.is_dir()):
            patch, demo, meta = vdir / "patch.diff", vdir / "demo.py", vdir / "meta.json"
            if not (patch.exists() and demo.exists()):
                print(f"{vdir}: incomplete")
                continue
            m = json.loads(meta.read_text()) if meta.exists() else {}
            r = {"dir": str(vdir), "meta": m}
            sh(["git", "-C", str(wt), "checkout", "-q", "--", "."])
            sh(["git", "-C", str(wt), "clean", "-fdq"])
            rc0, o0 = sh([PY, str(demo)], cwd=wt, env=env, timeout=600)
            r["demo_clean_exit"] = rc0
            rca, oa = sh(["git", "-C", str(wt), "apply", str(patch)])
            r["apply_exit"] = rca
            if rca:
                r["apply_out"] = oa[-500:]
                results.append(r)
                continue
            rc1, o1 = sh([PY, str(demo)], cwd=wt, env=env, timeout=600)
            r["demo_patched_exit"] = rc1
            r["demo_patched_tail"] = o1.strip().splitlines()[-1][:300] if o1.strip() else ""
            if not args.no_tests:
                rct, ot = sh([PY, "-m", "pytest", "-q", "-p", "no:cacheprovider", "--timeout=900", "-x"], cwd=wt, env=env, timeout=1800)
                r["tests_exit"] = rct
                r["tests_tail"] = ot.strip().splitlines()[-1] if ot.strip() else ""
            det = {}
            for pid in props:
                rcc, oc = sh([PY, "-m", "hmslint.check", pid, "--repo", str(wt), "--no-evidence"], cwd=VERIF, timeout=600)
                lines = [l.strip() for l in oc.splitlines()]
                rules = sorted({l.split()[0] for l in lines if l[:1] in "RC" and ("pyhms/" in l) and not l.startswith("VIOLATION")})
                if rcc != 0:
                    det[pid] = {"exit": rcc, "rules": rules, "lines": [l for l in lines if l.startswith(("R", "C0", "C1", "C2", "ANALYSIS")) and not l.startswith("VIOLATION")][:4]}
            r["detected_by"] = det
            r["confirmed"] = rc0 == 0 and rc1 != 0 and (args.no_tests or r.get("tests_exit") == 0)
            results.append(r)
            sh(["git", "-C", str(wt), "checkout", "-q", "--", "."])
    finally:
        sh(["git", "-C", "/repo", "worktree", "remove", "--force", str(wt)])
        shutil.rmtree(wt, ignore_errors=True)
    for r in results:
        m = r["meta"]
        own = m.get("property", "?")
        d = r.get("detected_by", {})
        print(f"== {r['dir']} [{own}] confirmed={r.get('confirmed')} clean={r.get('demo_clean_exit')} patched={r.get('demo_patched_exit')} tests={r.get('tests_tail', '')}")
        print(f"   {m.get('summary', '')[:200]}")
        if not d:
            print("   NOT DETECTED by any check")
        for pid, info in d.items():
            tag = "VIOLATION" if info["exit"] == 1 else "undecided(exit 2)"
            print(f"   {pid}: {tag} {info['rules']}")
            for l in info["lines"][:2]:
                print(f"        {l[:220]}")
        if r.get("confirmed") and not args.no_copy:
            n = pathlib.Path(r["dir"]).name
            dst = VERIF / "seeded" / f"{own}-{args.round}-{n}"
            dst.mkdir(parents=True, exist_ok=True)
            shutil.copy(pathlib.Path(r["dir"]) / "patch.diff", dst / "patch.diff")
            shutil.copy(pathlib.Path(r["dir"]) / "demo.py", dst / "demo.py")
            meta = dict(m)
            meta["confirmation"] = {
                "ran": "scratch worktree of /repo HEAD: demo.py on clean tree, git apply patch.diff, demo.py again, full pytest suite, then every hmslint check with --repo <scratch>",
                "demo_exit_clean": r["demo_clean_exit"],
                "demo_exit_patched": r["demo_patched_exit"],
                "demo_failure": r.get("demo_patched_tail", ""),
                "tests": r.get("tests_tail", ""),
            }
            meta["detected_by_at_confirmation"] = {pid: {"exit": i["exit"], "rules": i["rules"]} for pid, i in d.items()}
            (dst / "meta.json").write_text(json.dumps(meta, indent=1))
    return 0


if __name__ == "__main__":
    sys.exit(main())
