#!/usr/bin/env python3
"""Show the normalised form of a file / one function as hmslint sees it: tools/normshow.py <repo> pyhms/tree.py [name]"""
import ast
import pathlib
import sys

sys.path.insert(0, str(pathlib.Path(__file__).resolve().parent.parent))
from hmslint.model import Program  # noqa: E402

repo, rel = sys.argv[1], sys.argv[2]
prog = Program(repo)
t = next(m.tree for m in prog.modules.values() if m.relpath == rel)
if len(sys.argv) > 3:
    for n in ast.walk(t):
        if isinstance(n, (ast.FunctionDef, ast.ClassDef)) and n.name == sys.argv[3]:
            print(ast.unparse(n))
            print()
else:
    print(ast.unparse(t))
