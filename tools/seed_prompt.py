#!/usr/bin/env python3
"""Prints the prompt handed to an independent seeding sub-agent for one property (only the property's
text and a scratch worktree; nothing from /verif)."""
import json, sys
pid = sys.argv[1]
n = int(sys.argv[2]) if len(sys.argv) > 2 else 3
rnd = sys.argv[3] if len(sys.argv) > 3 else ""
props = {json.loads(l)["id"]: json.loads(l) for l in open("/verif/properties.jsonl") if l.strip()}
p = props[pid]
wt = f"/tmp/seed/wt_{pid}"
out = f"/tmp/seed/out{rnd}_{pid}"
import glob, os
earlier = []
for mf in sorted(glob.glob(f"/verif/seeded/{pid}-r*/meta.json")):
    earlier.append(json.load(open(mf)).get("summary", "")[:240])
excl = ("\n\nChanges of this kind were already produced in an earlier round; do NOT repeat them or close variations of them — find different constructs, different clauses of the property and different mechanisms:\n" + "\n".join(f"  - {e}" for e in earlier)) if (rnd and earlier) else ""
print(f"""You are helping to evaluate a verification tool for the Python library pyhms (agh-a2s/pyhms: a Hierarchic Memetic Strategy — a tree of evolutionary sub-populations ("demes": SEA, DE, SHADE, CMA-ES, local search, LHS, Sobol) with sprouting and stop conditions). You get a private scratch git worktree of the library at {wt} (source under {wt}/pyhms, tests under {wt}/test). Work ONLY inside {wt} and {out}. Never touch /repo or /verif, and never run `git commit`.

The library is supposed to satisfy this property:

  [{p['id']}] {p['title']}
  Statement: {p['statement']}
  Quantified over: {p['quantifier']['text']}

Your job: produce {n} DIFFERENT, independent source changes ("seeded bugs") to the library, each of which BREAKS this property while the library still imports and the existing test-suite still passes completely. We want realistic, subtle regressions of the kind a maintainer could introduce in a refactor or "optimisation" — NOT changes that ordinary use exposes at once. Each change should need something specific to manifest: a particular configuration or engine mix, maximisation instead of minimisation, an unusual input (ties, zero, exact bounds), a multi-step sequence of operations, a particular point of the run at which a stop condition fires, or two cooperating edit sites that each look fine alone. Prefer changes at different sites / different mechanisms for the {n} variants (do not make {n} variations of the same edit). Read the relevant source first so that the changes are plausible for this code base. Keep each change small (a few lines, at most two or three sites).

How to run things (offline sandbox; no network; do not install anything):
  * tests:   cd {wt} && /venv/bin/python -m pytest -q -p no:cacheprovider --timeout=900      (must report all 55 tests passed with your change applied)
  * scripts: cd {wt} && PYTHONPATH={wt} /venv/bin/python your_script.py       (PYTHONPATH is essential: otherwise `import pyhms` resolves to another checkout; check once, e.g. by printing pyhms.__file__, that it points into {wt})
  * some tests are randomised but seeded; run the suite once per variant.

For each variant k = 1..{n} create the directory {out}/{{k}}/ containing:
  * patch.diff  — `git -C {wt} diff` of exactly this change against the clean worktree (it must apply with `git apply` to a clean checkout);
  * demo.py     — a small self-contained program (plain asserts, no pytest needed, runtime under ~60 s, deterministic: fix seeds) that demonstrates the violation of the property through the library's public behaviour: it must exit with status 0 on the UNCHANGED library and with a non-zero status (failed assert) when the change is applied. It is run as: cd <checkout> && PYTHONPATH=<checkout> /venv/bin/python demo.py  — so do not hard-code {wt} in it (use `import pyhms`, and os.path.dirname(pyhms.__file__) if you need the location);
  * meta.json   — {{"property": "{p['id']}", "summary": "<one line: what was changed>", "needs": "<what specific situation is needed for the violation to manifest>", "files": ["..."], "tests": "<how many tests passed with the change>"}}.
After writing each variant's files, restore the worktree with `git -C {wt} checkout -- .` (and delete any stray files you created inside it) before starting the next one, so that each patch is independent. Before finishing, verify for every variant, starting from a clean worktree: (1) demo.py exits 0 without the patch; (2) after `git apply patch.diff`, demo.py exits non-zero AND the full test-suite passes (55 passed); then restore the worktree again. If a variant cannot satisfy all of this, replace it by another idea rather than weakening the requirements.

{excl}

Finish with a short report listing, per variant, the summary, the files touched and the verification results you observed. Leave the worktree clean. Never use `git stash` (the stash is shared between all worktrees of the repository and other agents work in sibling worktrees); use `git diff > file` and `git apply` / `git apply -R` / `git checkout -- .` instead.""")
