import numpy as np
from pyhms import (EALevelConfig, CMALevelConfig, FunctionProblem, DemeTree, TreeConfig, get_NBC_sprout, SEA)
from pyhms.stop_conditions import MetaepochLimit, DontStop, SingularProblemEvalLimitReached, FitnessEvalLimitReached
from pyhms.core.problem import EvalCutoffProblem

def f(x):
    return float(np.sum(x**2))
bounds = np.array([(-5.0, 5.0)] * 2)
for seed in range(6):
    problem = FunctionProblem(f, maximize=False, bounds=bounds)
    levels = [
        EALevelConfig(ea_class=SEA, generations=2, problem=problem, pop_size=20, mutation_std=1.0, lsc=DontStop()),
        CMALevelConfig(generations=4, problem=problem, sigma0=0.5, lsc=MetaepochLimit(2)),
    ]
    gsc = FitnessEvalLimitReached(limit=100000)
    tree = DemeTree(TreeConfig(levels, gsc, get_NBC_sprout(level_limit=2), options={"random_seed": seed, "hibernation": True}))
    stalled = None
    for step in range(1, 80):
        before = tree.n_evaluations
        tree.run_step()
        active = [d.id for _, d in tree.active_demes]
        if tree.n_evaluations == before and active and not gsc(tree):
            stalled = (step, active, [d._hibernating for _, d in tree.active_demes])
            break
    print("seed", seed, "STALL at metaepoch/active/hibernating:" if stalled else "no stall", stalled)
