import numpy as np, warnings
warnings.filterwarnings("ignore")
from pyhms import *
from pyhms.config import *
from pyhms.tree import DemeTree
from pyhms.demes.single_pop_eas.sea import SEA
from pyhms.core.problem import FunctionProblem
b=np.array([(-20.,20.),(-20.,20.)])
def f(x): return float(np.sum(x**2))
p=FunctionProblem(f,maximize=False,bounds=b)
# C18: hibernation with 3 levels
cfg=[EALevelConfig(ea_class=SEA,generations=1,problem=p,pop_size=10,mutation_std=1.0,lsc=DontStop()),
     EALevelConfig(ea_class=SEA,generations=1,problem=p,pop_size=10,mutation_std=1.0,lsc=DontStop()),
     CMALevelConfig(generations=2,problem=p,sigma0=1.0,lsc=DontStop())]
t=DemeTree(TreeConfig(cfg,MetaepochLimit(6),get_simple_sprout(1.0),options={"random_seed":3,"hibernation":True}))
for k in range(5):
    t.run_step()
    print("after step",t.metaepoch_count,[(d.id,lvl,d.started_at,d._hibernating,d.metaepoch_count,d.n_evaluations) for lvl,d in t.all_demes])

# C20: *** marker with best fitness == 0.0
def g(x): return float(np.sum(np.round(x)**2))   # plateaus; min 0.0 easily reached
p2=FunctionProblem(g,maximize=False,bounds=b)
cfg=[EALevelConfig(ea_class=SEA,generations=1,problem=p2,pop_size=30,mutation_std=3.0,lsc=DontStop()),
     CMALevelConfig(generations=2,problem=p2,sigma0=1.0,lsc=DontStop())]
t=DemeTree(TreeConfig(cfg,MetaepochLimit(8),get_simple_sprout(1.0),options={"random_seed":3}))
t.run()
print(t.best_individual.fitness)
print(t.tree())
# C13: CMA under maximize
pm=FunctionProblem(lambda x:-f(x),maximize=True,bounds=b)
cfgm=[EALevelConfig(ea_class=SEA,generations=1,problem=pm,pop_size=10,mutation_std=1.0,lsc=DontStop()),
     CMALevelConfig(generations=5,problem=pm,sigma0=1.0,lsc=DontStop())]
tm=DemeTree(TreeConfig(cfgm,MetaepochLimit(8),get_simple_sprout(1.0),options={"random_seed":3}))
tm.run()
for lvl,d in tm.all_demes:
    print(lvl,d.id,type(d).__name__,"seed fit",None if d._sprout_seed is None else d._sprout_seed.fitness,"best current",d.best_current_individual.fitness, "centroid", d.centroid)
