# C16: ProblemWrapper does not delegate `equivalent`
import numpy as np
from pyhms.core.problem import FunctionProblem, EvalCountingProblem
from pyhms.core.individual import Individual
class TolProblem(FunctionProblem):
    def equivalent(self, a, b): return abs(a - b) <= 1e-6
b = np.array([(-1., 1.), (-1., 1.)])
p = TolProblem(lambda x: float(np.sum(x**2)), bounds=b, maximize=False)
w = EvalCountingProblem(p)   # what every deme does
x = np.zeros(2)
print("inner :", Individual(x, p, 1.0) == Individual(x, p, 1.0 + 1e-9))
print("wrapped:", Individual(x, w, 1.0) == Individual(x, w, 1.0 + 1e-9))
