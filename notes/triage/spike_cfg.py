# Throwaway spike: statement CFG with short-circuit conditions + C05 typestate on run_metaepoch
import ast, pathlib, itertools, sys
class Node:
    _n=0
    def __init__(s,kind,ast_node=None,label=''):
        s.kind=kind; s.ast=ast_node; s.label=label; s.succ=[]  # (node, edgelabel)
        Node._n+=1; s.id=Node._n
    def __repr__(s): return f"<{s.id}:{s.kind}:{s.label[:40]}>"
def link(a,b,lab=None):
    a.succ.append((b,lab))
class CFG:
    def __init__(s,fn):
        s.entry=Node('entry'); s.exit=Node('exit'); s.nodes=[s.entry,s.exit]
        s.loops=[]
        ends=s.block(fn.body,[(s.entry,None)])
        for (n,l) in ends: link(n,s.exit,l)
    def new(s,kind,a=None):
        n=Node(kind,a,ast.unparse(a) if a is not None else ''); s.nodes.append(n); return n
    def cond(s,test,preds):
        """returns (true_preds, false_preds) with short-circuit"""
        if isinstance(test,ast.BoolOp):
            if isinstance(test.op,ast.Or):
                T=[];cur=preds
                for v in test.values:
                    t,f=s.cond(v,cur); T+=t; cur=f
                return T,cur
            else:
                F=[];cur=preds
                for v in test.values:
                    t,f=s.cond(v,cur); F+=f; cur=t
                return cur,F
        if isinstance(test,ast.UnaryOp) and isinstance(test.op,ast.Not):
            t,f=s.cond(test.operand,preds); return f,t
        n=s.new('cond',test)
        for (p,l) in preds: link(p,n,l)
        return [(n,True)],[(n,False)]
    def block(s,stmts,preds):
        for st in stmts:
            preds=s.stmt(st,preds)
        return preds
    def stmt(s,st,preds):
        if isinstance(st,ast.If):
            t,f=s.cond(st.test,preds)
            a=s.block(st.body,t); b=s.block(st.orelse,f) if st.orelse else f
            return a+b
        if isinstance(st,ast.While):
            head=s.new('loophead',None)
            for (p,l) in preds: link(p,head,l)
            t,f=s.cond(st.test,[(head,None)])
            s.loops.append({'head':head,'breaks':[],'conts':[]})
            body_end=s.block(st.body,t)
            L=s.loops.pop()
            for (p,l) in body_end+L['conts']: link(p,head,l)
            return f+L['breaks']
        if isinstance(st,ast.For):
            head=s.new('forhead',st.iter)
            for (p,l) in preds: link(p,head,l)
            s.loops.append({'head':head,'breaks':[],'conts':[]})
            body_end=s.block(st.body,[(head,'iter')])
            L=s.loops.pop()
            for (p,l) in body_end+L['conts']: link(p,head,l)
            return [(head,'done')]+L['breaks']
        if isinstance(st,ast.Return):
            n=s.new('return',st)
            for (p,l) in preds: link(p,n,l)
            link(n,s.exit); return []
        if isinstance(st,ast.Raise):
            n=s.new('raise',st)
            for (p,l) in preds: link(p,n,l)
            link(n,s.exit,'raise'); return []
        if isinstance(st,ast.Break):
            s.loops[-1]['breaks']+=preds; return []
        if isinstance(st,ast.Continue):
            s.loops[-1]['conts']+=preds; return []
        n=s.new('stmt',st)
        for (p,l) in preds: link(p,n,l)
        return [(n,None)]
# --- C05 typestate
EVAL_CALLS=('evaluate_population','.run(','sopt.minimize','self.run()')
def is_eval(n):
    if n.ast is None: return False
    t=n.label
    return ('evaluate_population' in t) or ('._ea.run(' in t) or ('._de.run(' in t) or ('._shade.run(' in t) or ('self.run()' in t) or ('sopt.minimize' in t)
def is_gsc(n): return n.kind=='cond' and '_gsc(' in n.label
def deact(n): return n.kind=='stmt' and n.label.replace(' ','')=='self._active=False'
def happend(n): return n.kind=='stmt' and 'self._history.append' in n.label
def analyse(cls,fn):
    g=CFG(fn)
    # state: (gs in {CLEAN,DIRTY,STOPPING}, deact bool, appended 0/1/2)
    from collections import deque
    seen={}; q=deque([(g.entry,('CLEAN',False,0))]); viol=set()
    exits=set()
    while q:
        n,st=q.popleft()
        if (n.id,st) in seen: continue
        seen[(n.id,st)]=1
        gs,da,ap=st
        if is_eval(n):
            if gs=='DIRTY': viol.add(('two EVAL without GSC',n.label))
            if gs=='STOPPING': viol.add(('EVAL after GSC true',n.label))
            gs='DIRTY' if gs!='STOPPING' else gs
        if deact(n): da=True
        if happend(n): ap=min(2,ap+1)
        if n is g.exit: exits.add((gs,da,ap)); continue
        for (m,lab) in n.succ:
            ngs=gs
            if is_gsc(n): ngs='STOPPING' if lab is True else 'CLEAN'
            q.append((m,(ngs,da,ap)))
    for (gs,da,ap) in exits:
        if gs=='STOPPING' and not da: viol.add(('GSC true exit without deactivation',''))
        if ap!=1: viol.add((f'history appended {ap} times on some path',''))
    print(f"{cls}.{fn.name}: nodes={len(g.nodes)} states={len(seen)} exits={sorted(exits)} viol={sorted(viol)}")
root=pathlib.Path(sys.argv[1] if len(sys.argv)>1 else '/repo')/'pyhms/demes'
for f in ['ea_deme','de_deme','shade_deme','cma_deme','lhs_deme','sobol_deme','local_deme']:
    t=ast.parse((root/f'{f}.py').read_text())
    for c in t.body:
        if isinstance(c,ast.ClassDef):
            for fn in c.body:
                if isinstance(fn,ast.FunctionDef) and fn.name=='run_metaepoch': analyse(c.name,fn)
