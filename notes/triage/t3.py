import numpy as np, warnings
warnings.filterwarnings("ignore")
from pyhms import *
from pyhms.config import *
from pyhms.tree import DemeTree
from pyhms.demes.single_pop_eas.sea import SEA
from pyhms.core.problem import FunctionProblem
from pyhms.core.individual import Individual
from pyhms.sprout.sprout_filters import LevelLimit
from pyhms.sprout.sprout_candidates import DemeCandidates, DemeFeatures
from pyhms.utils.r5s import R5SSelection
b=np.array([(-20.,20.),(-20.,20.)])
def f(x): return float(np.sum(x**2))
p=FunctionProblem(f,maximize=False,bounds=b)
# C09 centroid staleness: 3 levels EA/EA/CMA simple sprout
cfg=[EALevelConfig(ea_class=SEA,generations=1,problem=p,pop_size=10,mutation_std=1.0,lsc=DontStop()),
     EALevelConfig(ea_class=SEA,generations=1,problem=p,pop_size=10,mutation_std=1.0,lsc=DontStop()),
     CMALevelConfig(generations=2,problem=p,sigma0=1.0,lsc=DontStop())]
t=DemeTree(TreeConfig(cfg,MetaepochLimit(6),get_simple_sprout(1.0),options={"random_seed":3}))
t.run()
for lvl,d in t.all_demes:
    true_c=np.mean([i.genome for i in d.current_population],axis=0)
    print(lvl,d.id,type(d).__name__,"centroid",d.centroid,"true",true_c,"stale",not np.allclose(d.centroid,true_c))

# C13/C10 LevelLimit under maximize
pm=FunctionProblem(lambda x:-f(x),maximize=True,bounds=b)
cfgm=[EALevelConfig(ea_class=SEA,generations=1,problem=pm,pop_size=10,mutation_std=1.0,lsc=DontStop()),
     CMALevelConfig(generations=2,problem=pm,sigma0=1.0,lsc=DontStop())]
tm=DemeTree(TreeConfig(cfgm,MetaepochLimit(6),get_simple_sprout(1.0),options={"random_seed":3}))
inds=[Individual(np.array([float(k),0.]),pm,pm.evaluate(np.array([float(k),0.]))) for k in (1,2,3)]
c={tm.root:DemeCandidates(individuals=list(inds),features=DemeFeatures())}
out=LevelLimit(1)(c,tm)
print("maximize: kept fitness",[i.fitness for i in out[tm.root].individuals],"best is",max(i.fitness for i in inds))
# R5S under maximize
rng=np.random.default_rng(0)
G=rng.uniform(-5,5,(12,2))
im=[Individual(g,pm,pm.evaluate(g)) for g in G]
imin=[Individual(g,p,p.evaluate(g)) for g in G]
a=R5SSelection()(im); bb=R5SSelection()(imin)
print("R5S max",sorted(tuple(np.round(i.genome,3)) for i in a)); print("R5S min",sorted(tuple(np.round(i.genome,3)) for i in bb))
