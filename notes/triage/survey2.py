import numpy as np, warnings
warnings.filterwarnings("ignore")
exec(open('survey.py').read().split("issues=[]")[0])
from pyhms.sprout import *
viol=0; total=0
for bb in (np.array([(-3.,7.),(-5.,2.)]), np.array([(-0.1,0.2),(0.3,0.7)])):
    for kind in (('sea','cma'),('de','sea','local'),('shade','cma'),('lhs','de'),('sobol','local'),('mwea','cma')):
        for seed in range(4):
            rec=Rec(); p=FunctionProblem(rec,maximize=False,bounds=bb)
            w=bb[:,1]-bb[:,0]
            L={'sea':lambda l:EALevelConfig(ea_class=SEA,pop_size=12,problem=p,lsc=DontStop(),generations=2,mutation_std=float(w.mean())/4,sample_std_dev=float(w.mean())/10),
               'de':lambda l:DELevelConfig(pop_size=10,problem=p,lsc=DontStop(),generations=2,dither=l%2==0,sample_std_dev=float(w.mean())/10),
               'shade':lambda l:SHADELevelConfig(pop_size=10,problem=p,lsc=DontStop(),generations=2,memory_size=4,sample_std_dev=float(w.mean())/10),
               'cma':lambda l:CMALevelConfig(problem=p,lsc=DontStop(),generations=3,sigma0=float(w.min())/5),
               'local':lambda l:LocalOptimizationConfig(problem=p,lsc=DontStop(),maxiter=5),
               'lhs':lambda l:LHSLevelConfig(problem=p,lsc=DontStop(),pop_size=10),
               'sobol':lambda l:SobolLevelConfig(problem=p,lsc=DontStop(),pop_size=8),
               'mwea':lambda l:EALevelConfig(ea_class=MWEA,pop_size=20,problem=p,lsc=DontStop(),generations=1,mutation_std=float(w.mean())/4,k_elites=3)}
            lv=[L[k](i) for i,k in enumerate(kind)]
            try:
                t=DemeTree(TreeConfig(lv,MetaepochLimit(4),get_simple_sprout(float(w.min())/20,level_limit=3),options={"random_seed":seed})); t.run()
            except Exception as e:
                print("EXC",kind,bb.tolist(),type(e).__name__,str(e)[:80]); continue
            X=np.array(rec.calls); total+=len(X)
            out=(X<bb[:,0])|(X>bb[:,1])
            if out.any():
                viol+=out.any(axis=1).sum(); print("OUT",kind,bb.tolist(),seed,X[out.any(axis=1)][:2], (X-bb[:,1])[out.any(axis=1)][:2])
print("total evals",total,"out of box",viol)
