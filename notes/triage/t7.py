import numpy as np, warnings, hashlib, sys, random
warnings.filterwarnings("ignore")
from pyhms import *
from pyhms.config import *
from pyhms.tree import DemeTree
from pyhms.demes.single_pop_eas.sea import SEA, MWEA, SEAWithCrossover, GAStyleSEA, SEAWithAdaptiveMutation
from pyhms.core.problem import FunctionProblem
b=np.array([(-20.,20.),(-20.,20.)])
def f(x): return float(np.sum((x-1)**2)+np.sin(3*x[0]))
p=FunctionProblem(f,maximize=False,bounds=b)
np.random.seed(int(sys.argv[1])); random.seed(int(sys.argv[1]))   # perturb prior state
def dig(t):
    h=hashlib.sha256()
    for lvl,d in t.all_demes:
        h.update(f"{lvl}|{d.id}|{d.started_at}|{d.is_active}|{d.n_evaluations}".encode())
        for g in d.history:
            for i in g: h.update(np.asarray(i.genome,dtype=float).tobytes()); h.update(np.float64(i.fitness).tobytes())
    return h.hexdigest()[:12]
cfgs={
 "shade/cma":[SHADELevelConfig(pop_size=12,problem=p,lsc=DontStop(),generations=2,memory_size=5),CMALevelConfig(problem=p,lsc=DontStop(),generations=3,sigma0=None)],
 "lhs/local":[LHSLevelConfig(problem=p,lsc=DontStop(),pop_size=16),LocalOptimizationConfig(problem=p,lsc=DontStop())],
 "sobol/de":[SobolLevelConfig(problem=p,lsc=DontStop(),pop_size=16),DELevelConfig(pop_size=10,problem=p,lsc=DontStop(),generations=2)],
 "mwea/cma-stds":[EALevelConfig(ea_class=MWEA,pop_size=20,problem=p,lsc=DontStop(),generations=2,mutation_std=1.0,k_elites=3),CMALevelConfig(problem=p,lsc=DontStop(),generations=3,sigma0=None,set_stds=True)],
 "seax/ga/adapt":[EALevelConfig(ea_class=SEAWithCrossover,pop_size=20,problem=p,lsc=DontStop(),generations=2,mutation_std=1.0),EALevelConfig(ea_class=GAStyleSEA,pop_size=10,problem=p,lsc=DontStop(),generations=2),EALevelConfig(ea_class=SEAWithAdaptiveMutation,pop_size=10,problem=p,lsc=DontStop(),generations=2,mutation_std=0.5,mutation_std_step=0.1)],
}
for name,c in cfgs.items():
    for hib in (False,True):
        t=DemeTree(TreeConfig(c,MetaepochLimit(5),get_NBC_sprout(level_limit=3),options={"random_seed":7,"hibernation":hib}))
        t.run()
        print(name,hib,dig(t),len(t.all_demes))
