import numpy as np, warnings
warnings.filterwarnings("ignore")
from pyhms.core.problem import FunctionProblem
from pyhms.core.individual import Individual
from pyhms.utils.clusterization import NearestBetterClustering
b=np.array([(-20.,20.),(-20.,20.)])
def f(x): return float(np.sum(x**2))
p=FunctionProblem(f,maximize=False,bounds=b)
def ref(inds, df, tf):
    s=sorted(inds,key=lambda i:i.fitness)  # minimise
    s=s[:int(len(s)*tf)]
    d=[np.inf]
    for k in range(1,len(s)):
        better=[j for j in range(k) if s[j].fitness < s[k].fitness] or [0]
        d.append(min(np.linalg.norm(s[k].genome-s[j].genome) for j in better))
    m=np.mean(d[1:])
    return [s[k] for k in range(len(s)) if d[k]>df*m]
rng=np.random.default_rng(1)
# tightly converged population around (1,1) + two far points
G=np.concatenate([1+1e-10*rng.standard_normal((8,2)), [[5,5.],[-6,3.]], 1+1e-3*rng.standard_normal((4,2))])
inds=[Individual(g,p,f(g)) for g in G]
nbc=NearestBetterClustering(inds,2.0,1.0)
out=nbc.cluster()
r=ref(inds,2.0,1.0)
print("tree size",nbc.tree.size(),"of",len(inds))
print("impl",sorted(tuple(i.genome) for i in out))
print("ref ",sorted(tuple(i.genome) for i in r))
print(len(nbc.distances))
print("---- search for divergence")
for seed in range(200):
    rng=np.random.default_rng(seed)
    G=np.concatenate([1+1e-10*rng.standard_normal((10,2)), rng.uniform(-8,8,(5,2))])
    inds=[Individual(g,p,f(g)) for g in G]
    assert len({g.tobytes() for g in G})==len(G)
    nbc=NearestBetterClustering(inds,2.0,1.0); out=nbc.cluster(); r=ref(inds,2.0,1.0)
    a=sorted(tuple(i.genome) for i in out); bb=sorted(tuple(i.genome) for i in r)
    if a!=bb:
        print("seed",seed,"impl",len(a),"ref",len(bb),"tree size",nbc.tree.size()); break
