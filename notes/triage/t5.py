import numpy as np, warnings
warnings.filterwarnings("ignore")
from pyhms import *
from pyhms.config import *
from pyhms.tree import DemeTree
from pyhms.demes.single_pop_eas.sea import SEA
from pyhms.core.problem import FunctionProblem
b=np.array([(-20.,20.),(-20.,20.)])
def f(x): return float(np.sum((x-1)**4)+np.sum(x**2))
p=FunctionProblem(f,maximize=False,bounds=b)
cfg=[EALevelConfig(ea_class=SEA,generations=1,problem=p,pop_size=10,mutation_std=1.0,lsc=DontStop()),
     LocalOptimizationConfig(problem=p,lsc=DontStop())]
t=DemeTree(TreeConfig(cfg,MetaepochLimit(3),get_simple_sprout(1.0),options={"random_seed":3}))
t.run()
for lvl,d in t.all_demes:
    if lvl==1:
        for g in d.history:
            for i in g: print(d.id, i.genome, i.fitness, "true", f(i.genome), "same obj as last:", i.genome is d.history[-1][-1].genome)
        break
