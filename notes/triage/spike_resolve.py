# Throwaway feasibility spike: how many call sites resolve with a light resolver?
import ast, pathlib, collections, sys
ROOT=pathlib.Path('/repo/pyhms')
mods={}
for p in sorted(ROOT.rglob('*.py')):
    name='pyhms.'+'.'.join(p.relative_to(ROOT).with_suffix('').parts)
    if name.endswith('.__init__'): name=name[:-9]
    mods[name]=(p,ast.parse(p.read_text()))
classes={}   # name -> (mod, node)
funcs={}     # (mod,name)->node
for m,(p,t) in mods.items():
    for n in t.body:
        if isinstance(n,ast.ClassDef): classes[n.name]=(m,n)
        if isinstance(n,ast.FunctionDef): funcs[(m,n.name)]=n
def bases(c):
    out=[]
    for b in classes[c][1].bases:
        bn=b.id if isinstance(b,ast.Name) else (b.attr if isinstance(b,ast.Attribute) else None)
        if bn in classes: out.append(bn)
    return out
def mro(c):
    seen=[];st=[c]
    while st:
        x=st.pop(0)
        if x in seen: continue
        seen.append(x); st+=bases(x)
    return seen
def methods(c):
    d={}
    for k in reversed(mro(c)):
        for b in classes[k][1].body:
            if isinstance(b,ast.FunctionDef): d[b.name]=(k,b)
    return d
def subclasses(c): return [k for k in classes if c in mro(k)]
# attribute types per class from `self.x: T = ...` / `self.x = Ctor(...)` / param annotations
def ann_name(a):
    if a is None: return None
    if isinstance(a,ast.Name): return a.id
    if isinstance(a,ast.Constant) and isinstance(a.value,str): return a.value.split('|')[0].strip().strip('"')
    if isinstance(a,ast.BinOp): return ann_name(a.left)
    if isinstance(a,ast.Subscript):
        b=ann_name(a.value)
        if b in('list','List','Type','type'): return (b, ann_name(a.slice))
        return b
    if isinstance(a,ast.Attribute): return a.attr
    return None
attr_types=collections.defaultdict(dict)
for c,(m,node) in classes.items():
    for f in node.body:
        if not isinstance(f,ast.FunctionDef): continue
        params={a.arg:ann_name(a.annotation) for a in f.args.args}
        for n in ast.walk(f):
            tgt=None;val=None;ann=None
            if isinstance(n,ast.AnnAssign): tgt,val,ann=n.target,n.value,n.annotation
            elif isinstance(n,ast.Assign) and len(n.targets)==1: tgt,val=n.targets[0],n.value
            if isinstance(tgt,ast.Attribute) and isinstance(tgt.value,ast.Name) and tgt.value.id=='self':
                t=ann_name(ann)
                if t is None and isinstance(val,ast.Call):
                    fn=val.func
                    nm=fn.id if isinstance(fn,ast.Name) else (fn.attr if isinstance(fn,ast.Attribute) else None)
                    if nm in classes: t=nm
                if t is None and isinstance(val,ast.Name) and val.id in params: t=params[val.id]
                if t is None and isinstance(val,ast.Attribute) and isinstance(val.value,ast.Name) and val.value.id in params:
                    pt=params[val.value.id]
                    if isinstance(pt,str) and pt in classes: t=attr_types[pt].get(val.attr)
                if t and tgt.attr not in attr_types[c]: attr_types[c][tgt.attr]=t
def attr_type(c,a):
    for k in mro(c):
        if a in attr_types[k]: return attr_types[k][a]
    return None
stats=collections.Counter(); unresolved=[]
SKIP=('visualisation','kriging','landscape','deme_performance')
for m,(p,t) in mods.items():
    if any(s in m for s in SKIP): continue
    imported={}
    for n in t.body:
        if isinstance(n,ast.ImportFrom):
            for a in n.names: imported[a.asname or a.name]=(n.module or '', a.name, n.level)
        if isinstance(n,ast.Import):
            for a in n.names: imported[a.asname or a.name.split('.')[0]]=(a.name,None,0)
    def visit_fn(f, cls):
        params={a.arg:ann_name(a.annotation) for a in f.args.args+f.args.kwonlyargs}
        locals_={}
        for n in ast.walk(f):
            if isinstance(n,ast.Assign) and len(n.targets)==1 and isinstance(n.targets[0],ast.Name) and isinstance(n.value,ast.Call):
                fn=n.value.func; nm=fn.id if isinstance(fn,ast.Name) else (fn.attr if isinstance(fn,ast.Attribute) else None)
                if nm in classes: locals_[n.targets[0].id]=nm
            if isinstance(n,ast.AnnAssign) and isinstance(n.target,ast.Name):
                locals_[n.target.id]=ann_name(n.annotation)
        def typeof(e):
            if isinstance(e,ast.Name):
                if e.id=='self': return cls
                if e.id in locals_: return locals_[e.id]
                if e.id in params: return params[e.id]
                if e.id in classes: return ('Type',e.id)
                return None
            if isinstance(e,ast.Attribute):
                bt=typeof(e.value)
                if isinstance(bt,str) and bt in classes:
                    t_=attr_type(bt,e.attr)
                    if t_: return t_
                    ms=methods(bt)
                    if e.attr in ms:
                        k,fn=ms[e.attr]
                        if any(isinstance(d,ast.Name) and d.id=='property' for d in fn.decorator_list):
                            return ann_name(fn.returns)
                return None
            if isinstance(e,ast.Call):
                if isinstance(e.func,ast.Name) and e.func.id in classes: return e.func.id
                if isinstance(e.func,ast.Name) and e.func.id=='super': return ('super',cls)
            if isinstance(e,ast.Subscript):
                bt=typeof(e.value)
                if isinstance(bt,tuple) and bt[0] in('list','List'): return bt[1]
            return None
        for n in ast.walk(f):
            if not isinstance(n,ast.Call): continue
            fn=n.func
            if isinstance(fn,ast.Name):
                if fn.id in classes or (m,fn.id) in funcs or fn.id in imported and imported[fn.id][2]>0 or (fn.id in imported and imported[fn.id][0].startswith('pyhms')): stats['internal']+=1
                elif fn.id in imported: stats['external']+=1
                elif fn.id in dir(__builtins__): stats['builtin']+=1
                elif fn.id in params or fn.id in locals_ or True:
                    # calling a local callable
                    stats['callable-var']+=1; unresolved.append(f"{p}:{n.lineno} {ast.unparse(fn)} [callable var]")
            elif isinstance(fn,ast.Attribute):
                bt=typeof(fn.value)
                root=fn.value
                while isinstance(root,(ast.Attribute,ast.Subscript,ast.Call)): root=root.value if not isinstance(root,ast.Call) else root.func
                rootname=root.id if isinstance(root,ast.Name) else None
                if isinstance(bt,tuple) and bt[0]=='super': stats['internal']+=1
                elif isinstance(bt,tuple) and bt[0] in('Type','type') and bt[1] in classes: stats['internal']+=1
                elif isinstance(bt,str) and bt in classes:
                    if fn.attr in methods(bt): stats['internal']+=1
                    else: stats['internal-attr-callable']+=1
                elif rootname in imported and imported[rootname][2]==0 and not imported[rootname][0].startswith('pyhms'): stats['external']+=1
                else:
                    cands=[c for c in classes if fn.attr in {b.name for b in classes[c][1].body if isinstance(b,ast.FunctionDef)}]
                    if cands: stats['cha-fallback']+=1; unresolved.append(f"{p}:{n.lineno} {ast.unparse(fn)} -> CHA {len(cands)}")
                    else: stats['untyped-external?']+=1; unresolved.append(f"{p}:{n.lineno} {ast.unparse(fn)} [no candidate]")
            else: stats['other']+=1
    for n in t.body:
        if isinstance(n,ast.FunctionDef): visit_fn(n,None)
        if isinstance(n,ast.ClassDef):
            for b in n.body:
                if isinstance(b,ast.FunctionDef): visit_fn(b,n.name)
print(stats, sum(stats.values()))
print("\n".join(unresolved))
