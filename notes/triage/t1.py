import numpy as np, warnings
warnings.filterwarnings("ignore")
from pyhms import *
from pyhms.config import *
from pyhms.tree import DemeTree
from pyhms.demes.single_pop_eas.sea import SEA
from pyhms.core.problem import FunctionProblem, EvalCountingProblem

calls=[]
def f(x):
    calls.append(np.array(x)); return float(np.sum(x**2))
b=np.array([(-20.,20.),(-20.,20.)])
p=FunctionProblem(f,maximize=False,bounds=b)
# C11: generations compounding
cfg=[EALevelConfig(ea_class=SEA,generations=3,problem=p,pop_size=10,mutation_std=1.0,lsc=DontStop())]
t=DemeTree(TreeConfig(cfg,MetaepochLimit(2),get_simple_sprout(1.0),options={"random_seed":3}))
t.run_step()
root=t.root
h=root._history
print("metaepochs",len(h),[len(m) for m in h])
g0=h[0][0]; gens=h[1]
def keyset(pop): return {(tuple(i.genome),i.fitness) for i in pop}
# For gen k>=1 in metaepoch 1: the elite (k_elites=1) carried is best of *which* gen?
for k,g in enumerate(gens):
    best_prev0=min(g0,key=lambda i:i.fitness)
    print(k,"contains best of start pop:",(tuple(best_prev0.genome),best_prev0.fitness) in keyset(g), 
          "contains best of previous gen:", k>0 and (lambda bp:(tuple(bp.genome),bp.fitness) in keyset(g))(min(gens[k-1],key=lambda i:i.fitness)),
          "best", min(i.fitness for i in g))
