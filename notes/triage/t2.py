import numpy as np, warnings
warnings.filterwarnings("ignore")
from pyhms import *
from pyhms.config import *
from pyhms.tree import DemeTree
from pyhms.hms import minimize
from pyhms.demes.single_pop_eas.sea import SEA
from pyhms.core.problem import FunctionProblem, EvalCountingProblem
b=np.array([(-20.,20.),(-20.,20.)])

# C03: minimize nfev vs calls
n=[0]
def f(x):
    n[0]+=1; return float(np.sum(x**2))
for mf in (50,100,333):
    n[0]=0
    r=minimize(f,b,maxfun=mf,seed=1)
    print("maxfun",mf,"calls",n[0],"nfev",r.nfev,"nit",r.nit)

# C03: local deme nfev vs counting wrapper
n[0]=0
p=FunctionProblem(f,maximize=False,bounds=b)
cfg=[EALevelConfig(ea_class=SEA,generations=1,problem=p,pop_size=10,mutation_std=1.0,lsc=DontStop()),
     LocalOptimizationConfig(problem=p,lsc=DontStop())]
t=DemeTree(TreeConfig(cfg,MetaepochLimit(4),get_simple_sprout(1.0),options={"random_seed":3}))
t.run()
print("calls",n[0],"tree.n_evaluations",t.n_evaluations)
for lvl,d in t.all_demes:
    print(lvl,d.id,type(d).__name__,"n_evaluations",d.n_evaluations,"wrapper",d._problem.n_evaluations, "hist", [len(g) for m in d._history for g in m])
