# One-off dynamic survey of the pinned tree (triage only): C03 C04 C05 C06 C07 C08 C19 C20
import numpy as np, warnings, itertools, sys, os, tempfile, re, random
warnings.filterwarnings("ignore")
from pyhms import *
from pyhms.config import *
from pyhms.tree import DemeTree
from pyhms.demes.single_pop_eas.sea import SEA, MWEA, SEAWithCrossover, GAStyleSEA, SEAWithAdaptiveMutation
from pyhms.core.problem import FunctionProblem, EvalCountingProblem, EvalCutoffProblem
from pyhms.sprout.sprout_mechanisms import SproutMechanism
from pyhms.sprout import *
b=np.array([(-3.,7.),(-5.,2.)])
class Rec:
    def __init__(s): s.calls=[]
    def __call__(s,x):
        s.calls.append(np.array(x,dtype=float)); return float(np.sum((x-1)**2)+2*np.sin(3*x[0])*np.cos(2*x[1]))
issues=[]
def note(*a): issues.append(" ".join(map(str,a)))
def levels_for(kind,p):
    L={
     'sea':lambda lvl:EALevelConfig(ea_class=SEA,pop_size=12,problem=p,lsc=lsc(),generations=2,mutation_std=1.0/(lvl+1)),
     'de':lambda lvl:DELevelConfig(pop_size=10,problem=p,lsc=lsc(),generations=2,dither=lvl%2==0),
     'shade':lambda lvl:SHADELevelConfig(pop_size=10,problem=p,lsc=lsc(),generations=2,memory_size=4),
     'cma':lambda lvl:CMALevelConfig(problem=p,lsc=lsc(),generations=3,sigma0=None if lvl%2 else 0.5),
     'local':lambda lvl:LocalOptimizationConfig(problem=p,lsc=lsc(),maxiter=5),
     'lhs':lambda lvl:LHSLevelConfig(problem=p,lsc=lsc(),pop_size=10),
     'sobol':lambda lvl:SobolLevelConfig(problem=p,lsc=lsc(),pop_size=8),
     'mwea':lambda lvl:EALevelConfig(ea_class=MWEA,pop_size=20,problem=p,lsc=lsc(),generations=1,mutation_std=1.0,k_elites=3),
    }
    return [L[k](i) for i,k in enumerate(kind)]
lsc_kind=[0]
def lsc():
    k=lsc_kind[0]
    return [DontStop(),MetaepochLimit(3),FitnessSteadiness(0.5,2),AllChildrenStopped()][k]
class GSCSpy:
    def __init__(s,inner,rec): s.inner=inner; s.rec=rec; s.first=None; s.log=[]
    def __call__(s,tree):
        v=s.inner(tree)
        # C03 at every consult
        tot=sum(d.n_evaluations for _,d in tree.all_demes)
        if tree.n_evaluations!=tot: note("C03 tree!=sum")
        if len(s.rec.calls)!=tot: note("C03 calls",len(s.rec.calls),"!= counters",tot, [type(d).__name__ for _,d in tree.all_demes])
        # C08
        for lv in tree.levels[1:]:
            if sum(d.is_active for d in lv)>LIM[0]: note("C08 exceeded")
        if v and s.first is None: s.first=(tree.metaepoch_count,len(s.rec.calls),len(tree.all_demes),{d.id:(len(d._history),sum(len(g) for m in d._history for g in m)) for _,d in tree.all_demes if d.is_active})
        return v
    def __str__(s): return "spy"
LIM=[3]
combos=[('sea','cma'),('de','sea','cma'),('shade','local'),('lhs','de'),('sobol','cma'),('mwea','cma'),('sea','sea','local'),('de',),('sea','de','shade')]
gscs=[lambda r:MetaepochLimit(4),lambda r:SingularProblemEvalLimitReached(150),lambda r:FitnessEvalLimitReached(200,WeightingStrategy.ROOT),lambda r:AllStopped(),lambda r:RootStopped(),lambda r:NoActiveNonrootDemes(1)]
n=0
for ci,kind in enumerate(combos):
  for gi,mk in enumerate(gscs):
    for lk in range(4):
      for hib in (False,True):
        for sp in (0,1):
            if gi in (3,4,5) and lk==0: continue   # would never stop
            if hib and gi in (1,2): continue  # possible stall
            lsc_kind[0]=lk
            rec=Rec(); p=FunctionProblem(rec,maximize=False,bounds=b)
            lv=levels_for(kind,p)
            spy=GSCSpy(mk(rec),rec)
            LIM[0]=2+sp
            mech=get_NBC_sprout(level_limit=LIM[0]) if sp else get_simple_sprout(0.7,level_limit=LIM[0])
            seed=ci*100+gi*10+lk
            try:
                t=DemeTree(TreeConfig(lv,spy,mech,options={"random_seed":seed,"hibernation":hib}))
                steps=0
                prev_best=None
                while not spy(t) and steps<12:
                    t.run_step(); steps+=1
                    # C04
                    allinds=[i for _,d in t.all_demes for i in d.all_individuals]
                    bf=min(i.fitness for i in allinds)
                    if t.best_individual.fitness!=bf: note("C04 tree best",t.best_individual.fitness,bf)
                    if prev_best is not None and bf>prev_best: note("C04 worsened")
                    prev_best=bf
                    # C07
                    ids=[d.id for _,d in t.all_demes]
                    if len(set(ids))!=len(ids): note("C07 dup ids",ids)
                    for lno,d in t.all_demes:
                        if d.level!=lno: note("C07 level")
                        for c in d.children:
                            if c.level!=lno+1 or c not in t.levels[lno+1]: note("C07 child")
                            if c.started_at<d.started_at or c.started_at>t.metaepoch_count: note("C07 started_at")
                    nonroot=[d for l,d in t.all_demes if l>0]
                    for d in nonroot:
                        if sum(d in q.children for _,q in t.all_demes)!=1: note("C07 parent count")
                    # C20 quick: summary numbers
                    s=t.summary()
                    m=re.search(r"Number of evaluations: (\d+)",s)
                    if int(m.group(1))!=t.n_evaluations: note("C20 evals")
                    before=(len(rec.calls),t.n_evaluations)
                    _=t.tree(); _=t.best_individual; _=t.all_individuals; _=[d.centroid for _,d in t.all_demes]
                    if (len(rec.calls),t.n_evaluations)!=before: note("C20 accessor evaluated")
                # C05 wind-down
                if spy.first:
                    me,calls,nd,act=spy.first
                    if len(t.all_demes)!=nd: note("C05 sprouted after GSC true",kind,gi)
                    for _,d in t.all_demes:
                        if d.id in act:
                            h0,_=act[d.id]
                            # allowed: at most one more history entry
                            if len(d._history)-h0>1: note("C05 more than one further metaepoch entry",kind,type(d).__name__)
                # C06: inactive never reactivated is implied; check inactive demes have no changes: skip
                # C19 mid snapshot
                if ci%3==0 and lk==1 and not hib:
                    f=tempfile.mktemp(suffix='.pkl'); st=np.random.get_state()[1][:5].copy()
                    t.pickle_dump(f); t2=DemeTree.pickle_load(f); os.remove(f)
                    if not np.array_equal(st,np.random.get_state()[1][:5]): note("C19 rng changed by dump")
                    if t2.summary(deme_summary=True)!=t.summary(deme_summary=True): note("C19 summary differs")
                n+=1
            except Exception as e:
                note("EXC",kind,gi,lk,hib,sp,type(e).__name__,str(e)[:100])
print("runs",n)
from collections import Counter
for k,v in Counter(issues).most_common(40): print(v,k)
