"""C14 — a seeded run is exactly reproducible (RNG discipline)."""
from __future__ import annotations

import ast
import re

from ..cfg import typestate, witness_path
from ..core import INCONCLUSIVE, OK, VIOLATION, Ctx, canon, is_self_attr, local_defs
from ..effects import GEN_CTORS, classify_external
from ..model import AnalysisError, body_walk, norm

CLAIM = """Decides the RNG discipline that a reproducible seeded run needs, over every call site of pyhms (>= 40 classified sites):
(R14.1) every random draw is on numpy's or Python's global stream, or on a generator object held in an attribute whose
constructor is covered by R14.2 — no draw on an unseeded local generator; (R14.2) every generator constructor (default_rng,
RandomState, random.Random, qmc LatinHypercube/Sobol/Halton, cma.CMAEvolutionStrategy) receives a seed whose provenance is the
configured random_seed (cma: the `seed` option together with randn = numpy's global randn, on the seed-present path);
(R14.3) in DemeTree.__init__ both random.seed and numpy.random.seed, called with options['random_seed'], happen before the
first deme is built (and before any other draw) whenever a seed is present, and nothing else in pyhms reseeds a global stream
from anything but random_seed; (R14.4) both deme-construction sites forward the tree's random seed; (R14.5) entropy / clock /
identity sources (uuid, time, datetime, id, hash, os.urandom) occur only at tabled sites and the fields they define are read
nowhere that influences the search; (R14.6) nothing iterates over, or takes an order from, a set / frozenset (hash-order
dependence); (R14.7) no random state is created or drawn from at import time or in default arguments. (R14.8) nothing a run stores outlives the run: no memoised generator factory, no accumulating container or latched verdict in configuration-held objects, no class-body / module-level container written through an instance, no evaluation count that depends on the wrapped problem's state. (R14.5) is a taint analysis: inside the functions a run can reach, clock / entropy values are only stored, logged or counted. Round 5: (R14.6) also follows a set assigned to a local that reaches an iteration on some path."""
NOTE = """Determinism inside numpy, scipy.stats, scipy.stats.qmc and cma given their seeds is an external summary. Hash-order
independence of third-party code is not analysed."""
TECHNIQUE = "who-may-call classification of every RNG/entropy/clock call site (resolved callees) + seed-provenance dataflow + dominance typestate in the constructor"
EXPLANATION = """
All external callees are classified by fully qualified name (imports resolved: np.random.*, numpy.random aliases, nrand,
scipy.stats.<dist>.rvs, qmc engines, cma, random.*, uuid, time, datetime, os.urandom, secrets, id, hash). The rules then check
the stream each draw uses, the seed provenance of every generator constructor, the ordering of the two global seedings relative
to the first deme construction on every CFG path of DemeTree.__init__, and the absence of hash-order and import-time sources.
"""
ASSUMPTIONS = ["numpy/scipy/cma are deterministic functions of their seeds and of numpy's global stream", "scipy.stats.<dist>.rvs without random_state draws from numpy's global stream"]

SEED_SOURCES = ("random_seed", "_random_seed")
def _mentions_seed(e: ast.AST) -> bool:
    for x in ast.walk(e):
        if isinstance(x, ast.Attribute) and x.attr in SEED_SOURCES:
            return True
        if isinstance(x, ast.Name) and x.id in ("random_seed", "seed"):
            return True
        if isinstance(x, ast.Subscript) and isinstance(x.slice, ast.Constant) and x.slice.value == "random_seed":
            return True
        if isinstance(x, ast.Call) and isinstance(x.func, ast.Attribute) and x.func.attr == "get" and x.args and isinstance(x.args[0], ast.Constant) and x.args[0].value == "random_seed":
            return True
    return False


def _bound_to_seed(f, e: ast.AST) -> bool | None:
    """a local name: True when every binding of it in f (assignment or walrus) reads the configured seed, None when it has
    bindings this cannot read"""
    if not isinstance(e, ast.Name):
        return False
    vals = [y.value for y in ast.walk(f.node) if isinstance(y, ast.NamedExpr) and isinstance(y.target, ast.Name) and y.target.id == e.id]
    vals += [y.value for y in ast.walk(f.node) if isinstance(y, ast.Assign) and any(isinstance(t, ast.Name) and t.id == e.id for t in y.targets)]
    if not vals:
        return False
    if all(_mentions_seed(v) for v in vals):
        return True
    return None


def _tainted_nondeterministic(ctx, f, e: ast.AST) -> str | None:
    """Does the seed expression also read entropy / clock / identity?"""
    for c in ast.walk(e):
        if isinstance(c, ast.Call):
            d = ctx.prog.dotted(c.func, f.module) if isinstance(c.func, (ast.Name, ast.Attribute)) else None
            txt = d or ("builtins." + norm(c.func))
            for eff in classify_external(txt):
                if eff[0] in ("ENTROPY", "CLOCK", "RNG"):
                    return f"{eff[0]} {txt}"
            if norm(c.func) in ("id", "hash"):
                return "identity " + norm(c.func)
    return None


def _classified_sites(ctx: Ctx):
    out = []
    for f in ctx.prog.all_functions():
        for cs in ctx.res.callsites(f):
            if cs.external and isinstance(cs.node, ast.Call):
                for e in classify_external(cs.external):
                    if e[0] in ("RNG", "SEED", "GENCTOR", "ENTROPY", "CLOCK"):
                        out.append((f, cs, e))
            elif cs.unresolved and isinstance(cs.node, ast.Call) and isinstance(cs.node.func, ast.Attribute):
                # draws on an object the resolver could not type: recognise generator-like method names on locals
                pass
    return out


def r14_1(ctx: Ctx):
    """R14.1 every draw uses a global stream or a generator attribute with a seeded constructor; no unseeded local generator."""
    obs = []
    sites = _classified_sites(ctx)
    n = 0
    for f, cs, e in sites:
        if e[0] != "RNG":
            continue
        n += 1
        if e[1] in ("np-global", "py-global"):
            obs.append(ctx.ob("R14.1", f, cs.node, detail=f"draw on {e[1]} (seeded by R14.3)"))
            continue
        # generator object: must be held in an attribute (constructed once, checked by R14.2), not a fresh local
        recv = cs.node.func.value if isinstance(cs.node.func, ast.Attribute) else None
        if recv is not None and isinstance(recv, ast.Attribute):
            obs.append(ctx.ob("R14.1", f, cs.node, detail=f"draw on generator attribute `{norm(recv)}` ({e[1]})"))
        else:
            defs = local_defs(f)
            src = defs.get(recv.id, []) if isinstance(recv, ast.Name) else [recv]
            seeded = bool(src) and all(isinstance(d, ast.Call) and _ctor_seed_ok(ctx, f, d)[0] for d in src if d is not None)
            obs.append(ctx.ob("R14.1", f, cs.node, status=OK if seeded else VIOLATION, detail="draw on a local generator constructed from the random seed" if seeded else f"`{norm(cs.node)[:70]}` draws from a generator that is not seeded from random_seed: the run is not reproducible"))
    # generators created and used in one expression / unresolved receivers: default_rng().x(...)
    for f in ctx.prog.all_functions():
        for c in body_walk(f.node):
            if isinstance(c, ast.Call) and isinstance(c.func, ast.Attribute) and isinstance(c.func.value, ast.Call):
                inner = c.func.value
                d = ctx.prog.dotted(inner.func, f.module) if isinstance(inner.func, (ast.Name, ast.Attribute)) else None
                if d in GEN_CTORS:
                    ok, why = _ctor_seed_ok(ctx, f, inner)
                    n += 1
                    obs.append(ctx.ob("R14.1", f, c, status=OK if ok else VIOLATION, detail="inline generator seeded from random_seed" if ok else f"`{norm(c)[:70]}` draws from a generator constructed inline {why}"))
    if n < 30:
        raise AnalysisError(f"only {n} random draws classified (>= 36 confirmed by hand)")
    return obs


def _ctor_seed_ok(ctx, f, call: ast.Call):
    d = ctx.prog.dotted(call.func, f.module) if isinstance(call.func, (ast.Name, ast.Attribute)) else None
    if d is None or d not in GEN_CTORS:
        return False, "(not a known generator constructor)"
    if d == "random.SystemRandom":
        return False, "from the operating system's entropy pool"
    if d == "cma.CMAEvolutionStrategy":
        return _cma_seed_ok(ctx, f, call)
    seed = next((k.value for k in call.keywords if k.arg in ("seed", "random_state")), None)
    if seed is None and call.args and d.startswith(("numpy.random.", "random.")):
        seed = call.args[0]
    if seed is None:
        return False, "without a seed (fresh OS entropy on every run)"
    defs = local_defs(f)
    r = seed
    hops = 0
    while isinstance(r, ast.Name) and r.id in defs and len(defs[r.id]) == 1 and hops < 4 and not isinstance(defs[r.id][0], ast.AugAssign):
        r = defs[r.id][0]
        hops += 1
    if isinstance(r, ast.Constant) and r.value is None:
        return False, "with seed=None"
    bad = _tainted_nondeterministic(ctx, f, r)
    if bad:
        return False, f"with a seed that reads {bad}"
    if not _mentions_seed(r):
        if isinstance(r, ast.Constant):
            return False, f"with the fixed seed {r.value!r}, ignoring the configured random_seed"
        return False, f"with seed `{norm(r)}`, which does not derive from random_seed"
    return True, ""


def _cma_seed_ok(ctx, f, call: ast.Call):
    opts = next((k.value for k in call.keywords if k.arg == "inopts"), call.args[2] if len(call.args) > 2 else None)
    if opts is None:
        return False, "without options (no seed, own random stream)"
    if not isinstance(opts, ast.Name):
        return (False, "with inline options lacking seed/randn") if not (isinstance(opts, ast.Dict) and {"seed", "randn"} <= {k.value for k in opts.keys if isinstance(k, ast.Constant)}) else (True, "")
    return _opts_seed_ok(ctx, f, opts.id)


def _opts_seed_ok(ctx, f, name: str, _depth: int = 0):
    """(True | False | None, why) for the options dictionary held in local `name` of f; None = cannot follow."""
    # the dictionary may be built by a helper (`opts = self._cma_options(...)`): follow it into the helper's returned local
    call_defs = [n.value for n in body_walk(f.node) if isinstance(n, ast.Assign) and len(n.targets) == 1 and norm(n.targets[0]) == name and isinstance(n.value, ast.Call)]
    if call_defs:
        verdicts = []
        for c in call_defs:
            cs = next((c_ for c_ in ctx.res.callsites(f) if c_.node is c), None)
            tg = cs.targets if cs is not None else []
            if len(tg) != 1 or _depth > 2:
                return None, f"whose options are built by `{norm(c)[:60]}`, which is not followed"
            h = tg[0]
            rets = [r for r in body_walk(h.node) if isinstance(r, ast.Return) and r.value is not None]
            if len(rets) != 1 or not isinstance(rets[0].value, ast.Name):
                return None, f"whose options are built by `{norm(c)[:60]}`, which does not return one local dictionary"
            verdicts.append(_opts_seed_ok(ctx, h, rets[0].value.id, _depth + 1))
        bad = [v for v in verdicts if v[0] is not True]
        if bad:
            return bad[0]
        if len(call_defs) == len([n for n in body_walk(f.node) if isinstance(n, ast.Assign) and len(n.targets) == 1 and norm(n.targets[0]) == name]):
            return True, ""
    stores = {}
    guards = {}
    from ..core import parents_map

    par = parents_map(f.node)
    for n in body_walk(f.node):
        if isinstance(n, ast.Assign) and len(n.targets) == 1 and isinstance(n.targets[0], ast.Subscript) and norm(n.targets[0].value) == name and isinstance(n.targets[0].slice, ast.Constant):
            key = n.targets[0].slice.value
            stores[key] = n.value
            cur = n
            g = []
            while id(cur) in par:
                p = par[id(cur)]
                if isinstance(p, ast.If) and cur in p.body:
                    g.append(norm(p.test))
                cur = p
            guards[key] = g
        if isinstance(n, ast.Assign) and len(n.targets) == 1 and norm(n.targets[0]) == name and isinstance(n.value, ast.Dict):
            for k, v in zip(n.value.keys, n.value.values):
                if isinstance(k, ast.Constant):
                    stores.setdefault(k.value, v)
                    guards.setdefault(k.value, [])
    if "seed" not in stores:
        return False, "whose options never receive a `seed`: CMA-ES seeds itself from the clock"
    if not _mentions_seed(stores["seed"]):
        return False, f"whose `seed` option is `{norm(stores['seed'])}`, not derived from random_seed"
    bad = _tainted_nondeterministic(ctx, f, stores["seed"])
    if bad:
        return False, f"whose `seed` option reads {bad}"
    if "randn" not in stores or ctx.prog.dotted(stores["randn"], f.module) not in ("numpy.random.randn", "numpy.random.standard_normal"):
        return False, "whose `randn` option is not numpy's global randn: CMA-ES samples from its own unseeded stream"
    for key in ("seed", "randn"):
        g = guards.get(key, [])
        truthy = [t for t in g if re.fullmatch(r"[A-Za-z_][A-Za-z_0-9.]*random_seed", t)]
        if truthy:
            return False, f"whose `{key}` option is set only when `{truthy[0]}` is TRUTHY: the configured seed 0 counts as no seed and CMA-ES seeds itself from the clock"
        if any(not ("random_seed" in t and ("is not None" in t or t.endswith("random_seed"))) for t in g):
            return False, f"whose `{key}` option is set only under `{g}`"
    return True, ""


def r14_2(ctx: Ctx):
    """R14.2 every generator constructor is seeded from random_seed."""
    obs = []
    n = 0
    for f, cs, e in _classified_sites(ctx):
        if e[0] != "GENCTOR":
            continue
        n += 1
        ok, why = _ctor_seed_ok(ctx, f, cs.node)
        obs.append(ctx.ob("R14.2", f, cs.node, status=OK if ok else INCONCLUSIVE if ok is None else VIOLATION, detail=f"{e[1].split('.')[-1]} seeded from random_seed" if ok else f"{e[1].split('.')[-1]} is constructed {why}"))
    if n < 3:
        raise AnalysisError(f"only {n} generator constructors found (3 cma call sites, LHS, Sobol on the pinned tree)")
    return obs


def r14_3(ctx: Ctx):
    """R14.3 with a seed present, random.seed and numpy.random.seed (both from options['random_seed']) precede the first deme construction; nothing else reseeds."""
    f = ctx.prog.own_method("DemeTree", "__init__")
    cfg = ctx.cfg(f)
    obs = []
    seeds = {"py-global": [], "np-global": []}
    for cs in ctx.res.callsites(f):
        if cs.external and isinstance(cs.node, ast.Call):
            for e in classify_external(cs.external):
                if e[0] == "SEED":
                    seeds[e[1]].append(cs.node)

    def node_calls(n, calls):
        return n.ast is not None and any(c in calls for c in ast.walk(n.ast))

    viol = []

    def node_fn(n, s):
        present, py, np_ = s
        if node_calls(n, seeds["py-global"]):
            py = True
        if node_calls(n, seeds["np-global"]):
            np_ = True
        draws = n.ast is not None and n.kind not in ("cond",) and any(e[0] in ("RNG", "EVAL") for e in ctx.eff.stmt_effects(f, n.ast))
        if draws and present != "F" and not (py and np_):
            missing = [k for k, v in (("random.seed", py), ("numpy.random.seed", np_)) if not v]
            viol.append((n, s, f"`{n.label[:60]}` draws random numbers / builds a deme before {' and '.join(missing)} ran on a path where a seed is configured"))
        return [(present, py, np_)]

    def edge_fn(n, lab, s):
        if n.kind == "cond" and lab in (True, False) and ("random_seed" in n.label or any(isinstance(x, ast.Name) and _bound_to_seed(f, x) is True for x in ast.walk(n.ast))):
            e = n.ast
            if isinstance(e, ast.Compare) and len(e.ops) == 1:
                if isinstance(e.ops[0], (ast.In, ast.NotIn)):
                    has = lab if isinstance(e.ops[0], ast.In) else not lab
                    return s if has else ("F", s[1], s[2])
                if isinstance(e.ops[0], (ast.IsNot, ast.Is)) and isinstance(e.comparators[0], ast.Constant) and e.comparators[0].value is None:
                    notnone = lab if isinstance(e.ops[0], ast.IsNot) else not lab
                    return ("T" if notnone else "F", s[1], s[2])
            return (("T" if lab else "F"), s[1], s[2])
        return s

    at, exits, parent = typestate(cfg, [("U", False, False)], node_fn, edge_fn)
    for kind, calls in seeds.items():
        if not calls:
            obs.append(ctx.ob("R14.3", f, f.node, status=VIOLATION, detail=f"DemeTree.__init__ never seeds the {kind} stream ({'random.seed' if kind == 'py-global' else 'numpy.random.seed'} missing): draws on it depend on the prior state of the process", construct=f"seed:{kind}"))
        for c in calls:
            ok = len(c.args) == 1 and _mentions_seed(c.args[0]) and not _tainted_nondeterministic(ctx, f, c.args[0])
            if not ok and len(c.args) == 1 and not _tainted_nondeterministic(ctx, f, c.args[0]):
                b_ = _bound_to_seed(f, c.args[0])
                if b_ is True:
                    ok = True
                elif b_ is None:
                    obs.append(ctx.ob("R14.3", f, c, status=INCONCLUSIVE, detail=f"`{norm(c)}`: cannot tell whether the local it is seeded with holds the configured random_seed"))
                    continue
            obs.append(ctx.ob("R14.3", f, c, status=OK if ok else VIOLATION, detail=f"{kind} seeded with the configured random_seed" if ok else f"`{norm(c)}` does not seed with the configured random_seed"))
    seen = set()
    for n, s, msg in viol:
        if n.id in seen:
            continue
        seen.add(n.id)
        obs.append(ctx.ob("R14.3", f, n.stmt, status=VIOLATION, detail=msg, witness=witness_path(cfg, parent, n.id, s), construct="order:" + n.label[:40]))
    if not viol and all(seeds.values()):
        obs.append(ctx.ob("R14.3", f, f.node, detail="both global streams are seeded before the root deme is built on every seed-present path", construct="order"))
    # stored seed
    st = [n for n in body_walk(f.node) if isinstance(n, ast.Assign) and any(is_self_attr(t, "_random_seed", f.self_name()) for t in n.targets)]
    def seed_value(e):
        """'ok' = None or options['random_seed'] / options.get('random_seed'[, None]) (arms of a conditional: each), 'bad' = a constant / arithmetic on it, else 'unknown'"""
        if isinstance(e, ast.IfExp):
            rs = [seed_value(e.body), seed_value(e.orelse)]
            return "bad" if "bad" in rs else "unknown" if "unknown" in rs else "ok"
        if isinstance(e, ast.BoolOp):
            rs = [seed_value(v) for v in e.values]
            return "bad" if "bad" in rs else "unknown" if "unknown" in rs else "ok"
        if isinstance(e, ast.Constant):
            return "ok" if e.value is None else "bad"
        if isinstance(e, ast.Subscript) and isinstance(e.slice, ast.Constant) and e.slice.value == "random_seed":
            return "ok"
        if isinstance(e, ast.Call) and isinstance(e.func, ast.Attribute) and e.func.attr == "get" and e.args and isinstance(e.args[0], ast.Constant) and e.args[0].value == "random_seed" and (len(e.args) == 1 or (isinstance(e.args[1], ast.Constant) and e.args[1].value is None)):
            return "ok"
        if isinstance(e, ast.BinOp) and "random_seed" in norm(e):
            return "bad"
        return "unknown"

    import copy

    from ..core import _Subst

    fdefs = local_defs(f)
    vals = [seed_value(_Subst(fdefs, 3).visit(copy.deepcopy(n.value))) for n in st]
    ok = bool(st) and all(v == "ok" for v in vals)
    obs.append(ctx.ob("R14.3", f, st[0] if st else f.node, status=OK if ok else VIOLATION if (not st or "bad" in vals) else INCONCLUSIVE, detail="tree keeps options['random_seed'] (or None)" if ok else "the tree's stored random seed is not options['random_seed']", construct="stored-seed"))
    # reseeding elsewhere
    for g, cs, e in _classified_sites(ctx):
        if e[0] == "SEED" and g is not f:
            ok = cs.node.args and _mentions_seed(cs.node.args[0]) and not _tainted_nondeterministic(ctx, g, cs.node.args[0])
            # a further reseeding from the configured seed is deterministic (it may hurt the search, not reproducibility);
            # reseeding from nothing / a clock / None makes the rest of the run depend on the operating system's entropy
            arg = cs.node.args[0] if cs.node.args else None
            definite = arg is None or (isinstance(arg, ast.Constant) and arg.value is None) or bool(_tainted_nondeterministic(ctx, g, arg))
            obs.append(ctx.ob("R14.3", g, cs.node, status=OK if ok else VIOLATION if definite else INCONCLUSIVE, detail=f"`{norm(cs.node)}` reseeds a global stream from the configured seed (deterministic)" if ok else f"`{norm(cs.node)}` reseeds a global stream outside DemeTree.__init__ with a value not derived from random_seed"))
    return obs


def r14_4(ctx: Ctx):
    """R14.4 both deme-construction sites forward the tree's random seed, and init_from_config hands it on."""
    obs = []
    for meth in ("__init__", "_do_sprout"):
        f = ctx.prog.own_method("DemeTree", meth)
        calls = [c for c in body_walk(f.node) if isinstance(c, ast.Call) and norm(c.func) == "init_from_config"]
        for c in calls:
            from ..core import canon, effective_keywords

            fdefs = local_defs(f)
            v = effective_keywords(c, fdefs).get("random_seed")
            opaque = any(k.arg is None for k in c.keywords) and v is None
            vt = canon(v, fdefs) if v is not None else None
            ok = vt == f"{f.self_name()}._random_seed"
            definite = v is None or isinstance(v, ast.Constant) or (vt is not None and "random_seed" not in vt and "seed" not in vt)
            obs.append(ctx.ob("R14.4", f, c, status=OK if ok else INCONCLUSIVE if (opaque or not definite) else VIOLATION, detail="random_seed forwarded" if ok else f"init_from_config is called with random_seed={norm(v) if v is not None else '<missing>'}: demes built here seed their generators differently (or not at all)", construct=f"{meth}:random_seed"))
    g = ctx.prog.func("pyhms.demes.initialize", "init_from_config")
    dia = [c for c in body_walk(g.node) if isinstance(c, ast.Call) and norm(c.func) == "DemeInitArgs"]
    from .common import ctor_arguments

    amap = ctor_arguments(ctx, dia[0], "DemeInitArgs") if len(dia) == 1 else None
    rs = (amap or {}).get("random_seed")
    ok = rs is not None and canon(rs, local_defs(g)) == "random_seed"
    definite = len(dia) == 1 and amap is not None and (rs is None or isinstance(rs, ast.Constant) or (isinstance(rs, ast.Name) and rs.id in g.params() and rs.id != "random_seed"))
    obs.append(ctx.ob("R14.4", g, dia[0] if dia else g.node, status=OK if ok else VIOLATION if definite else INCONCLUSIVE, detail="init args carry the seed" if ok else "init_from_config drops or rewrites the random seed", construct="init-args"))
    return obs


def _run_reachable(ctx: Ctx) -> set[str]:
    """qualnames of the functions a run can execute: closure of the resolved call graph from DemeTree.__init__ / run /
    run_step / run_metaepoch / run_sprout and minimize()."""
    roots = [ctx.prog.own_method("DemeTree", n) for n in ("__init__", "run", "run_step", "run_metaepoch", "run_sprout")]
    try:
        roots.append(ctx.prog.func("pyhms.hms", "minimize"))
    except Exception:  # pragma: no cover
        pass
    seen = {r.qualname for r in roots}
    work = list(roots)
    while work:
        f = work.pop()
        for cs in ctx.res.callsites(f):
            for t in cs.targets:
                if t.qualname not in seen:
                    seen.add(t.qualname)
                    work.append(t)
    return seen


_LOG_NAMES = ("log", "info", "debug", "warning", "error", "print", "bind", "msg")
_CONTAINER_ADD = ("append", "extend", "add", "insert", "appendleft", "update")


def _taint_in_function(ctx, f, sources):
    """Follow values that come from `sources` (call nodes) inside f.  -> (fields: attr names of `self`/objects the value is
    stored in, bad: [(node, why)] flows into decisions, unknown: [(node, why)], returned: bool)."""
    from ..core import parents_map

    par = parents_map(f.node)
    tainted_names: set[str] = set()
    fields, bad, unknown = set(), [], []
    returned = False

    def is_tainted(e):
        return any(x in sources for x in ast.walk(e)) or any(isinstance(x, ast.Name) and x.id in tainted_names and isinstance(x.ctx, ast.Load) for x in ast.walk(e))

    changed = True
    rounds = 0
    while changed and rounds < 6:
        changed = False
        rounds += 1
        for n in body_walk(f.node):
            if isinstance(n, (ast.Assign, ast.AnnAssign, ast.AugAssign)) and getattr(n, "value", None) is not None and is_tainted(n.value):
                for t in (n.targets if isinstance(n, ast.Assign) else [n.target]):
                    for x in ast.walk(t):
                        if isinstance(x, ast.Name) and x.id not in tainted_names:
                            tainted_names.add(x.id)
                            changed = True
    for n in body_walk(f.node):
        if isinstance(n, (ast.Assign, ast.AnnAssign, ast.AugAssign)) and getattr(n, "value", None) is not None and is_tainted(n.value):
            for t in (n.targets if isinstance(n, ast.Assign) else [n.target]):
                if isinstance(t, ast.Attribute):
                    fields.add(t.attr)
                elif isinstance(t, ast.Subscript):
                    h = t.value
                    while isinstance(h, ast.Subscript):
                        h = h.value
                    if isinstance(h, ast.Attribute):
                        fields.add(h.attr)
        elif isinstance(n, ast.Return) and n.value is not None and is_tainted(n.value):
            returned = True
        elif isinstance(n, (ast.If, ast.While, ast.IfExp, ast.Assert)) and is_tainted(n.test):
            bad.append((n, f"`{norm(n.test)[:60]}` decides on a value read from the clock / an entropy source"))
        elif isinstance(n, ast.Compare) and is_tainted(n) and not isinstance(par.get(id(n)), (ast.If, ast.While, ast.IfExp, ast.Assert)):
            bad.append((n, f"`{norm(n)[:60]}` compares a value read from the clock / an entropy source"))
        elif isinstance(n, ast.Call) and n not in sources:
            targs = [a for a in list(n.args) + [k.value for k in n.keywords] if is_tainted(a)]
            if not targs:
                continue
            fn = norm(n.func)
            last = fn.split(".")[-1]
            if isinstance(n.func, ast.Attribute) and last in _CONTAINER_ADD and isinstance(n.func.value, ast.Attribute):
                fields.add(n.func.value.attr)
            elif any(k in last.lower() for k in _LOG_NAMES) or fn.split(".")[0] in ("logging", "logger") or (isinstance(n.func, ast.Attribute) and "logger" in norm(n.func.value).lower()):
                pass
            elif last in ("str", "repr", "format", "strftime", "isoformat", "float", "int", "round", "abs", "sub", "timedelta", "total_seconds"):
                # a pure conversion: the result is as tainted as the argument; handled when it is assigned / returned / tested
                q = par.get(id(n))
                if isinstance(q, ast.Return):
                    returned = True
            elif any(k in ("seed", "random_state") for k in [kk.arg for kk in n.keywords if is_tainted(kk.value)]) or last in ("seed", "default_rng", "RandomState", "Random"):
                bad.append((n, f"`{norm(n)[:60]}` seeds a generator from the clock / an entropy source"))
            else:
                kwn = [kk.arg for kk in n.keywords if kk.arg and is_tainted(kk.value)]
                # constructor / call storing the value under a keyword: the field of that name carries it
                if kwn and not [a for a in n.args if is_tainted(a)]:
                    fields.update(kwn)
                else:
                    unknown.append((n, f"a value read from the clock / an entropy source is handed to `{fn[:40]}`"))
    return fields, bad, unknown, returned


def _id_use(f, call, par) -> str:
    """'identity' | 'order' | 'unknown': how the value of an `id(x)` call is used"""
    EQ = (ast.Eq, ast.NotEq, ast.In, ast.NotIn, ast.Is, ast.IsNot)

    def logged(n):
        q = n
        while q is not None and not isinstance(q, ast.stmt):
            p_ = par.get(id(q))
            if isinstance(p_, ast.Call) and isinstance(p_.func, ast.Attribute) and any(k in p_.func.attr.lower() for k in _LOG_NAMES) and q is not p_.func:
                return True
            q = p_
        return False

    q = par.get(id(call))
    if isinstance(q, ast.Compare):
        return "identity" if all(isinstance(o, EQ) for o in q.ops) else "order"
    if logged(call):
        return "identity"
    # element of a set / dict-key / list built from ids: follow the container
    cont = q
    while isinstance(cont, (ast.comprehension,)):
        cont = par.get(id(cont))
    if isinstance(cont, (ast.SetComp, ast.Set, ast.DictComp, ast.ListComp, ast.List, ast.Tuple, ast.GeneratorExp)) or (isinstance(cont, ast.Call) and norm(cont.func) in ("set", "frozenset", "list", "tuple")):
        holder = par.get(id(cont))
        while isinstance(holder, ast.Call) and norm(holder.func) in ("set", "frozenset", "list", "tuple"):
            holder = par.get(id(holder))
        if isinstance(holder, ast.Compare):
            return "identity" if all(isinstance(o, EQ) for o in holder.ops) else "order"
        if isinstance(holder, ast.Assign) and len(holder.targets) == 1 and isinstance(holder.targets[0], ast.Name):
            nm = holder.targets[0].id
            uses = [x for x in body_walk(f.node) if isinstance(x, ast.Name) and x.id == nm and isinstance(x.ctx, ast.Load)]
            ok = True
            for u in uses:
                p_ = par.get(id(u))
                if isinstance(p_, ast.Compare) and u in p_.comparators and all(isinstance(o, (ast.In, ast.NotIn)) for o in p_.ops):
                    continue
                if isinstance(p_, ast.Call) and norm(p_.func) == "len":
                    continue
                if logged(u):
                    continue
                ok = False
            return "identity" if (uses and ok) else "unknown"
        return "unknown"
    if isinstance(q, ast.Call) and norm(q.func) in ("sorted", "min", "max") or (isinstance(q, ast.keyword) and q.arg == "key") or isinstance(q, (ast.BinOp,)) or (isinstance(q, ast.keyword) and q.arg in ("seed", "random_state")):
        return "order"
    if isinstance(q, ast.Lambda):
        return "order"  # a key function
    return "unknown"


def r14_5(ctx: Ctx):
    """R14.5 what is read from the clock, an entropy source or object identity never reaches a decision of a run: inside the
    functions a run can execute (call-graph closure of DemeTree.__init__ / run / minimize) such a value may only be stored in a
    field, logged or counted, and the fields that hold it are, inside a run, only copied into the same field or measured with
    len(); code outside a run (plots, statistics accessors) may do what it wants with them."""
    from ..core import parents_map

    obs = []
    reach = _run_reachable(ctx)
    sites_by_f = {}
    n_sites = 0
    for f, cs, e in _classified_sites(ctx):
        if e[0] not in ("ENTROPY", "CLOCK"):
            continue
        if e[1] in ("builtins.id", "id") or norm(getattr(cs.node, "func", cs.node)) == "id":
            continue  # object identity: judged use by use below (an identity test is deterministic, an order is not)
        n_sites += 1
        if f.qualname not in reach and not (f.parent is not None and f.parent.qualname in reach):
            obs.append(ctx.ob("R14.5", f, cs.node, detail=f"`{norm(cs.node)[:50]}` ({e[1]}) is outside every function a run executes"))
            continue
        sites_by_f.setdefault(f.qualname, (f, []))[1].append((cs.node, e))
    tainted_fields: dict[str, str] = {}
    for q, (f, lst) in sites_by_f.items():
        fields, bad, unknown, returned = _taint_in_function(ctx, f, {c for c, _ in lst})
        for fld in fields:
            tainted_fields.setdefault(fld, f.short)
        node0, e0 = lst[0]
        if bad:
            obs.append(ctx.ob("R14.5", f, bad[0][0], status=VIOLATION, detail=f"{f.short}: {bad[0][1]} ({e0[1]}): two runs of the same seeded configuration take different decisions", construct=f"{f.short}:{e0[1]}"))
        elif returned:
            # the value leaves through the return: every call site inside a run is a new source
            callers = [cs for cs in ctx.res.callers_of(f) if cs.caller.qualname in reach and isinstance(cs.node, ast.Call)]
            st, why = OK, ""
            for cs in callers:
                f2, b2, u2, r2 = _taint_in_function(ctx, cs.caller, {cs.node})
                for fld in f2:
                    tainted_fields.setdefault(fld, cs.caller.short)
                if b2:
                    st, why = VIOLATION, f"{cs.caller.short}: {b2[0][1]} (through {f.short})"
                    break
                if u2 or r2:
                    st, why = INCONCLUSIVE, f"{cs.caller.short} passes on the value {f.short} read from {e0[1]}"
            obs.append(ctx.ob("R14.5", f, node0, status=st, detail=f"{f.short} returns a value read from {e0[1]}; inside a run it is only stored / logged" if st == OK else why, construct=f"{f.short}:{e0[1]}"))
        elif unknown:
            obs.append(ctx.ob("R14.5", f, unknown[0][0], status=INCONCLUSIVE, detail=f"{f.short}: {unknown[0][1]} ({e0[1]})", construct=f"{f.short}:{e0[1]}"))
        else:
            obs.append(ctx.ob("R14.5", f, node0, detail=f"{f.short}: the value read from {e0[1]} is only stored in {sorted(fields) or 'locals'} / logged", construct=f"{f.short}:{e0[1]}"))
    for f in ctx.prog.all_functions():
        if f.name == "<module>":
            continue
        par_f = None
        for c in body_walk(f.node):
            if isinstance(c, ast.Call) and isinstance(c.func, ast.Name) and c.func.id in ("id", "hash") and c.func.id not in ctx.res.env(f):
                st_id = VIOLATION if (f.qualname in reach) else OK
                why_id = ""
                if st_id == VIOLATION and c.func.id == "id":
                    # `id(a) == id(b)`, `id(a) in ids`, a set / dict of ids that is only asked for membership, a log record: the
                    # ANSWER does not depend on the addresses. An order over ids (sorted, <, iteration over the set) does.
                    if par_f is None:
                        par_f = parents_map(f.node)
                    verdict = _id_use(f, c, par_f)
                    if verdict == "identity":
                        st_id, why_id = OK, " - used as an identity test only (the answer does not depend on the address)"
                    elif verdict == "unknown":
                        st_id = INCONCLUSIVE
                obs.append(ctx.ob("R14.5", f, c, status=st_id, detail=f"`{norm(c)[:50]}` depends on object identity / hash seed" + why_id + ("" if f.qualname in reach else " (outside every function a run executes)")))
    # readers of the fields that hold such values
    for f in ctx.prog.all_functions():
        if f.name == "<module>" or not tainted_fields:
            continue
        inside = f.qualname in reach or (f.parent is not None and f.parent.qualname in reach)
        par = None
        for a in body_walk(f.node):
            if not (isinstance(a, ast.Attribute) and isinstance(a.ctx, ast.Load) and a.attr in tainted_fields):
                continue
            bt = ctx.res.type_of(a.value, f)
            owners = [t[1].rsplit(".", 1)[-1] for t in ([] if bt is None else ([bt] if bt[0] != "union" else list(bt[1]))) if t[0] == "inst"]
            home = tainted_fields[a.attr].split(".")[0]
            if owners and home not in owners:
                continue
            if not owners and a.attr not in ("uuid", "_durations"):
                continue  # an attribute of the same name on an object of unknown type
            if not inside:
                obs.append(ctx.ob("R14.5", f, a, detail=f"{f.short} reads `{a.attr}` outside every function a run executes (statistics / reporting)"))
                continue
            if par is None:
                par = parents_map(f.node)
            q = par.get(id(a))
            ok = False
            if isinstance(q, ast.Attribute) and q.attr in _CONTAINER_ADD and isinstance(par.get(id(q)), ast.Call):
                ok = True  # the receiver of the store itself
            elif isinstance(q, ast.Call) and norm(q.func) in ("len",) and q.args and q.args[0] is a:
                ok = True  # how many there are does not depend on the clock
            elif isinstance(q, ast.keyword) and q.arg == a.attr:
                ok = True  # copied into the same field of another object
            elif isinstance(q, ast.Assign) and all(isinstance(t, ast.Attribute) and t.attr == a.attr for t in q.targets):
                ok = True
            gq = par.get(id(q)) if q is not None else None
            decides = isinstance(q, (ast.Compare, ast.If, ast.While, ast.IfExp)) or isinstance(gq, (ast.Compare,)) or (isinstance(q, ast.Call) and norm(q.func).split(".")[-1] in ("sorted", "sort", "max", "min", "seed"))
            # inside an ordering key (`key=lambda x: x.uuid.int`), a comparison or a seed a few levels up
            up, hops = q, 0
            while up is not None and hops < 6 and not decides:
                if isinstance(up, ast.Compare) or (isinstance(up, ast.Call) and norm(up.func).split(".")[-1] in ("sorted", "sort", "max", "min", "argsort", "seed", "default_rng", "RandomState")):
                    decides = True
                if isinstance(up, ast.stmt):
                    if isinstance(up, (ast.If, ast.While, ast.Assert)) and any(x is a for x in ast.walk(up.test)):
                        decides = True
                    break
                up = par.get(id(up))
                hops += 1
            obs.append(ctx.ob("R14.5", f, a, status=OK if ok else VIOLATION if decides else INCONCLUSIVE, detail=f"`{a.attr}` is only copied / counted in {f.short}" if ok else f"{f.short}, which a run executes, reads `{norm(a)}`, a field that holds a value from the clock / an entropy source" + (": it takes part in a comparison, so two runs of one seeded configuration can differ" if decides else "")))
    if n_sites < 2:
        raise AnalysisError(f"only {n_sites} clock / entropy call sites found (uuid4 in Individual, perf_counter in StatsGatheringProblem confirmed by hand)")
    return obs


def r14_6(ctx: Ctx):
    """R14.6 no iteration over / ordering taken from a set or frozenset."""
    obs = []
    n = 0
    for f in ctx.prog.all_functions():
        if f.name == "<module>":
            continue

        def is_set(e):
            if isinstance(e, (ast.Set, ast.SetComp)):
                return True
            if isinstance(e, ast.Call) and norm(e.func) in ("set", "frozenset"):
                return True
            if isinstance(e, ast.BinOp) and isinstance(e.op, (ast.BitOr, ast.BitAnd, ast.Sub, ast.BitXor)) and (is_set(e.left) or is_set(e.right)):
                return True
            t = ctx.res.type_of(e, f)
            return t is not None and t[0] == "set"

        def set_def_reaching(name: ast.Name, at_stmt):
            """an assignment `name = <set expression>` with a path to the use on which `name` is not assigned again"""
            sdefs = [y for y in body_walk(f.node) if isinstance(y, ast.Assign) and len(y.targets) == 1 and isinstance(y.targets[0], ast.Name) and y.targets[0].id == name.id and is_set(y.value)]
            if not sdefs:
                return None
            cfg = ctx.cfg(f)
            uses = [nd for nd in cfg.nodes if nd.stmt is at_stmt or nd.ast is at_stmt]
            redefs = lambda nd: nd.kind == "stmt" and isinstance(nd.ast, (ast.Assign, ast.AnnAssign, ast.AugAssign)) and any(isinstance(t_, ast.Name) and t_.id == name.id for t_ in (nd.ast.targets if isinstance(nd.ast, ast.Assign) else [nd.ast.target]))
            for y in sdefs:
                src = [nd for nd in cfg.nodes if nd.ast is y]
                for a_ in src:
                    for u in uses:
                        if any(cfg.can_reach(nx, u, avoid=lambda nd: redefs(nd) and nd is not u) or nx is u for nx, _ in a_.succ):
                            return y
            return None

        stmt_of = {}
        for st_ in body_walk(f.node):
            if isinstance(st_, ast.stmt):
                for sub in ast.walk(st_) if not isinstance(st_, (ast.For, ast.While, ast.If, ast.With, ast.Try, ast.FunctionDef)) else ([st_] + list(ast.walk(st_.iter)) if isinstance(st_, ast.For) else []):
                    stmt_of.setdefault(id(sub), st_)

        for x in body_walk(f.node):
            it = None
            if isinstance(x, (ast.For, ast.comprehension)):
                it = x.iter
            elif isinstance(x, ast.Call) and norm(x.func) in ("list", "tuple", "next", "iter", "enumerate", "zip", "max", "min") and x.args:
                it = x.args[0]
                if norm(x.func) in ("max", "min"):
                    it = None  # order-independent results
            elif isinstance(x, ast.Call) and isinstance(x.func, ast.Attribute) and x.func.attr == "pop" and not x.args:
                if is_set(x.func.value):
                    n += 1
                    obs.append(ctx.ob("R14.6", f, x, status=VIOLATION, detail=f"`{norm(x)[:60]}` pops an arbitrary element of a set (hash-order dependent)"))
                continue
            if it is not None and isinstance(it, ast.Name) and not is_set(it):
                host = x if isinstance(x, ast.For) else stmt_of.get(id(it))
                y = set_def_reaching(it, host) if host is not None else None
                if y is not None:
                    n += 1
                    obs.append(ctx.ob("R14.6", f, x if not isinstance(x, ast.comprehension) else it, status=VIOLATION, detail=f"`{it.id}` may hold the set `{norm(y.value)[:60]}` (line {y.lineno}) when it is iterated: the order of a set of objects depends on their addresses / PYTHONHASHSEED, so the order of the steps - and of the random draws they make - is not reproducible from the seed"))
                continue
            if it is not None and is_set(it):
                n += 1
                obs.append(ctx.ob("R14.6", f, x if not isinstance(x, ast.comprehension) else it, status=VIOLATION, detail=f"iteration order of the set `{norm(it)[:60]}` depends on hashing (PYTHONHASHSEED / object addresses): results are not reproducible across processes"))
    obs.append(ctx.ob("R14.6", None, None, subject="pyhms", loc="-", detail=f"no iteration over sets ({n} flagged)", construct="sets", trivial=True))
    return obs


def r14_7(ctx: Ctx):
    """R14.7 no random state is created or drawn at import time or in default arguments."""
    obs = []
    for m in ctx.prog.modules.values():
        mf = ctx.prog.module_func(m)
        bad = []
        for cs in ctx.res.callsites(mf):
            if cs.external and isinstance(cs.node, ast.Call):
                for e in classify_external(cs.external):
                    if e[0] in ("RNG", "GENCTOR", "SEED", "ENTROPY", "CLOCK"):
                        bad.append((cs, e))
        for cs, e in bad:
            obs.append(ctx.ob("R14.7", mf, cs.node, status=VIOLATION, detail=f"`{norm(cs.node)[:60]}` runs at import time / as a default argument ({e[0]} {e[1]}): shared, process-dependent random state"))
    obs.append(ctx.ob("R14.7", None, None, subject="pyhms", loc="-", detail=f"{len(ctx.prog.modules)} modules: no RNG / entropy / clock call at import time or in default arguments", construct="import-time", trivial=True))
    return obs


_CONFIG_HELD_MODULES = ("pyhms.stop_conditions", "pyhms.sprout")
_MUT_METHODS = ("append", "extend", "insert", "add", "update", "setdefault", "pop", "popitem", "remove", "clear", "discard", "appendleft")


def r14_8(ctx: Ctx):
    """R14.8 nothing a run stores outlives the run: (a) no memoised factory (lru_cache / cache) hands out a stateful generator
    or sampler object - the second tree of the process would continue the first tree's sequence; (b) the objects a
    configuration holds and every run made with it shares (stop conditions, sprout generators / filters) do not accumulate
    state in containers: what the first run stored decides the second; (c) evaluation counters are advanced by every
    forwarded evaluation, whatever a cache filled by an earlier run answers (R03.1)."""
    from . import c03

    obs = []
    # (a) memoised factories of stateful objects
    n_funcs = 0
    for f in ctx.prog.all_functions():
        if f.name == "<module>":
            continue
        n_funcs += 1
        decos = [norm(d.func) if isinstance(d, ast.Call) else norm(d) for d in getattr(f.node, "decorator_list", [])]
        memo = [d for d in decos if d.split(".")[-1] in ("lru_cache", "cache", "cached_property")]
        if not memo or memo[0].endswith("cached_property"):
            continue
        stateful = None
        for r in body_walk(f.node):
            if isinstance(r, ast.Return) and r.value is not None:
                for c in ast.walk(r.value):
                    if isinstance(c, ast.Call):
                        d = ctx.prog.dotted(c.func, f.module) if isinstance(c.func, (ast.Name, ast.Attribute)) else None
                        if d and any(e[0] == "GENCTOR" for e in classify_external(d)):
                            stateful = (c, d)
        if stateful is not None:
            obs.append(ctx.ob("R14.8", f, stateful[0], status=VIOLATION, detail=f"{f.short} is memoised (`@{memo[0]}`) and returns a generator / sampler object (`{stateful[1]}`): the object is stateful, so a later tree with the same arguments gets the SAME object and continues the sequence where the previous tree left it - the run depends on what ran before in the process", construct=f"memo:{f.short}"))
        else:
            obs.append(ctx.ob("R14.8", f, f.node, detail=f"{f.short} is memoised but returns no generator / sampler object", construct=f"memo:{f.short}"))
    # (b) accumulating containers in configuration-held objects
    n_cls = 0
    for ci in ctx.prog.classes.values():
        if not ci.module.name.startswith(_CONFIG_HELD_MODULES):
            continue
        n_cls += 1
        init = ci.methods.get("__init__")
        containers = {}
        if init is not None:
            isn = init.self_name()
            for y in body_walk(init.node):
                if isinstance(y, (ast.Assign, ast.AnnAssign)) and getattr(y, "value", None) is not None:
                    v = y.value
                    empty = (isinstance(v, (ast.Dict, ast.List, ast.Set)) and not (getattr(v, "keys", None) or getattr(v, "elts", None))) or (isinstance(v, ast.Call) and norm(v.func).split(".")[-1] in ("dict", "list", "set", "defaultdict", "deque", "OrderedDict", "Counter") and not [a for a in v.args if not isinstance(a, (ast.Name, ast.Attribute, ast.Lambda))])
                    if empty:
                        for t in (y.targets if isinstance(y, ast.Assign) else [y.target]):
                            if is_self_attr(t, None, isn):
                                containers[t.attr] = y
        for attr, st in ci.class_attrs.items() if hasattr(ci, "class_attrs") else []:
            v = getattr(st, "value", None)
            if isinstance(v, (ast.Dict, ast.List, ast.Set)) and not (getattr(v, "keys", None) or getattr(v, "elts", None)):
                containers.setdefault(attr, st)
        hit = None
        hit_alias = {}
        for m in ci.methods.values():
            if m.name == "__init__":
                continue
            sn = m.self_name()
            if sn is None:
                continue
            alias = {}
            for y in body_walk(m.node):
                if isinstance(y, ast.Assign) and len(y.targets) == 1 and isinstance(y.targets[0], ast.Name):
                    v = y.value
                    base = None
                    if isinstance(v, ast.Call) and isinstance(v.func, ast.Attribute) and v.func.attr in ("setdefault", "get") and is_self_attr(v.func.value, None, sn):
                        base = v.func.value.attr
                    elif isinstance(v, ast.Subscript) and is_self_attr(v.value, None, sn):
                        base = v.value.attr
                    elif is_self_attr(v, None, sn):
                        base = v.attr
                    if base in containers:
                        alias[y.targets[0].id] = base
            for x in body_walk(m.node):
                tgt = None
                if isinstance(x, ast.Call) and isinstance(x.func, ast.Attribute) and x.func.attr in _MUT_METHODS:
                    tgt = x.func.value
                elif isinstance(x, (ast.Assign, ast.AugAssign)):
                    for t in (x.targets if isinstance(x, ast.Assign) else [x.target]):
                        if isinstance(t, ast.Subscript):
                            tgt = t.value
                        elif isinstance(x, ast.AugAssign) and is_self_attr(t, None, sn) and t.attr in containers:
                            tgt = t
                if tgt is None:
                    continue
                while isinstance(tgt, ast.Subscript):
                    tgt = tgt.value
                a = tgt.attr if is_self_attr(tgt, None, sn) else alias.get(tgt.id) if isinstance(tgt, ast.Name) else None
                if a in containers and hit is None:
                    hit = (m, x, a)
                    hit_alias = dict(alias)
        if hit is not None:
            # a container that is only ever added to is a log; it matters when the class also READS it (to decide / return)
            m, x, a = hit
            reads = 0
            for m2 in ci.methods.values():
                sn2 = m2.self_name()
                if sn2 is None or m2.name == "__init__":
                    continue
                if (getattr(m2, "is_property", False) or m2.name in ("__repr__", "__str__", "__len__")) and not any(
                    isinstance(z, ast.Attribute) and z.attr == m2.name and not (g2 is m2) for g2 in ctx.prog.all_functions() if g2.name != "<module>" and not g2.name.startswith(("plot_", "animate")) and not g2.module.name.startswith("pyhms.utils.visualisation") for z in body_walk(g2.node)
                ):
                    continue  # a read-only view for the user (nothing in pyhms outside the plots consults it): still a log
                par = None
                names = {a_ for a_, b_ in hit_alias.items() if b_ == a} if m2 is m else set()
                from ..core import parents_map

                par = parents_map(m2.node)
                for y in body_walk(m2.node):
                    is_ref = (is_self_attr(y, a, sn2) and isinstance(y.ctx, ast.Load)) or (isinstance(y, ast.Name) and y.id in names and isinstance(y.ctx, ast.Load))
                    if not is_ref:
                        continue
                    q = par.get(id(y))
                    # receiver of a mutating call / target of a store / right side of the alias definition: not a read
                    if isinstance(q, ast.Attribute) and q.attr in _MUT_METHODS + ("get",) and isinstance(par.get(id(q)), ast.Call) and par.get(id(q)).func is q:
                        gp = par.get(id(par.get(id(q))))
                        if isinstance(gp, ast.Expr) or (isinstance(gp, ast.Assign) and q.attr in ("setdefault", "get")):
                            continue
                    if isinstance(q, ast.Subscript) and isinstance(q.ctx, ast.Store):
                        continue
                    if isinstance(q, ast.Assign) and q.value is y:
                        continue
                    reads += 1
            if reads == 0:
                obs.append(ctx.ob("R14.8", m, x, detail=f"{ci.name}.{a} is a log: {m.short} adds to it and nothing in the class reads it back", construct=f"{ci.name}.{a}:log"))
                hit = None
        if hit is not None:
            m, x, a = hit
            obs.append(ctx.ob("R14.8", m, x, status=VIOLATION, detail=f"{ci.name}.{a} starts empty and {m.short} adds to it (`{norm(x)[:70]}`): the object belongs to the configuration and is shared by every run made with it, so what one run stored (per deme id, per call) is still there for the next run with the same seed, which then decides differently", construct=f"{ci.name}.{a}:accumulates"))
        elif containers and not any(o.construct == f"{ci.name}.{a_}:log" for o in obs for a_ in containers):
            obs.append(ctx.ob("R14.8", ci, ci.node, detail=f"{ci.name}: container attribute(s) {sorted(containers)} are never added to after construction", construct=f"{ci.name}:containers"))
    if n_cls < 15:
        raise AnalysisError(f"only {n_cls} stop-condition / sprout classes scanned")
    obs.append(ctx.ob("R14.8", None, None, subject="pyhms", loc="-", detail=f"{n_funcs} functions scanned for memoised generator factories, {n_cls} configuration-held classes for accumulating containers", construct="scan"))
    # (b+) a stop condition that keeps its verdict in the condition object answers the next run from the previous one
    from .c05 import latched_verdicts

    for o in latched_verdicts(ctx, "R14.8"):
        if o.status != OK:
            obs.append(o)
    # (b'') containers defined in a class body (or a mutable default argument) and written through `self`: one object for every
    # instance of the process - what the first tree counted, the second tree continues
    from .c02 import r02_11

    for o in r02_11(ctx, every_module=True):
        if o.status != OK:
            o.rule = "R14.8"
            o.detail = o.detail.split(" (values stored")[0] + ": the state of an earlier tree in the process leaks into the next run with the same seed"
            obs.append(o)
    # (b') module-level containers kept by reference and written through an instance
    from .c02 import shared_module_state

    obs.extend(shared_module_state(ctx, "R14.8"))
    # (c) whether an evaluation is counted must not depend on state of the WRAPPED problem object: that object belongs to
    # the configuration and survives from run to run (a cache filled by the first run answers the second), so such a count
    # differs between two runs of the same seed. (A count that is merely wrong in a fixed way is C03 / C16's concern.)
    base = ctx.prog.cls("ProblemWrapper")
    n_w = 0
    for ci in ctx.prog.classes.values():
        if not (ci is base or ctx.prog.is_subclass(ci, base)):
            continue
        m = ci.methods.get("evaluate")
        if m is None:
            continue
        n_w += 1
        sn = m.self_name()
        inner_props = set()
        for c2 in ctx.prog.mro(ci):
            for pm in c2.methods.values():
                if "property" in " ".join(getattr(c2, "decorators_of", lambda _n: [])(pm.name)) or any(norm(d) == "property" for d in getattr(pm.node, "decorator_list", [])):
                    if any((isinstance(x, ast.Attribute) and x.attr == "_inner") for x in ast.walk(pm.node)) and pm.name not in ("maximize", "bounds"):
                        inner_props.add(pm.name)
        hit = None
        for x in body_walk(m.node):
            if not isinstance(x, ast.If):
                continue
            def incs(stmts):
                return [y for b in stmts for y in ast.walk(b) if isinstance(y, ast.AugAssign) and is_self_attr(y.target, None, sn) and ("eval" in y.target.attr or "count" in y.target.attr)]
            if bool(incs(x.body)) == bool(incs(x.orelse)):
                continue
            for a in ast.walk(x.test):
                if isinstance(a, ast.Attribute) and isinstance(a.ctx, ast.Load):
                    if (is_self_attr(a, None, sn) and a.attr in inner_props) or (isinstance(a.value, ast.Attribute) and a.value.attr == "_inner" and a.attr not in ("maximize", "bounds")):
                        hit = hit or (x, a)
                if isinstance(a, ast.Call) and norm(a.func) == "getattr" and a.args and isinstance(a.args[0], ast.Attribute) and a.args[0].attr == "_inner":
                    hit = hit or (x, a)
        if hit is not None:
            obs.append(ctx.ob("R14.8", m, hit[0], status=VIOLATION, detail=f"{m.short}: whether the evaluation is counted depends on `{norm(hit[1])}`, i.e. on state of the wrapped problem object; that object is part of the configuration and outlives the run (e.g. a cache filled by an earlier run), so evaluation counts - and every budget condition reading them - differ between two runs with the same seed", construct=f"{m.short}:count-depends-on-inner"))
        else:
            obs.append(ctx.ob("R14.8", m, m.node, detail=f"{m.short}: no counter increment is conditional on the wrapped problem's state", construct=f"{m.short}:count-depends-on-inner"))
    if n_w < 3:
        raise AnalysisError(f"only {n_w} wrapper evaluate methods scanned")
    return obs


RULES = [
    ("R14.1", r14_1, 30),
    ("R14.2", r14_2, 3),
    ("R14.3", r14_3, 4),
    ("R14.4", r14_4, 3),
    ("R14.5", r14_5, 4),
    ("R14.6", r14_6, 1),
    ("R14.7", r14_7, 1),
    ("R14.8", r14_8, 4),
]
