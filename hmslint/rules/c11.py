"""C11 — each generation is bred from the generation immediately before it."""
from __future__ import annotations

import ast

from ..core import INCONCLUSIVE, OK, VIOLATION, Ctx, canon, is_self_attr, local_defs
from ..model import AnalysisError, body_walk, norm
from .common import is_history_append, node_has_effect

CLAIM = """Decides the loop-carried-dependence clause, which is the property itself at the level of the deme code: in every
population engine's generation loop the parents handed to the engine step (SEA/DE/SHADE `run`, CMA-ES `tell`) are, on every
path around the loop, redefined from the step's own result of the previous iteration (or read state that the loop body
rewrites from it); their loop-entry value is the deme's current population; and the generations recorded for the metaepoch
are exactly the step results. A loop-invariant parent argument (the pinned defect) is reported with its read and write sets. (R11.6) only the deme itself records generations; a population kept in an attribute between metaepochs is the last recorded generation at every exit; on every path the operator applied last before evaluate() resets the fitness of changed rows. (R11.7) selection sources and the exactness of NumpyCache keys. A foreign append of the current population itself is not a C11 violation (every individual of it belonged to the preceding generation); a single point handed to the objective inside a comprehension is not a parent argument."""
NOTE = """That the engine step itself derives every offspring from the parents it is given is C02/C12's concern (operator
pipelines); cma's ask/tell chain is an external summary."""
TECHNIQUE = "def-use / loop-carried dependence analysis on per-function CFGs (ast), engine steps discovered through effect summaries"
EXPLANATION = """
For every concrete population deme (>= 4: EA, DE, SHADE, CMA) the generation loop of run_metaepoch is located through the
statement that has an objective-evaluation effect inside a loop. Parent-consuming calls are the engine step calls on engine
attributes (`self._X.run(P, ..)`) and cma's `tell(G, V)`. R11.1: every parent argument must be re-defined on every CFG path
from the step back to the loop head from a value derived (by def-use inside the loop body) from the step's result; an
argument that only reads `self` state which the loop body never writes on back-edge paths is loop-invariant -> violation.
R11.2: the definition reaching the loop from outside derives from self.current_population. R11.3: what is appended to the
per-metaepoch list that goes into the history is the step result.
"""
ASSUMPTIONS = ["cma.CMAEvolutionStrategy.ask() samples from the distribution updated by the last tell() (external summary)"]


def _engines(ctx: Ctx):
    """(deme class, run_metaepoch, loop, step node, consumer calls, result names)."""
    out = []
    for ci in ctx.concrete_demes():
        f = __import__("hmslint.rules.common", fromlist=["step_method"]).step_method(ctx, ci)
        cfg = ctx.cfg(f)
        eval_nodes = [n for n in cfg.nodes if node_has_effect(ctx, f, n, "EVAL")]
        in_loop = [(n, cfg.loop_of(n)) for n in eval_nodes if cfg.loop_of(n) is not None]
        if not in_loop:
            continue  # single-shot sampler / local search: no generation loop inside the metaepoch
        out.append((ci, f, cfg, in_loop))
    return out


def _names(e: ast.AST) -> set[str]:
    return {n.id for n in ast.walk(e) if isinstance(n, ast.Name)}


def _targets(stmt: ast.AST) -> set[str]:
    out = set()
    tg = []
    if isinstance(stmt, ast.Assign):
        tg = stmt.targets
    elif isinstance(stmt, (ast.AugAssign, ast.AnnAssign)):
        tg = [stmt.target]
    for t in tg:
        for n in ast.walk(t):
            if isinstance(n, ast.Name) and isinstance(n.ctx, ast.Store):
                out.add(n.id)
    for n in ast.walk(stmt):
        if isinstance(n, ast.NamedExpr) and isinstance(n.target, ast.Name):
            out.add(n.target.id)
    return out


def _loop_body_nodes(cfg, L):
    return [cfg.nodes[i] for i in sorted(L["body_ids"]) if cfg.nodes[i].ast is not None and cfg.nodes[i] is not L["head"]]


def _free_locals(e: ast.AST, selfn: str) -> set[str]:
    """Local names an expression reads, without comprehension / lambda variables and the receiver."""
    bound = set()
    for x in ast.walk(e):
        if isinstance(x, ast.comprehension):
            bound |= {y.id for y in ast.walk(x.target) if isinstance(y, ast.Name)}
        if isinstance(x, ast.Lambda):
            bound |= {a.arg for a in x.args.args}
    return {x.id for x in ast.walk(e) if isinstance(x, ast.Name) and isinstance(x.ctx, ast.Load)} - bound - {selfn}


def _reads_self_state(e: ast.AST, selfn: str) -> list[str]:
    out = []
    for n in ast.walk(e):
        if isinstance(n, ast.Attribute) and isinstance(n.value, ast.Name) and n.value.id == selfn:
            out.append(n.attr)
    return out


def analyse_engine(ctx: Ctx, ci, f, cfg, in_loop):
    selfn = f.self_name()
    obs = []
    step_node, L = in_loop[0]
    body = _loop_body_nodes(cfg, L)
    # results of the step: targets of the evaluating statement and names it evaluates in place
    results = set()
    for n, _ in in_loop:
        results |= _targets(n.ast)
        if not _targets(n.ast):
            # an expression statement that evaluates a population in place: evaluate_population(offspring)
            for c in ast.walk(n.ast):
                if isinstance(c, ast.Call):
                    for a in c.args:
                        if isinstance(a, ast.Name):
                            results.add(a.id)
    # closure of "derived from the step result" inside the loop body
    derived = set(results)
    changed = True
    while changed:
        changed = False
        for n in body:
            t = _targets(n.ast)
            if t and isinstance(n.ast, (ast.Assign, ast.AnnAssign, ast.AugAssign)) and n.ast.value is not None and (_names(n.ast.value) & derived):
                if not t <= derived:
                    derived |= t
                    changed = True
    # consumer calls
    consumers = []
    for n in body:
        for c in ast.walk(n.ast):
            if not (isinstance(c, ast.Call) and isinstance(c.func, ast.Attribute)):
                continue
            recv = c.func.value
            if isinstance(recv, ast.Name) and recv.id == selfn and c.args and c.func.attr != "log":
                # a hook of the deme itself that breeds the next generation from its argument (`self._next_generation(parents)`)
                if n in [x for x, _ in in_loop] and any(cs.node is c and any(ctx.eff.has(t, "EVAL") for t in cs.targets) for cs in ctx.res.callsites(f)):
                    consumers.append((n, c, [c.args[0]]))
                continue
            if not (isinstance(recv, ast.Attribute) and isinstance(recv.value, ast.Name) and recv.value.id == selfn):
                continue
            rt = ctx.res.type_of(recv, f)
            is_ext_engine = rt is not None and rt[0] == "ext" and c.func.attr == "tell"
            is_step = n in [x for x, _ in in_loop] and c.func.attr != "append" and any(cs.node is c and any(ctx.eff.has(t, "EVAL") for t in cs.targets) for cs in ctx.res.callsites(f))
            if is_ext_engine:
                consumers.append((n, c, list(c.args)))
            elif is_step and c.args:
                if isinstance(c.args[0], ast.Name) and c.args[0].id not in _free_locals(n.ast, selfn):
                    continue  # a comprehension variable: one point handed to the objective, not the parents of a generation
                consumers.append((n, c, [c.args[0]]))
    if not consumers:
        obs.append(ctx.ob("R11.1", f, step_node.stmt, status=INCONCLUSIVE, detail=f"{ci.name}: no parent-consuming engine call recognised in the generation loop", construct=step_node.label))
        return obs
    head = L["head"]
    defs_all = local_defs(f)
    step_nodes = [x for x, _ in in_loop]
    inplace = set()
    for x in step_nodes:
        if not _targets(x.ast):
            inplace |= {a.id for c in ast.walk(x.ast) if isinstance(c, ast.Call) for a in c.args if isinstance(a, ast.Name)}

    def good_assign(b, nm):
        """The assignment makes `nm` this generation's population: its value derives from the step's result, or it builds the
        very object the step then evaluates in place (`pop = [Individual(..) for .. in ask()]; evaluate_population(pop)`)."""
        if not (isinstance(b.ast, (ast.Assign, ast.AnnAssign)) and b.ast.value is not None):
            return False
        if _names(b.ast.value) & derived:
            return True
        # `genomes = list(engine.ask()); pop = [Individual(g) for g in genomes]; evaluate_population(pop)`: nm holds this
        # generation's sampled genomes, the very objects the evaluated population is built from
        if any(isinstance(c_, ast.Call) and isinstance(c_.func, ast.Attribute) and c_.func.attr == "ask" for c_ in ast.walk(b.ast.value)):
            for x in body:
                if isinstance(x.ast, (ast.Assign, ast.AnnAssign)) and x.ast.value is not None and (_targets(x.ast) & inplace) and nm in _names(x.ast.value) and cfg.find_path(b, x, avoid=lambda y: y is not b and nm in _targets(y.ast)) is not None:
                    return True
        if nm in inplace:
            others = [x for x in body if x is not b and nm in _targets(x.ast)]
            return any(cfg.find_path(b, x, avoid=lambda y: y in others) is not None for x in step_nodes if not _targets(x.ast) and nm in {a.id for c in ast.walk(x.ast) if isinstance(c, ast.Call) for a in c.args if isinstance(a, ast.Name)})
        return False
    for n, call, pargs in consumers:
        for p in pargs:
            label = f"{norm(call.func)}({norm(p)})"
            if isinstance(p, ast.Name):
                assigns = [b for b in body if p.id in _targets(b.ast)]
                good = [b for b in assigns if good_assign(b, p.id)]
                bad_assigns = [b for b in assigns if b not in good]
                if not assigns:
                    obs.append(ctx.ob("R11.1", f, call, status=VIOLATION, detail=f"{ci.name}: parent argument `{p.id}` of {norm(call.func)} is loop-invariant: it is never reassigned inside the generation loop, so every generation is bred from the same population", witness=[f"results of the step: {sorted(results)}", f"names derived from them in the loop: {sorted(derived)}"], construct=label))
                    continue
                if not good:
                    obs.append(ctx.ob("R11.1", f, assigns[0].stmt, status=VIOLATION, detail=f"{ci.name}: `{p.id}` is reassigned in the loop but not from the step's result ({sorted(results)}): `{assigns[0].label}`", construct=label))
                    continue
                # every path from the consumer back to the loop head passes a good assignment
                leak = None if n in good else cfg.find_path(n, n, avoid=lambda x: x in good)
                # paths that leave the loop (return) never come back: only back-edge paths matter, find_path to head covers them
                if leak is not None:
                    obs.append(ctx.ob("R11.1", f, call, status=VIOLATION, detail=f"{ci.name}: on some path around the loop `{p.id}` is not updated from the previous generation", witness=[f"L{x.lineno}: {x.label[:70]}" for x in leak], construct=label))
                    continue
                if bad_assigns:
                    obs.append(ctx.ob("R11.1", f, bad_assigns[0].stmt, status=VIOLATION, detail=f"{ci.name}: `{p.id}` is also assigned from something other than the previous generation: `{bad_assigns[0].label}`", construct=label))
                    continue
                obs.append(ctx.ob("R11.1", f, call, detail=f"{ci.name}: `{p.id}` is loop-carried from the step result on every back-edge path", construct=label))
                # R11.2 entry value
                outside = [d for d in defs_all.get(p.id, []) if not any(d is getattr(b.ast, "value", None) for b in body)]
                import copy

                from ..core import _Subst

                outside_r = [_Subst({k: v for k, v in defs_all.items() if k != p.id}, 3).visit(copy.deepcopy(d)) for d in outside]
                ok_entry = bool(outside) and all(any(is_self_attr(x, "current_population", selfn) for x in ast.walk(d)) for d in outside_r)
                definite = bool(outside) and any(any(is_self_attr(x, None, selfn) and x.attr in ("_history", "history", "all_individuals", "_sprout_seed", "best_individual") for x in ast.walk(d)) for d in outside_r)
                cache_verdict = None
                if not ok_entry and not definite and len(outside_r) == 1 and is_self_attr(outside_r[0], None, selfn):
                    # the population to breed from is kept in an attribute between metaepochs: it must be the last recorded
                    # generation at EVERY exit that recorded generations (typestate: attribute == carrier?)
                    cache_verdict = _kept_population_consistent(ctx, f, cfg, selfn, outside_r[0].attr, p.id)
                if cache_verdict is not None:
                    obs.append(ctx.ob("R11.2", f, cache_verdict[2] if cache_verdict[2] is not None else call, status=cache_verdict[0], detail=cache_verdict[1], construct=label + ":entry"))
                else:
                    obs.append(ctx.ob("R11.2", f, call, status=OK if ok_entry else VIOLATION if definite else INCONCLUSIVE, detail=f"loop-entry value of `{p.id}` derives from self.current_population" if ok_entry else f"{ci.name}: the first generation of a metaepoch is not bred from the deme's current population (`{p.id}` = {[norm(d) for d in outside]})", construct=label + ":entry"))
            elif isinstance(p, ast.Subscript) and isinstance(p.value, ast.Name) and norm(p.slice) == "-1" and any(isinstance(x, ast.Call) and isinstance(x.func, ast.Attribute) and x.func.attr == "append" and norm(x.func.value) == p.value.id for b in body for x in ast.walk(b.ast)):
                # the generations are chained in a local list: parents = L[-1], and the step's result is appended to L
                L_ = p.value.id
                step_calls = {id(c2) for _, c2, _ in consumers}

                def feeds(b):
                    for x in ast.walk(b.ast):
                        if isinstance(x, ast.Call) and isinstance(x.func, ast.Attribute) and x.func.attr == "append" and norm(x.func.value) == L_ and len(x.args) == 1:
                            a0 = x.args[0]
                            if any(id(y) in step_calls for y in ast.walk(a0)) or (_names(a0) & derived):
                                return True
                    return False

                good = [b for b in body if feeds(b)]
                other_mut = [b for b in body if b not in good and any((isinstance(x, ast.Call) and isinstance(x.func, ast.Attribute) and norm(x.func.value) == L_ and x.func.attr in ("append", "extend", "insert", "pop", "remove", "clear", "reverse", "sort", "__setitem__")) for x in ast.walk(b.ast)) or L_ in _targets(b.ast) or any(isinstance(x, ast.Subscript) and isinstance(x.ctx, (ast.Store, ast.Del)) and norm(x.value) == L_ for x in ast.walk(b.ast))]
                leak = None if (n in good or not good) else cfg.find_path(n, n, avoid=lambda x: x in good)
                if not good:
                    obs.append(ctx.ob("R11.1", f, call, status=INCONCLUSIVE, detail=f"{ci.name}: cannot see the step's result being appended to `{L_}`", construct=label))
                elif other_mut:
                    obs.append(ctx.ob("R11.1", f, other_mut[0].stmt, status=INCONCLUSIVE, detail=f"{ci.name}: `{L_}` is also changed by `{other_mut[0].label[:60]}`", construct=label))
                elif leak is not None:
                    obs.append(ctx.ob("R11.1", f, call, status=VIOLATION, detail=f"{ci.name}: on some path around the loop the step's result is not appended to `{L_}`, so `{norm(p)}` is still the previous generation's parents", witness=[f"L{x.lineno}: {x.label[:70]}" for x in leak], construct=label))
                else:
                    obs.append(ctx.ob("R11.1", f, call, detail=f"{ci.name}: parents `{norm(p)}` are the last element of `{L_}`, to which every generation is appended", construct=label))
                    outside = [d_ for d_ in defs_all.get(L_, [])]
                    ok_entry = len(outside) == 1 and isinstance(outside[0], ast.List) and outside[0].elts and any(is_self_attr(x, "current_population", selfn) for x in ast.walk(outside[0].elts[-1]))
                    obs.append(ctx.ob("R11.2", f, call, status=OK if ok_entry else INCONCLUSIVE, detail=f"loop-entry value of `{norm(p)}` is self.current_population" if ok_entry else f"{ci.name}: cannot tell what `{norm(p)}` is when the loop is entered ({[norm(d_)[:50] for d_ in outside]})", construct=label + ":entry"))
            elif _free_locals(p, selfn) & {t for b in body for t in _targets(b.ast)}:
                # an expression over locals, some of which are assigned in the loop: the ones assigned there must be loop-carried
                # from the step result on every back-edge path (names never assigned in the loop are constants of the metaepoch)
                verdicts = []
                for nm in sorted(_free_locals(p, selfn)):
                    assigns = [b for b in body if nm in _targets(b.ast)]
                    if not assigns:
                        continue
                    loop_assigned = {t for b in body for t in _targets(b.ast)}
                    if all(isinstance(b.ast, (ast.Assign, ast.AnnAssign)) and b.ast.value is not None and not any(isinstance(x, ast.Call) for x in ast.walk(b.ast.value)) and not (_free_locals(b.ast.value, selfn) & loop_assigned) for b in assigns):
                        continue  # recomputed in every iteration from loop-invariant state: a constant of the metaepoch
                    good = [b for b in assigns if good_assign(b, nm)]
                    if not good and all(isinstance(b.ast, ast.AugAssign) and isinstance(b.ast.value, ast.Constant) and isinstance(b.ast.value.value, int) for b in assigns):
                        # a loop counter used as an index into the list of generations: which generation `...[i - 1]` is, is a
                        # question about values this rule does not answer
                        verdicts.append((INCONCLUSIVE, f"the parents are picked by the loop index `{nm}` (`{norm(p)[:70]}`): not followed"))
                        continue
                    if not good:
                        verdicts.append((VIOLATION, f"`{nm}` is reassigned in the loop but not from the step's result ({sorted(results)}): `{assigns[0].label}`"))
                        continue
                    leak = None if n in good else cfg.find_path(n, n, avoid=lambda x: x in good)
                    if leak is not None:
                        verdicts.append((VIOLATION, f"on some path around the loop `{nm}` is not updated from the previous generation"))
                    elif [b for b in assigns if b not in good]:
                        verdicts.append((VIOLATION, f"`{nm}` is also assigned from something other than the previous generation"))
                    else:
                        verdicts.append((OK, f"`{nm}` is loop-carried from the step result on every back-edge path"))
                bad_v = [v for v in verdicts if v[0] == VIOLATION]
                und_v = [v for v in verdicts if v[0] == INCONCLUSIVE]
                if bad_v:
                    obs.append(ctx.ob("R11.1", f, call, status=VIOLATION, detail=f"{ci.name}: {bad_v[0][1]}", construct=label))
                elif und_v:
                    obs.append(ctx.ob("R11.1", f, call, status=INCONCLUSIVE, detail=f"{ci.name}: {und_v[0][1]}", construct=label))
                else:
                    obs.append(ctx.ob("R11.1", f, call, detail=f"{ci.name}: parent expression `{norm(p)[:50]}`: {verdicts[0][1]}", construct=label))
                    carried_names = [nm for nm in sorted(_free_locals(p, selfn)) if any(nm in _targets(b.ast) for b in body)]
                    outside = [d for nm in carried_names for d in defs_all.get(nm, []) if not any(d is getattr(b.ast, "value", None) for b in body)]
                    ok_entry = bool(outside) and all(any(is_self_attr(x, "current_population", selfn) for x in ast.walk(d)) for d in outside)
                    obs.append(ctx.ob("R11.2", f, call, status=OK if ok_entry else INCONCLUSIVE if not outside else VIOLATION, detail=f"loop-entry value of `{', '.join(carried_names)}` derives from self.current_population" if ok_entry else f"{ci.name}: the first generation of a metaepoch is not bred from the deme's current population ({[norm(d) for d in outside]})", construct=label + ":entry"))
            else:
                reads = _reads_self_state(p, selfn)
                # state written on back-edge paths of the loop body
                written = set()
                for b in body:
                    if cfg.can_reach(b, head) or b is head:
                        if b.kind == "stmt" and is_history_append(b.ast, selfn):
                            written |= {"_history", "history", "current_population"}
                        for t in ast.walk(b.ast):
                            if isinstance(t, ast.Attribute) and isinstance(t.ctx, ast.Store) and isinstance(t.value, ast.Name) and t.value.id == selfn:
                                written.add(t.attr)
                # appends on exit-only paths do not feed the next iteration
                back_edge_appends = [b for b in body if b.kind == "stmt" and is_history_append(b.ast, selfn) and cfg.can_reach(b, head)]
                carried = bool(set(reads) & written) and bool(back_edge_appends or (set(reads) & written) - {"_history", "history", "current_population"})
                # a local container the expression reads is changed IN PLACE inside the loop (`buf.append(g)`, `buf[0] = g`): what
                # `buf[0]` then denotes is a question about the container's contents
                MUTS = ("append", "appendleft", "extend", "extendleft", "insert", "pop", "popleft", "clear", "rotate", "remove", "update", "add", "put", "push")
                loc_reads = _free_locals(p, selfn)
                inplace_loc = sorted({x.func.value.id for b in body for x in ast.walk(b.ast) if isinstance(x, ast.Call) and isinstance(x.func, ast.Attribute) and x.func.attr in MUTS and isinstance(x.func.value, ast.Name) and x.func.value.id in loc_reads} | {x.value.id for b in body for x in ast.walk(b.ast) if isinstance(x, ast.Subscript) and isinstance(x.ctx, ast.Store) and isinstance(x.value, ast.Name) and x.value.id in loc_reads})
                if carried:
                    obs.append(ctx.ob("R11.1", f, call, detail=f"{ci.name}: parent expression reads state rewritten inside the loop ({sorted(set(reads) & written)})", construct=label))
                elif inplace_loc:
                    obs.append(ctx.ob("R11.1", f, call, status=INCONCLUSIVE, detail=f"{ci.name}: the parents `{norm(p)}` are read out of the local container `{inplace_loc[0]}`, which the loop changes in place: which generation it holds is not followed", construct=label))
                else:
                    obs.append(ctx.ob("R11.1", f, call, status=VIOLATION, detail=f"{ci.name}: the parents `{norm(p)}` handed to {norm(call.func)} are loop-invariant — the loop body never rewrites what the expression reads on a path back to the loop head, so every generation of the metaepoch is bred from the metaepoch's starting population", witness=[f"read set: {sorted(set(reads))}", f"written on back-edge paths: {sorted(written)}", f"step results: {sorted(results)}"], construct=label))
    # R11.3 what is recorded
    gen_lists = set()
    for n in cfg.nodes:
        if n.kind == "stmt" and is_history_append(n.ast, selfn):
            arg = n.ast.value.args[0] if n.ast.value.args else None
            if isinstance(arg, ast.Name):
                gen_lists.add(arg.id)
            elif isinstance(arg, ast.Subscript) and isinstance(arg.value, ast.Name) and isinstance(arg.slice, ast.Slice) and arg.slice.upper is None and arg.slice.step is None:
                gen_lists.add(arg.value.id)  # L[1:]: the generations appended after the loop-entry element
    # a recorded name may be an alias of the list the loop fills (`result = generations` on leaving the loop)
    grew = True
    while grew:
        grew = False
        for nm in list(gen_lists):
            for d_ in defs_all.get(nm, []):
                if isinstance(d_, ast.Name) and d_.id not in gen_lists:
                    gen_lists.add(d_.id)
                    grew = True
    rec = []
    for b in body:
        a = b.ast
        if isinstance(a, ast.Expr) and isinstance(a.value, ast.Call) and isinstance(a.value.func, ast.Attribute) and a.value.func.attr == "append" and isinstance(a.value.func.value, ast.Name) and a.value.func.value.id in gen_lists:
            rec.append((b, a.value.args[0] if a.value.args else None))
    if not rec:
        obs.append(ctx.ob("R11.3", f, step_node.stmt, status=INCONCLUSIVE, detail=f"{ci.name}: no per-generation record found in the loop", construct="record"))
    for b, arg in rec:
        ok = isinstance(arg, ast.Name) and (arg.id in results or arg.id in derived)
        stale = False
        if not ok and arg is not None and any(any(y is c2 for y in ast.walk(arg)) for _, c2, _ in consumers if not (isinstance(c2.func, ast.Attribute) and c2.func.attr == "tell")):
            ok = True  # the step call's own value is what is recorded
        elif ok:
            # flow-sensitive: within the iteration the recorded name must have been (re)assigned from this generation's step
            # result before the record; a path loop-head -> record that passes no such assignment records an older generation
            fresh = [x for x in body if x in [sn for sn, _ in in_loop] and (arg.id in _targets(x.ast) or not _targets(x.ast))] + [
                x for x in body if arg.id in _targets(x.ast) and isinstance(x.ast, (ast.Assign, ast.AnnAssign)) and x.ast.value is not None and (_names(x.ast.value) & (results | derived))
            ]
            lag = None if b in fresh else cfg.find_path(head, b, avoid=lambda x: x in fresh)
            if lag is not None:
                ok, stale = False, True
        # positive evidence of a wrong record: the parents / the loop-entry population are recorded instead of the step result
        stale = stale or (isinstance(arg, ast.Name) and not ok and any(isinstance(d, ast.Attribute) and d.attr in ("current_population",) for d in defs_all.get(arg.id, []) if not isinstance(d, ast.AugAssign)))
        filtered = isinstance(arg, (ast.ListComp, ast.Subscript)) and bool({x.id for x in ast.walk(arg) if isinstance(x, ast.Name)} & (results | derived))
        obs.append(ctx.ob("R11.3", f, b.stmt, status=OK if ok else VIOLATION if (stale or filtered) else INCONCLUSIVE, detail="the recorded generation is the step result" if ok else f"{ci.name}: the generation recorded is `{norm(arg)}`, not the step's result {sorted(results)}", construct=b.label))
    return obs


def r11(ctx: Ctx):
    """R11.1-3 loop-carried parents, loop-entry provenance, recorded generations, per population engine."""
    engines = _engines(ctx)
    if len(engines) < 4:
        raise AnalysisError(f"only {len(engines)} demes with a generation loop found (EA, DE, SHADE, CMA confirmed by hand)")
    obs = []
    for ci, f, cfg, in_loop in engines:
        obs.extend(analyse_engine(ctx, ci, f, cfg, in_loop))
    return obs


def r11_4(ctx: Ctx):
    """R11.4 `current_population` is the last recorded generation: last element of the flattened (metaepoch-by-metaepoch, in order) history."""
    base = ctx.prog.cls("AbstractDeme")
    obs = []
    cp = base.methods.get("current_population")
    h = base.methods.get("history")
    if cp is None or h is None:
        raise AnalysisError("AbstractDeme.current_population / history accessors vanished")
    sn = cp.self_name()
    rets = [r for r in body_walk(cp.node) if isinstance(r, ast.Return)]
    ok = len(rets) == 1 and norm(rets[0].value).replace(" ", "") in (f"{sn}.history[-1]", f"{sn}._history[-1][-1]")
    st_cp = OK if ok else INCONCLUSIVE
    if not ok:
        # reverse scan for the last non-empty metaepoch: for g in reversed(self._history): if g: return g[-1]
        loops = [n for n in cp.node.body if isinstance(n, ast.For)]
        if len(loops) == 1 and isinstance(loops[0].target, ast.Name) and norm(loops[0].iter).replace(" ", "") in (f"reversed({sn}._history)", f"{sn}._history[::-1]") and len(loops[0].body) == 1 and isinstance(loops[0].body[0], ast.If) and not loops[0].body[0].orelse:
            g_ = loops[0].target.id
            iff = loops[0].body[0]
            if norm(iff.test).replace(" ", "") in (g_, f"len({g_})>0", f"len({g_})") and len(iff.body) == 1 and isinstance(iff.body[0], ast.Return) and norm(iff.body[0].value).replace(" ", "") == f"{g_}[-1]":
                others = [r for r in rets if r is not iff.body[0]]
                if not others:
                    st_cp = OK
        # positive evidence of a wrong generation: a constant position other than the last one
        for r in rets:
            for x in ast.walk(r.value) if r.value is not None else []:
                if isinstance(x, ast.Subscript) and isinstance(x.value, ast.Subscript) and isinstance(x.value.value, ast.Attribute) and x.value.value.attr == "_history" and not isinstance(x.slice, ast.Slice):
                    idx2 = x.slice
                    val2 = idx2.value if isinstance(idx2, ast.Constant) else (-idx2.operand.value if isinstance(idx2, ast.UnaryOp) and isinstance(idx2.op, ast.USub) and isinstance(idx2.operand, ast.Constant) else None)
                    if isinstance(val2, int) and val2 != -1 and st_cp != OK:
                        st_cp = VIOLATION  # a fixed generation of a metaepoch other than its last one
                if isinstance(x, ast.Subscript) and isinstance(x.value, ast.Attribute) and x.value.attr in ("history", "_history") and not isinstance(x.slice, ast.Slice):
                    idx = x.slice
                    val = idx.value if isinstance(idx, ast.Constant) else (-idx.operand.value if isinstance(idx, ast.UnaryOp) and isinstance(idx.op, ast.USub) and isinstance(idx.operand, ast.Constant) else None)
                    if isinstance(val, int) and val != -1 and st_cp != OK:
                        st_cp = VIOLATION
    ok = st_cp == OK
    obs.append(ctx.ob("R11.4", cp, rets[0] if rets else cp.node, status=st_cp, detail="current_population = last generation of the history" if ok else f"current_population returns `{norm(rets[0].value) if rets else '?'}`, which is not the last recorded generation (the next metaepoch / centroid / sprout candidates would be taken from an older generation)", construct="current_population"))
    hs = h.self_name()
    rets = [r for r in body_walk(h.node) if isinstance(r, ast.Return)]
    okh = False
    if len(rets) == 1 and isinstance(rets[0].value, ast.ListComp) and len(rets[0].value.generators) == 2:
        g1, g2 = rets[0].value.generators
        okh = norm(g1.iter) == f"{hs}._history" and isinstance(g1.target, ast.Name) and norm(g2.iter) == g1.target.id and isinstance(g2.target, ast.Name) and norm(rets[0].value.elt) == g2.target.id and not g1.ifs and not g2.ifs
    st_h = OK if okh else INCONCLUSIVE
    if not okh and len(rets) == 1 and rets[0].value is not None:
        v_ = rets[0].value
        # through a generator helper of the class: `list(self._iter_generations())` with
        # `for m in self._history: for g in m: yield g` (or `yield from m`)
        inner = v_.args[0] if isinstance(v_, ast.Call) and norm(v_.func) in ("list", "tuple") and len(v_.args) == 1 else v_
        if isinstance(inner, ast.Call) and isinstance(inner.func, ast.Attribute) and is_self_attr(inner.func, None, hs) and not inner.args and h.cls is not None and inner.func.attr in h.cls.methods:
            gm = h.cls.methods[inner.func.attr]
            gs = gm.self_name()
            body_ = [x for x in gm.node.body if not (isinstance(x, ast.Expr) and isinstance(x.value, ast.Constant))]
            if len(body_) == 1 and isinstance(body_[0], ast.For) and norm(body_[0].iter) == f"{gs}._history" and isinstance(body_[0].target, ast.Name) and len(body_[0].body) == 1:
                b0 = body_[0].body[0]
                m_ = body_[0].target.id
                if isinstance(b0, ast.Expr) and isinstance(b0.value, ast.YieldFrom) and norm(b0.value.value) == m_:
                    st_h = OK
                elif isinstance(b0, ast.For) and norm(b0.iter) == m_ and isinstance(b0.target, ast.Name) and len(b0.body) == 1 and isinstance(b0.body[0], ast.Expr) and isinstance(b0.body[0].value, ast.Yield) and norm(b0.body[0].value.value) == b0.target.id:
                    st_h = OK
        # positive evidence of a wrong flattening: a reversed / sorted / sliced / filtered source
        t_ = canon(v_)
        if st_h != OK and (isinstance(v_, ast.ListComp) and (any(g_.ifs for g_ in v_.generators) or any(isinstance(g_.iter, ast.Subscript) or (isinstance(g_.iter, ast.Call) and norm(g_.iter.func) in ("reversed", "sorted")) for g_ in v_.generators)) and "_history" in t_):
            st_h = VIOLATION
        if st_h != OK and isinstance(v_, ast.Subscript) and "_history" in t_ and not isinstance(v_.slice, ast.Slice):
            st_h = VIOLATION  # one metaepoch's generations only
        if st_h != OK and is_self_attr(v_, None, hs) and v_.attr not in ("_history",):
            st_h = VIOLATION  # a stored (cached) flattening instead of one recomputed from _history on every read
    okh = st_h == OK
    obs.append(ctx.ob("R11.4", h, rets[0] if rets else h.node, status=st_h, detail="history = all generations, metaepoch by metaepoch, in order" if okh else f"history is `{norm(rets[0].value) if rets else '?'}`, not the in-order flattening of the per-metaepoch generation lists", construct="history"))
    for ci in ctx.prog.subclasses(base):
        for nm in ("current_population", "history"):
            if nm in ci.methods:
                obs.append(ctx.ob("R11.4", ci.methods[nm], None, status=VIOLATION, detail=f"{ci.name} overrides `{nm}`", construct=f"{ci.name}.{nm}"))
    return obs


def _kept_population_consistent(ctx, f, cfg, selfn, attr, carrier):
    """`carrier = self.<attr>` at entry; -> (status, detail, node).  On every path to an exit on which generations were appended
    to the history, `self.<attr> = carrier` must follow the last rebinding of the carrier."""
    from ..cfg import typestate

    bad = []

    def node_fn(n, st):
        eq, app = st
        a = n.ast
        if a is None:
            return [st]
        if n.kind == "stmt" and isinstance(a, (ast.Assign, ast.AnnAssign)) and getattr(a, "value", None) is not None:
            tg = a.targets if isinstance(a, ast.Assign) else [a.target]
            if any(is_self_attr(t, attr, selfn) for t in tg):
                eq = isinstance(a.value, ast.Name) and a.value.id == carrier
            elif any(isinstance(t, ast.Name) and t.id == carrier for t in tg):
                eq = is_self_attr(a.value, attr, selfn)
        if n.kind == "stmt" and any(isinstance(c, ast.Call) and isinstance(c.func, ast.Attribute) and c.func.attr == "append" and is_self_attr(c.func.value, "_history", selfn) for c in ast.walk(a)):
            app = True
        if n.kind == "return" and app and not eq:
            bad.append(n)
        return [(eq, app)]

    at, exits, parent = typestate(cfg, [(False, False)], node_fn)
    ex = exits.normal() if hasattr(exits, "normal") else exits
    stale = [s_ for s_ in ex if s_[1] and not s_[0]]
    if bad or stale:
        n0 = bad[0] if bad else None
        return (VIOLATION, f"{f.short}: the population to breed from is kept in `self.{attr}` between metaepochs, but on a path that records generations in the history{(' (the return at line %d)' % n0.lineno) if n0 is not None else ''} `self.{attr}` is not set to the last generation: the next metaepoch breeds its first generation from an older population than the one recorded last", n0.stmt if n0 is not None else None)
    # the constructor must initialise the attribute with the population it records
    init = f.cls.methods.get("__init__") if f.cls is not None else None
    if init is not None:
        isn = init.self_name()
        st_ = [y for y in body_walk(init.node) if isinstance(y, ast.Assign) and any(is_self_attr(t, attr, isn) for t in y.targets)]
        hist = [c for c in body_walk(init.node) if isinstance(c, ast.Call) and isinstance(c.func, ast.Attribute) and c.func.attr == "append" and is_self_attr(c.func.value, "_history", isn)]
        if len(st_) == 1 and hist and isinstance(st_[0].value, ast.Name) and any(isinstance(x, ast.Name) and x.id == st_[0].value.id for x in ast.walk(hist[-1])):
            return (OK, f"{f.short}: `self.{attr}` is the last recorded generation at every exit (and the constructor's starting population)", None)
    return (INCONCLUSIVE, f"{f.short}: breeds from `self.{attr}`; cannot tell what the constructor puts there", None)


def r11_5(ctx: Ctx):
    """R11.5 an individual of a new generation that did not belong to the previous one is newly evaluated: fitness is carried over only for rows whose genome is unchanged in every coordinate, everything else is re-evaluated before it is recorded (R02.1, R02.2, R02.4)."""
    from . import c02

    out = []
    for o in c02.r02_1(ctx) + c02.r02_2(ctx) + c02.r02_4(ctx):
        o.rule = "R11.5"
        out.append(o)
    return out


def r11_7(ctx: Ctx):
    """R11.7 what a generation can contain: (a) the survivor selection of the SEA family draws from the parents and the offspring
    of THIS call only - a population the engine keeps between calls (`self._elites`) re-enters individuals of older
    generations; (b) the fitness cache answers only for the exact genome it stored - a key that loses information (str(),
    rounding, hashing) hands a new genome the fitness of another one, so it is neither inherited nor newly evaluated."""
    obs = []
    m = ctx.prog.own_method("BaseSEA", "select_new_population")
    sn = m.self_name()
    held = sorted({x.attr for x in body_walk(m.node) if isinstance(x, ast.Attribute) and isinstance(x.ctx, ast.Load) and is_self_attr(x, None, sn) and any(isinstance(c, ast.Call) and isinstance(c.func, ast.Attribute) and c.func.attr in ("merge", "topk") and any(y is x for y in ast.walk(c)) for c in body_walk(m.node))})
    written = sorted({t.attr for f in ctx.prog.functions_in(m.cls) for y in body_walk(f.node) if isinstance(y, ast.Assign) for t in y.targets if is_self_attr(t, None, f.self_name() or "self") and t.attr in held and f.name != "__init__"})
    if written:
        obs.append(ctx.ob("R11.7", m, m.node, status=VIOLATION, detail=f"select_new_population merges `self.{written[0]}`, a population the engine keeps from call to call, into the new generation: its individuals come from earlier generations, not from the generation immediately before", construct="selection-sources"))
    else:
        obs.append(ctx.ob("R11.7", m, m.node, detail="the selection draws only on the parents and offspring it is handed", construct="selection-sources"))
    try:
        gk = ctx.prog.own_method("NumpyCache", "get_key")
    except Exception:
        gk = None
    if gk is None:
        obs.append(ctx.ob("R11.7", None, None, subject="utils.cache.NumpyCache", loc="-", status=INCONCLUSIVE, detail="NumpyCache.get_key not found", construct="cache-key"))
    else:
        rets = [r for r in body_walk(gk.node) if isinstance(r, ast.Return) and r.value is not None]
        gdefs = local_defs(gk)
        t = canon(rets[0].value, gdefs) if len(rets) == 1 else "?"
        xp = gk.params()[1] if len(gk.params()) > 1 else "x"
        exact = t in (f"{xp}.tobytes()", f"tuple({xp})", f"tuple({xp}.tolist())", f"{xp}.data.tobytes()", f"np.ascontiguousarray({xp}).tobytes()", f"({xp}.dtype,{xp}.shape,{xp}.tobytes())", f"({xp}.shape,{xp}.tobytes())")
        lossy = any(isinstance(c, ast.Call) and norm(c.func).split(".")[-1] in ("str", "repr", "array2string", "array_str", "round", "around", "hash", "format") for c in ast.walk(rets[0].value)) if len(rets) == 1 else False
        obs.append(ctx.ob("R11.7", gk, rets[0] if rets else gk.node, status=OK if exact else VIOLATION if lossy else INCONCLUSIVE, detail="the cache key is the array's exact bytes" if exact else f"the cache key `{norm(rets[0].value)[:60] if rets else '?'}` " + ("loses information (str() of an array prints 8 significant digits; rounding / hashing collide): two different genomes share an entry, and the later one is handed the earlier one's fitness without ever being evaluated" if lossy else "is not recognisably the exact content of the genome"), construct="cache-key"))
    return obs


def r11_6(ctx: Ctx):
    """R11.6 only the deme itself records generations: nothing outside the deme's own methods writes `<deme>._history` (a
    generation list registered by other code - e.g. a repeated metaepoch - is not bred from the generation recorded before it)."""
    from .common import foreign_history_writes

    return foreign_history_writes(ctx, "R11.6", "the generations it registers were not bred from the generation recorded before them, nor newly evaluated", carry_ok=True)


RULES = [("R11", r11, 12), ("R11.4", r11_4, 2), ("R11.5", r11_5, 16), ("R11.6", r11_6, 1), ("R11.7", r11_7, 2)]
