"""C07 — the demes always form a well-formed tree; sprout seeds come from the parent."""
from __future__ import annotations

import ast

from ..core import INCONCLUSIVE, OK, VIOLATION, Ctx, canon, is_self_attr, local_defs
from ..model import AnalysisError, body_walk, norm
from .common import calls_method

CLAIM = """Decides the construction discipline that makes the tree well formed for every run: (R07.1) in _do_sprout the child is
built with level = parent.level + 1, the config of that level, started_at = the tree's current metaepoch, the loop's
candidate as seed, the keyed deme as parent and the tree's random seed, and is registered both in parent.children and in
levels[level] on every path; (R07.2) the id suffix is the current size of the target level and an append to that level
separates two id computations (ids strictly increase), non-root ids carry the parent's id as prefix; (R07.3) the config ->
engine table covers every level-config class, maps to concrete demes whose constructor declares that config type, and is
indexed by type(config); (R07.4) identity fields (_id, _level, _started_at, _sprout_seed) are written once from the init
args, children/levels only grow by append at the tabled sites; (R07.5) the root is built from levels[0] with id 'root',
level 0, metaepoch 0, no seed, once; (R07.6) parents on the last level are refused and generators never offer them;
(R07.7) generator candidates have provenance current_population / best_current_individual of the keyed deme (NBC: the
clustering returns a subset of its constructor argument — checked as its own obligation); (R07.8) seeded SEA/DE/SHADE
constructors sample pop_size - 1 individuals and append one whose genome is the seed's."""
NOTE = """User-composed sprout mechanisms and custom deme classes registered through the config live outside pyhms. Filters
only removing candidates is C10's R10.2."""
TECHNIQUE = "def-use / argument-agreement analysis, who-may-write tables and registry exhaustiveness over the ast program model"
EXPLANATION = """
Every obligation is a def-use or who-may-write fact about the construction sites: the keyword arguments of the two
init_from_config calls are resolved through local definitions to the expressions named in the claim; stores to the identity
fields and mutations of `_children` / `_levels` are enumerated over all of pyhms; the registry CONFIG_CLASS_TO_DEME_CLASS
is compared with the subclasses of BaseLevelConfig and with the annotated config type each deme constructor declares.
"""
ASSUMPTIONS = ["demes are created only through init_from_config from DemeTree.__init__/_do_sprout (C05 R05.5)"]


def _kw(call: ast.Call, name: str):
    return next((k.value for k in call.keywords if k.arg == name), None)


def _resolve(e, defs):
    """Follow a local name with a single definition."""
    seen = 0
    while isinstance(e, ast.Name) and e.id in defs and len(defs[e.id]) == 1 and seen < 5 and not isinstance(defs[e.id][0], ast.AugAssign):
        e = defs[e.id][0]
        seen += 1
    return e


def r07_1(ctx: Ctx):
    """R07.1 argument agreement and double registration in _do_sprout."""
    f = ctx.prog.own_method("DemeTree", "_do_sprout")
    selfn = f.self_name()
    seeds_p = f.params()[1]
    defs = local_defs(f)
    obs = []
    calls = [c for c in body_walk(f.node) if isinstance(c, ast.Call) and norm(c.func) == "init_from_config"]
    if len(calls) != 1:
        raise AnalysisError(f"_do_sprout contains {len(calls)} init_from_config calls (1 confirmed by hand)")
    call = calls[0]
    # loops: for deme, cands in seeds.items(): ... for ind in cands.individuals:
    outer = [n for n in body_walk(f.node) if isinstance(n, ast.For) and norm(n.iter) == f"{seeds_p}.items()" and isinstance(n.target, ast.Tuple) and len(n.target.elts) == 2]
    if len(outer) != 1:
        return [ctx.ob("R07.1", f, f.node, status=INCONCLUSIVE, detail="cannot find `for deme, candidates in seeds.items()`", construct="outer-loop")]
    deme_v, cand_v = outer[0].target.elts[0].id, outer[0].target.elts[1].id
    inner = [n for n in ast.walk(outer[0]) if isinstance(n, ast.For) and n is not outer[0] and norm(n.iter) == f"{cand_v}.individuals" and isinstance(n.target, ast.Name)]
    if len(inner) != 1 or not any(x is call for x in ast.walk(inner[0])):
        encl = [n for n in ast.walk(outer[0]) if isinstance(n, ast.For) and n is not outer[0] and any(x is call for x in ast.walk(n))]
        if encl:
            return [ctx.ob("R07.1", f, encl[0], status=VIOLATION, detail=f"children are created while iterating `{norm(encl[0].iter)}`, not exactly the accepted candidates `{cand_v}.individuals` of the keyed deme (a candidate can be sprouted twice or skipped)", construct="one-per-candidate")]
        return [ctx.ob("R07.1", f, call, status=INCONCLUSIVE, detail="child construction is not inside `for ind in candidates.individuals`", construct="inner-loop")]
    ind_v = inner[0].target.id
    # exactly one child per candidate: the call is not inside a further loop
    deeper = [n for n in ast.walk(inner[0]) if isinstance(n, (ast.For, ast.While)) and n is not inner[0] and any(x is call for x in ast.walk(n))]
    obs.append(ctx.ob("R07.1", f, call, status=VIOLATION if deeper else OK, detail="one child per accepted candidate" if not deeper else "several children can be created per candidate (construction inside a nested loop)", construct="one-per-candidate"))

    def check(kw, want_desc, pred):
        v = _kw(call, kw)
        if v is None:
            obs.append(ctx.ob("R07.1", f, call, status=VIOLATION, detail=f"init_from_config is called without `{kw}=`", construct=f"kw:{kw}"))
            return None
        r = _resolve(v, defs)
        ok = pred(v, r)
        obs.append(ctx.ob("R07.1", f, v, status=OK if ok else VIOLATION, detail=f"{kw} = {want_desc}" if ok else f"child built with {kw}=`{norm(r)}`; expected {want_desc}", construct=f"kw:{kw}"))
        return v

    lvl = check("target_level", "parent.level + 1", lambda v, r: canon(v, defs) == f"{deme_v}.level+1")
    lvl_txt = norm(lvl) if lvl is not None else None
    check("config", "config.levels[child level]", lambda v, r: canon(v, defs) == f"{selfn}.config.levels[{deme_v}.level+1]")
    check("metaepoch_count", "the tree's current metaepoch", lambda v, r: norm(r) == f"{selfn}.metaepoch_count")
    check("sprout_seed", "the accepted candidate", lambda v, r: norm(v) == ind_v)
    check("parent_deme", "the deme the candidate was taken from", lambda v, r: norm(v) == deme_v)
    check("new_id", "the next child id of the parent", lambda v, r: isinstance(r, ast.Call) and norm(r.func) == f"{selfn}._next_child_id" and [norm(a) for a in r.args] == [deme_v])
    check("config_class_to_deme_class", "the tree's registry", lambda v, r: norm(r) == f"{selfn}.config.config_class_to_deme_class")
    # registration
    child_names = [t.id for n in body_walk(f.node) if isinstance(n, ast.Assign) and n.value is call for t in n.targets if isinstance(t, ast.Name)]
    if len(child_names) != 1:
        obs.append(ctx.ob("R07.1", f, call, status=INCONCLUSIVE, detail="the created deme is not bound to a single local", construct="child-binding"))
        return obs
    ch = child_names[0]
    body = inner[0].body
    top = [s for s in body]
    add = [s for s in top if isinstance(s, ast.Expr) and isinstance(s.value, ast.Call) and norm(s.value.func) == f"{deme_v}.add_child" and [norm(a) for a in s.value.args] == [ch]]
    app = [s for s in top if isinstance(s, ast.Expr) and isinstance(s.value, ast.Call) and isinstance(s.value.func, ast.Attribute) and s.value.func.attr == "append" and [norm(a) for a in s.value.args] == [ch] and canon(s.value.func.value, defs) in (f"{selfn}._levels[{deme_v}.level+1]", f"{selfn}.levels[{deme_v}.level+1]")]
    all_add = [c for c in ast.walk(inner[0]) if isinstance(c, ast.Call) and isinstance(c.func, ast.Attribute) and c.func.attr == "add_child"]
    all_app = [c for c in ast.walk(inner[0]) if isinstance(c, ast.Call) and isinstance(c.func, ast.Attribute) and c.func.attr == "append" and "_levels" in norm(c.func.value) or isinstance(c, ast.Call) and isinstance(c.func, ast.Attribute) and c.func.attr == "append" and norm(c.func.value).startswith(f"{selfn}.levels")]
    obs.append(ctx.ob("R07.1", f, add[0] if add else call, status=OK if (len(add) == 1 and len(all_add) == 1) else VIOLATION, detail="child registered with its parent (unconditionally, once)" if (len(add) == 1 and len(all_add) == 1) else f"the child is not added exactly once, unconditionally, to `{deme_v}`'s children ({[norm(c) for c in all_add]})", construct="register-parent"))
    obs.append(ctx.ob("R07.1", f, app[0] if app else call, status=OK if (len(app) == 1 and len(all_app) == 1) else VIOLATION, detail="child appended to levels[child level] (unconditionally, once)" if (len(app) == 1 and len(all_app) == 1) else f"the child is not appended exactly once, unconditionally, to levels[{lvl_txt}] ({[norm(c) for c in all_app]})", construct="register-level"))
    return obs


def r07_2(ctx: Ctx):
    """R07.2 ids: suffix = size of the target level, an append separates two computations, non-root ids are prefixed by the parent's id."""
    f = ctx.prog.own_method("DemeTree", "_next_child_id")
    selfn = f.self_name()
    d = f.params()[1]
    defs = local_defs(f)
    obs = []
    rets = [r for r in body_walk(f.node) if isinstance(r, ast.Return)]
    suffix_ok = True
    root_branch = prefixed = False
    for r in rets:
        v = r.value
        names = {x.id for x in ast.walk(v) if isinstance(x, ast.Name)}
        parts = []
        if isinstance(v, ast.JoinedStr):
            parts = [norm(x.value) for x in v.values if isinstance(x, ast.FormattedValue)]
            lits = "".join(x.value for x in v.values if isinstance(x, ast.Constant))
            if parts and parts[0] == f"{d}.id" and "/" in lits and len(parts) == 2:
                prefixed = True
                sfx = _resolve(ast.parse(parts[1], mode="eval").body, defs)
            else:
                sfx = None
        elif isinstance(v, ast.Call) and norm(v.func) == "str" and v.args:
            root_branch = True
            sfx = _resolve(v.args[0], defs)
        else:
            sfx = None
        if sfx is None or norm(sfx).replace(" ", "") not in (f"len({selfn}._levels[{d}.level+1])", f"len({selfn}.levels[{d}.level+1])"):
            suffix_ok = False
            obs.append(ctx.ob("R07.2", f, r, status=VIOLATION, detail=f"child id `{norm(v)}` is not built from the size of the target level (ids on a level could repeat)"))
    if suffix_ok:
        obs.append(ctx.ob("R07.2", f, f.node, detail="id suffix = len(levels[parent.level + 1])", construct="suffix"))
    obs.append(ctx.ob("R07.2", f, f.node, status=OK if (root_branch and prefixed) else VIOLATION, detail="root children get the bare suffix, deeper demes `<parent id>/<suffix>`" if (root_branch and prefixed) else "non-root ids are no longer prefixed with the parent's id (or the root case is missing)", construct="prefix"))
    # root test
    tests = [n.test for n in body_walk(f.node) if isinstance(n, ast.If)]
    ok_root = any(norm(t).replace('"', "'") == f"{d}.id == 'root'" for t in tests)
    obs.append(ctx.ob("R07.2", f, f.node, status=OK if ok_root else INCONCLUSIVE, detail="prefix omitted exactly for children of 'root'" if ok_root else "cannot recognise the root test", construct="root-test"))
    # in _do_sprout: an append to the level follows each id computation within the same iteration (checked by R07.1 register-level)
    g = ctx.prog.own_method("DemeTree", "_do_sprout")
    inner_calls = [c for c in body_walk(g.node) if isinstance(c, ast.Call) and norm(c.func) == f"{g.self_name()}._next_child_id"]
    ok = len(inner_calls) == 1
    why = f"{len(inner_calls)} id computations in _do_sprout"
    if ok:
        # the id must be computed inside the innermost loop that creates the child (once per child, after the previous append)
        create = [c for c in body_walk(g.node) if isinstance(c, ast.Call) and norm(c.func) == "init_from_config"]
        loops = [n for n in body_walk(g.node) if isinstance(n, (ast.For, ast.While)) and create and any(x is create[0] for x in ast.walk(n))]
        innermost = min(loops, key=lambda n: sum(1 for _ in ast.walk(n))) if loops else None
        if innermost is None or not any(x is inner_calls[0] for x in ast.walk(innermost)):
            ok = False
            why = "the child id is computed outside the loop that creates the children: every child sprouted from one parent in a round gets the same id"
    obs.append(ctx.ob("R07.2", g, inner_calls[0] if inner_calls else g.node, status=OK if ok else VIOLATION, detail="one id computation per created child, followed by the append to the level (R07.1)" if ok else why, construct="one-id-per-child"))
    others = [cs for cs in ctx.res.callers_of(f) if cs.caller is not g]
    if others:
        obs.append(ctx.ob("R07.2", others[0].caller, others[0].node, status=VIOLATION, detail="_next_child_id is used outside _do_sprout"))
    return obs


def r07_3(ctx: Ctx):
    """R07.3 the config -> engine registry is exhaustive, consistent with each engine's declared config type, and indexed by type(config)."""
    P = ctx.prog
    mod = P.modules.get("pyhms.demes.initialize")
    if mod is None or "CONFIG_CLASS_TO_DEME_CLASS" not in mod.globals_:
        raise AnalysisError("CONFIG_CLASS_TO_DEME_CLASS registry vanished")
    st = mod.globals_["CONFIG_CLASS_TO_DEME_CLASS"]
    d = st.value
    if not isinstance(d, ast.Dict):
        return [ctx.ob("R07.3", None, None, subject="demes.initialize", loc=f"{mod.relpath}:{st.lineno}", status=INCONCLUSIVE, detail="registry is not a dict literal", construct="registry")]
    obs = []
    base_cfg = P.cls("BaseLevelConfig")
    base_deme = P.cls("AbstractDeme")
    mapping = {}
    for k, v in zip(d.keys, d.values):
        kc = P.resolve_class_expr(k, mod)
        vc = P.resolve_class_expr(v, mod)
        if kc is None or vc is None:
            obs.append(ctx.ob("R07.3", None, None, subject="demes.initialize.CONFIG_CLASS_TO_DEME_CLASS", loc=f"{mod.relpath}:{k.lineno}", status=INCONCLUSIVE, detail=f"cannot resolve registry entry {norm(k)}: {norm(v)}", construct=f"entry:{norm(k)}"))
            continue
        mapping[kc.qualname] = vc
        ok = P.is_subclass(kc, base_cfg) and P.is_subclass(vc, base_deme) and not P.is_abstract_class(vc)
        # the engine declares this config type
        init = P.lookup_method(vc, "__init__")
        declared = None
        if init is not None:
            for n in body_walk(init.node):
                if isinstance(n, ast.AnnAssign) and isinstance(n.target, ast.Name) and n.target.id == "config":
                    declared = P.resolve_class_expr(n.annotation, init.module)
        agree = declared is None or declared is kc
        if declared is None:
            obs.append(ctx.ob("R07.3", vc, vc.node, status=INCONCLUSIVE, detail=f"{vc.name}.__init__ does not declare its config type", construct=f"entry:{kc.name}"))
        else:
            obs.append(ctx.ob("R07.3", vc, k, status=OK if (ok and agree) else VIOLATION, detail=f"{kc.name} -> {vc.name} (declares config: {declared.name})" if (ok and agree) else f"registry maps {kc.name} to {vc.name}, whose constructor declares config: {declared.name}", construct=f"entry:{kc.name}"))
    for sc in P.subclasses(base_cfg):
        if sc.qualname not in mapping:
            obs.append(ctx.ob("R07.3", sc, sc.node, status=VIOLATION, detail=f"level config class {sc.name} has no engine in CONFIG_CLASS_TO_DEME_CLASS", construct=f"missing:{sc.name}"))
    f = P.func("pyhms.demes.initialize", "init_from_config")
    defs = local_defs(f)
    idx = [n for n in body_walk(f.node) if isinstance(n, ast.Subscript) and isinstance(n.value, ast.Name) and norm(n.slice) == f"type({f.params()[0]})"]
    ok = len(idx) >= 1
    built_in_included = False
    if ok:
        table = _resolve(idx[0].value, defs)
        built_in_included = "CONFIG_CLASS_TO_DEME_CLASS" in norm(table)
    obs.append(ctx.ob("R07.3", f, idx[0] if idx else f.node, status=OK if (ok and built_in_included) else VIOLATION, detail="engine class = registry[type(config)]" if (ok and built_in_included) else "the engine is not looked up by type(config) in a table containing the built-in registry", construct="lookup"))
    # the looked-up class is instantiated with the init args built from the parameters
    dia = [c for c in body_walk(f.node) if isinstance(c, ast.Call) and norm(c.func) == "DemeInitArgs"]
    if len(dia) != 1:
        obs.append(ctx.ob("R07.3", f, f.node, status=INCONCLUSIVE, detail="DemeInitArgs construction not found", construct="init-args"))
    else:
        want = {"id": "new_id", "level": "target_level", "config": "config", "started_at": "metaepoch_count", "sprout_seed": "sprout_seed", "random_seed": "random_seed", "parent_deme": "parent_deme"}
        got = {k.arg: norm(k.value) for k in dia[0].keywords}
        bad = {k: got.get(k) for k, v in want.items() if got.get(k) != v}
        obs.append(ctx.ob("R07.3", f, dia[0], status=OK if not bad else VIOLATION, detail="init args carry id/level/config/started_at/seed/parent/random_seed unchanged" if not bad else f"init args are rewired: {bad}", construct="init-args"))
    return obs


def r07_4(ctx: Ctx):
    """R07.4 identity fields are written once from the init args; `_children` and `_levels` only grow by append at the tabled sites."""
    P = ctx.prog
    base = P.cls("AbstractDeme")
    init = base.methods["__init__"]
    tree = P.cls("DemeTree")
    obs = []
    want_src = {"_id": "id", "_level": "level", "_started_at": "started_at", "_sprout_seed": "sprout_seed"}
    for f in P.all_functions():
        if f.name == "<module>":
            continue
        for n in body_walk(f.node):
            tg = n.targets if isinstance(n, ast.Assign) else [n.target] if isinstance(n, (ast.AugAssign, ast.AnnAssign)) else n.targets if isinstance(n, ast.Delete) else []
            for t in tg:
                for sub in ast.walk(t):
                    if isinstance(sub, ast.Attribute) and isinstance(sub.ctx, (ast.Store, ast.Del)) and sub.attr in want_src:
                        bt = ctx.res.type_of(sub.value, f)
                        is_deme = bt is None or any(x[0] == "inst" and P.classes.get(x[1]) is not None and P.is_subclass(P.classes[x[1]], base) for x in ([bt] if bt[0] != "union" else bt[1]))
                        if not is_deme:
                            continue
                        v = getattr(n, "value", None)
                        in_init = f.cls is not None and P.is_subclass(f.cls, base) and f.name == "__init__" and is_self_attr(sub, None, f.self_name())
                        ok = in_init and isinstance(v, ast.Attribute) and v.attr == want_src[sub.attr] and isinstance(v.value, ast.Name) and v.value.id in f.params()
                        obs.append(ctx.ob("R07.4", f, n, status=OK if ok else VIOLATION, detail=f"{sub.attr} set once from the init args" if ok else f"identity field `{sub.attr}` is written by `{norm(n)}` in {f.short}"))
            # container mutations
            if isinstance(n, ast.Call) and isinstance(n.func, ast.Attribute):
                holder = n.func.value
                while isinstance(holder, ast.Subscript):
                    holder = holder.value
                if isinstance(holder, ast.Name) and n.func.attr in ("append", "extend", "insert", "pop", "remove", "clear", "sort", "reverse"):
                    src = ctx.eff._alias_source(f, holder.id)
                    if src is not None and src.rsplit(".", 1)[-1] in ("_levels", "levels", "leaves", "_children", "children"):
                        obs.append(ctx.ob("R07.4", f, n, status=VIOLATION, detail=f"`{norm(n)}` mutates `{src}` through the alias `{holder.id}` in {f.short}"))
                        continue
                if isinstance(holder, ast.Attribute) and holder.attr in ("_children", "children") and n.func.attr in ("append", "extend", "insert", "pop", "remove", "clear", "sort", "reverse"):
                    ok = f.cls is base and f.name == "add_child" and n.func.attr == "append" and is_self_attr(holder, "_children", f.self_name())
                    obs.append(ctx.ob("R07.4", f, n, status=OK if ok else VIOLATION, detail="children grow only through add_child" if ok else f"`{norm(n)}` changes a deme's children outside add_child"))
                if isinstance(holder, ast.Attribute) and holder.attr in ("_levels", "levels", "leaves") and n.func.attr in ("append", "extend", "insert", "pop", "remove", "clear", "sort", "reverse"):
                    bt = ctx.res.type_of(holder.value, f)
                    is_tree = bt is None or any(x[0] == "inst" and x[1] == tree.qualname for x in ([bt] if bt[0] != "union" else bt[1]))
                    if not is_tree:
                        continue
                    ok = f.cls is tree and f.name in ("__init__", "_do_sprout") and n.func.attr == "append" and holder.attr == "_levels" and holder is not n.func.value
                    obs.append(ctx.ob("R07.4", f, n, status=OK if ok else VIOLATION, detail="a level grows by append in DemeTree.__init__/_do_sprout" if ok else f"`{norm(n)}` restructures the tree's levels in {f.short}"))
            for t in tg:
                base_t = t
                while isinstance(base_t, ast.Subscript):
                    base_t = base_t.value
                if isinstance(base_t, ast.Attribute) and base_t.attr in ("_levels", "_children") and isinstance(n, (ast.Assign, ast.AnnAssign, ast.AugAssign, ast.Delete)):
                    if base_t.attr == "_levels" and f.cls is tree and f.name == "__init__" and t is base_t:
                        ok = isinstance(n.value, ast.ListComp) and isinstance(n.value.elt, ast.List) and not n.value.elt.elts
                        obs.append(ctx.ob("R07.4", f, n, status=OK if ok else VIOLATION, detail="levels start as empty lists, one per configured level" if ok else f"levels initialised as `{norm(n.value)}`"))
                    elif base_t.attr == "_children" and f is init and t is base_t:
                        ok = isinstance(n.value, ast.List) and not n.value.elts
                        obs.append(ctx.ob("R07.4", f, n, status=OK if ok else VIOLATION, detail="children start empty" if ok else "children do not start empty"))
                    else:
                        obs.append(ctx.ob("R07.4", f, n, status=VIOLATION, detail=f"`{norm(n)}` rebinds or overwrites tree structure in {f.short}"))
    return obs


def r07_5(ctx: Ctx):
    """R07.5 the root: levels[0] config, id 'root', level 0, metaepoch 0, no seed, appended once to levels[0]."""
    f = ctx.prog.own_method("DemeTree", "__init__")
    selfn = f.self_name()
    cfg_p = f.params()[1]
    defs = local_defs(f)
    calls = [c for c in body_walk(f.node) if isinstance(c, ast.Call) and norm(c.func) == "init_from_config"]
    if len(calls) != 1:
        raise AnalysisError(f"DemeTree.__init__ contains {len(calls)} init_from_config calls")
    c = calls[0]
    want = {
        "config": (f"{cfg_p}.levels[0]", f"{selfn}.config.levels[0]"),
        "new_id": ("'root'",),
        "target_level": ("0",),
        "metaepoch_count": ("0",),
        "sprout_seed": ("None",),
    }
    obs = []
    for k, alts in want.items():
        v = _kw(c, k)
        r = _resolve(v, defs) if v is not None else None
        ok = r is not None and norm(r) in alts
        obs.append(ctx.ob("R07.5", f, v if v is not None else c, status=OK if ok else VIOLATION, detail=f"root {k} = {alts[0]}" if ok else f"the root is built with {k}=`{norm(r) if r is not None else 'missing'}` (expected {alts[0]})", construct=f"root:{k}"))
    pd = _kw(c, "parent_deme")
    if pd is not None and norm(pd) != "None":
        obs.append(ctx.ob("R07.5", f, pd, status=VIOLATION, detail="the root is given a parent", construct="root:parent"))
    names = [t.id for n in body_walk(f.node) if isinstance(n, ast.Assign) and n.value is c for t in n.targets if isinstance(t, ast.Name)]
    apps = [x for x in body_walk(f.node) if isinstance(x, ast.Call) and isinstance(x.func, ast.Attribute) and x.func.attr == "append" and norm(x.func.value) in (f"{selfn}._levels[0]",) and names and [norm(a) for a in x.args] == [names[0]]]
    obs.append(ctx.ob("R07.5", f, apps[0] if apps else c, status=OK if len(apps) == 1 else VIOLATION, detail="root appended once to levels[0]" if len(apps) == 1 else "the root is not appended exactly once to levels[0]", construct="root:register"))
    inloop = any(isinstance(n, (ast.For, ast.While)) and any(x is c for x in ast.walk(n)) for n in body_walk(f.node))
    if inloop:
        obs.append(ctx.ob("R07.5", f, c, status=VIOLATION, detail="root construction inside a loop", construct="root:once"))
    return obs


def r07_6(ctx: Ctx):
    """R07.6 leaves never sprout: _next_child_id refuses last-level parents and generators iterate all levels but the last."""
    obs = []
    f = ctx.prog.own_method("DemeTree", "_next_child_id")
    d = f.params()[1]
    sn = f.self_name()
    ok = False
    for n in body_walk(f.node):
        if isinstance(n, ast.If) and any(isinstance(x, ast.Raise) for x in n.body):
            t = norm(n.test).replace(" ", "")
            if t in (f"{d}.level>={sn}.height-1", f"{d}.level+1>={sn}.height", f"{d}.level>={len}" if False else f"{d}.level>=len({sn}.levels)-1", f"{d}.level>{sn}.height-2"):
                ok = True
    obs.append(ctx.ob("R07.6", f, f.node, status=OK if ok else VIOLATION, detail="raises for parents on the last level" if ok else "_next_child_id no longer refuses parents on the last configured level", construct="leaf-guard"))
    for cname, allowed in (("BestPerDeme", ("[:-1]",)), ("NBC_Generator", ("[:-1]",)), ("NBCGeneratorWithLocalMethod", ("[:-2]", "[-2]"))):
        g = ctx.prog.cls(cname).methods["__call__"]
        tp = g.params()[1]
        iters = []
        for n in body_walk(g.node):
            if isinstance(n, (ast.For, ast.comprehension)) and f"{tp}.levels" in norm(n.iter):
                iters.append(n.iter)
        bad = [i for i in iters if not any(norm(i) == f"{tp}.levels{a}" for a in allowed)]
        if not iters:
            obs.append(ctx.ob("R07.6", g, g.node, status=INCONCLUSIVE, detail=f"{cname}: no iteration over tree.levels found", construct=f"{cname}:levels"))
        for b in bad:
            obs.append(ctx.ob("R07.6", g, b, status=VIOLATION, detail=f"{cname} iterates `{norm(b)}`: demes on the last level (or the wrong levels) are offered as parents", construct=f"{cname}:levels"))
        if iters and not bad:
            obs.append(ctx.ob("R07.6", g, iters[0], detail=f"{cname} iterates {', '.join(norm(i) for i in iters)}", construct=f"{cname}:levels"))
    return obs


def r07_7(ctx: Ctx):
    """R07.7 candidate provenance: current population / current best of the keyed deme; the clustering returns a subset of its input."""
    obs = []
    P = ctx.prog
    # BestPerDeme
    g = P.cls("BestPerDeme").methods["__call__"]
    comps = [n for n in body_walk(g.node) if isinstance(n, ast.DictComp)]
    if len(comps) != 1:
        obs.append(ctx.ob("R07.7", g, g.node, status=INCONCLUSIVE, detail="BestPerDeme: dict comprehension not found", construct="best-per-deme"))
    else:
        dc = comps[0]
        key = norm(dc.key)
        call = dc.value
        inds = _kw(call, "individuals") if isinstance(call, ast.Call) else None
        ok = inds is not None and norm(inds) == f"[{key}.best_current_individual]"
        obs.append(ctx.ob("R07.7", g, inds if inds is not None else dc, status=OK if ok else VIOLATION, detail="BestPerDeme offers exactly the keyed deme's current best" if ok else f"BestPerDeme offers `{norm(inds) if inds is not None else '?'}` for deme `{key}` (must be [deme.best_current_individual])", construct="best-per-deme"))
        act = any(norm(c) == f"{key}.is_active" for gen in dc.generators for c in gen.ifs)
        obs.append(ctx.ob("R07.7", g, dc, status=OK if act else VIOLATION, detail="only active demes are keys" if act else "BestPerDeme offers candidates from inactive demes", construct="best-per-deme:active"))
    # NBC generators
    for cname in ("NBC_Generator", "NBCGeneratorWithLocalMethod"):
        g = P.cls(cname).methods["__call__"]
        defs = local_defs(g)
        stores = [n for n in body_walk(g.node) if isinstance(n, ast.Assign) and len(n.targets) == 1 and isinstance(n.targets[0], ast.Subscript) and isinstance(n.value, ast.Call) and norm(n.value.func) == "DemeCandidates"]
        if not stores:
            obs.append(ctx.ob("R07.7", g, g.node, status=INCONCLUSIVE, detail=f"{cname}: no candidates[deme] = DemeCandidates(...) store", construct=cname))
        for st in stores:
            key = norm(st.targets[0].slice)
            inds = _kw(st.value, "individuals")
            r = _resolve(inds, defs) if inds is not None else None
            ok = False
            why = f"individuals = `{norm(r) if r is not None else '?'}`"
            if isinstance(r, ast.Call) and isinstance(r.func, ast.Attribute) and r.func.attr == "cluster" and isinstance(r.func.value, ast.Name):
                nd = defs.get(r.func.value.id, [])
                ok = len(nd) == 1 and isinstance(nd[0], ast.Call) and norm(nd[0].func) in ("NearestBetterClustering", "NearestBetterClusteringWithRule2") and nd[0].args and norm(nd[0].args[0]) == f"{key}.current_population"
                if not ok:
                    why = f"clustering input is `{norm(nd[0].args[0]) if nd and isinstance(nd[0], ast.Call) and nd[0].args else '?'}`, not {key}.current_population"
            elif isinstance(r, ast.List) and len(r.elts) == 1 and norm(r.elts[0]) == f"{key}.best_individual" and cname == "NBCGeneratorWithLocalMethod":
                ok = True  # tabled: the local-method generator offers the best of a just-finished deme
            obs.append(ctx.ob("R07.7", g, st, status=OK if ok else VIOLATION, detail=f"{cname}: candidates of `{key}` come from its own current population" if ok else f"{cname}: {why}"))
    # NBC summary obligation: cluster() ⊆ constructor argument
    nbc = P.cls("NearestBetterClustering")
    init = nbc.methods["__init__"]
    sn = init.self_name()
    arg = init.params()[1]
    idefs = local_defs(init)
    st = [n for n in body_walk(init.node) if isinstance(n, ast.Assign) and any(is_self_attr(t, "individuals", sn) for t in n.targets)]
    ok = False
    if len(st) == 1:
        v = st[0].value
        core = v.value if isinstance(v, ast.Subscript) and isinstance(v.slice, ast.Slice) else v
        core = _resolve(core, idefs)
        ok = isinstance(core, ast.Call) and norm(core.func) == "sorted" and core.args and norm(core.args[0]) == arg
    obs.append(ctx.ob("R07.7", init, st[0] if st else init.node, status=OK if ok else VIOLATION, detail="clustering works on a sorted prefix of its argument" if ok else "NearestBetterClustering.individuals is not a (prefix of a) sort of the constructor argument", construct="nbc:subset-input"))
    n_create = 0
    for m in nbc.methods.values():
        msn = m.self_name() or "self"
        for c in body_walk(m.node):
            if isinstance(c, ast.Call) and isinstance(c.func, ast.Attribute) and c.func.attr == "create_node":
                n_create += 1
                data = _kw(c, "data")
                indv = None
                if isinstance(data, ast.Dict):
                    for k, v in zip(data.keys, data.values):
                        if isinstance(k, ast.Constant) and k.value == "individual":
                            indv = v
                src_ok = False
                if isinstance(indv, ast.Name):
                    mdefs = local_defs(m)
                    srcs = mdefs.get(indv.id, [])
                    loops = [n for n in body_walk(m.node) if isinstance(n, ast.For) and isinstance(n.target, ast.Name) and n.target.id == indv.id]
                    src_ok = all(norm(s).startswith(f"{msn}.individuals") for s in srcs) and all(norm(l.iter).startswith(f"{msn}.individuals") for l in loops) and bool(srcs or loops)
                obs.append(ctx.ob("R07.7", m, c, status=OK if src_ok else VIOLATION, detail="tree nodes hold individuals of the clustered population" if src_ok else f"a spanning-tree node is created for `{norm(indv) if indv is not None else '?'}`, which is not taken from self.individuals", construct="nbc:nodes"))
    cl = nbc.methods["cluster"]
    rets = [r for r in body_walk(cl.node) if isinstance(r, ast.Return)]
    ok = len(rets) == 1 and isinstance(rets[0].value, ast.ListComp) and norm(rets[0].value.elt).replace('"', "'") == f"{rets[0].value.generators[0].target.id}.data['individual']"
    obs.append(ctx.ob("R07.7", cl, rets[0] if rets else cl.node, status=OK if ok else VIOLATION, detail="cluster() returns the individuals stored in tree nodes" if ok else "cluster() no longer returns node.data['individual'] of spanning-tree nodes", construct="nbc:returns-nodes"))
    if n_create < 2:
        obs.append(ctx.ob("R07.7", nbc, nbc.node, status=INCONCLUSIVE, detail="fewer than 2 create_node sites", construct="nbc:create-sites"))
    return obs


def r07_8(ctx: Ctx):
    """R07.8 seeded population demes: pop_size - 1 sampled around the seed + one individual carrying the seed's genome; then evaluated and recorded."""
    obs = []
    found = 0
    for ci in ctx.concrete_demes():
        init = ci.methods.get("__init__")
        if init is None:
            continue
        sn = init.self_name()
        cps = [c for c in body_walk(init.node) if isinstance(c, ast.Call) and norm(c.func).endswith("create_population")]
        if len(cps) < 2:
            continue
        found += 1
        defs = local_defs(init)
        # branch on the seed
        ifs = [n for n in body_walk(init.node) if isinstance(n, ast.If) and "sprout_seed" in norm(n.test)]
        if len(ifs) != 1:
            obs.append(ctx.ob("R07.8", init, init.node, status=INCONCLUSIVE, detail=f"{ci.name}: cannot find the seeded / unseeded branch", construct=f"{ci.name}:branch"))
            continue
        br = ifs[0]
        t = norm(br.test)
        seeded = br.orelse if t.endswith("is None") else br.body if t.endswith("is not None") else None
        unseeded = br.body if t.endswith("is None") else br.orelse if t.endswith("is not None") else None
        if seeded is None:
            obs.append(ctx.ob("R07.8", init, br, status=INCONCLUSIVE, detail=f"{ci.name}: unrecognised seed test `{t}`", construct=f"{ci.name}:branch"))
            continue
        s_calls = [c for s in seeded for c in ast.walk(s) if isinstance(c, ast.Call) and norm(c.func).endswith("create_population")]
        u_calls = [c for s in unseeded for c in ast.walk(s) if isinstance(c, ast.Call) and norm(c.func).endswith("create_population")]
        ok_u = len(u_calls) == 1 and norm(u_calls[0].args[0]) == f"{sn}._pop_size"
        obs.append(ctx.ob("R07.8", init, u_calls[0] if u_calls else br, status=OK if ok_u else VIOLATION, detail=f"{ci.name}: unseeded population has pop_size individuals" if ok_u else f"{ci.name}: the unseeded population is created with size `{norm(u_calls[0].args[0]) if u_calls else '?'}`", construct=f"{ci.name}:unseeded-size"))
        ok_s = len(s_calls) == 1 and norm(s_calls[0].args[0]).replace(" ", "") == f"{sn}._pop_size-1"
        obs.append(ctx.ob("R07.8", init, s_calls[0] if s_calls else br, status=OK if ok_s else VIOLATION, detail=f"{ci.name}: seeded population samples pop_size - 1 individuals" if ok_s else f"{ci.name}: the seeded population samples `{norm(s_calls[0].args[0]) if s_calls else '?'}` individuals (pop_size - 1 expected)", construct=f"{ci.name}:seeded-size"))
        # the seed individual
        pop_names = [tt.id for s in seeded for n in ast.walk(s) if isinstance(n, ast.Assign) and s_calls and n.value is s_calls[0] for tt in n.targets if isinstance(tt, ast.Name)]
        appends = [c for s in seeded for c in ast.walk(s) if isinstance(c, ast.Call) and isinstance(c.func, ast.Attribute) and c.func.attr == "append" and pop_names and norm(c.func.value) == pop_names[0]]
        ok_app = False
        why = "the seed is not appended to the sampled population"
        if len(appends) == 1 and appends[0].args:
            a = appends[0].args[0]
            bdefs = {}
            for s in seeded:
                for n in ast.walk(s):
                    if isinstance(n, ast.Assign) and len(n.targets) == 1 and isinstance(n.targets[0], ast.Name):
                        bdefs.setdefault(n.targets[0].id, []).append(n.value)
            r = _resolve(a, bdefs)
            if isinstance(r, ast.Call) and norm(r.func).endswith("Individual") and r.args:
                g0 = _resolve(r.args[0], bdefs)
                if norm(g0).endswith("sprout_seed.genome"):
                    ok_app = True
                else:
                    why = f"the appended individual's genome is `{norm(g0)}`, not the seed's genome"
            elif norm(r).endswith("sprout_seed"):
                ok_app = True
        # the append must be unconditional within the seeded branch
        cond_app = appends and not any(isinstance(s, ast.Expr) and s.value is appends[0] for s in seeded)
        if ok_app and cond_app:
            ok_app, why = False, "the seed is appended only conditionally"
        obs.append(ctx.ob("R07.8", init, appends[0] if appends else br, status=OK if ok_app else VIOLATION, detail=f"{ci.name}: the initial population contains the sprout seed" if ok_app else f"{ci.name}: {why}", construct=f"{ci.name}:seed-appended"))
        # sampled around the seed
        if s_calls:
            ini = _kw(s_calls[0], "initialize")
            okc = isinstance(ini, ast.Call) and norm(ini.func) == "sample_normal" and ini.args and norm(_resolve(ini.args[0], bdefs if 'bdefs' in dir() else {})).endswith("sprout_seed.genome")
            obs.append(ctx.ob("R07.8", init, ini if ini is not None else s_calls[0], status=OK if okc else VIOLATION, detail=f"{ci.name}: sampled around the seed's genome" if okc else f"{ci.name}: the seeded population is not sampled around the seed (`{norm(ini) if ini is not None else '?'}`)", construct=f"{ci.name}:centre"))
    if found < 3:
        raise AnalysisError(f"only {found} population demes with seeded construction found (EA, DE, SHADE confirmed by hand)")
    return obs


RULES = [
    ("R07.1", r07_1, 9),
    ("R07.2", r07_2, 4),
    ("R07.3", r07_3, 9),
    ("R07.4", r07_4, 8),
    ("R07.5", r07_5, 6),
    ("R07.6", r07_6, 4),
    ("R07.7", r07_7, 8),
    ("R07.8", r07_8, 12),
]
