"""C07 — the demes always form a well-formed tree; sprout seeds come from the parent."""
from __future__ import annotations

import ast
import re

from ..core import INCONCLUSIVE, OK, VIOLATION, Ctx, bool_equiv, canon, cond_is, eval_under, is_self_attr, local_defs
from ..model import AnalysisError, body_walk, norm
from .common import calls_method

CLAIM = """Decides the construction discipline that makes the tree well formed for every run: (R07.1) in _do_sprout the child is
built with level = parent.level + 1, the config of that level, started_at = the tree's current metaepoch, the loop's
candidate as seed, the keyed deme as parent and the tree's random seed, and is registered both in parent.children and in
levels[level] on every path; (R07.2) the id suffix is the current size of the target level and an append to that level
separates two id computations (ids strictly increase), non-root ids carry the parent's id as prefix; (R07.3) the config ->
engine table covers every level-config class, maps to concrete demes whose constructor declares that config type, and is
indexed by type(config); (R07.4) identity fields (_id, _level, _started_at, _sprout_seed) are written once from the init
args, children/levels only grow by append at the tabled sites; (R07.5) the root is built from levels[0] with id 'root',
level 0, metaepoch 0, no seed, once; (R07.6) parents on the last level are refused and generators never offer them;
(R07.7) generator candidates have provenance current_population / best_current_individual of the keyed deme (NBC: the
clustering returns a subset of its constructor argument — checked as its own obligation); (R07.8) seeded SEA/DE/SHADE
constructors sample pop_size - 1 individuals and append one whose genome is the seed's. (R07.9) filters only shrink a parent's candidate list, so a candidate stays under the deme that proposed it; the seeded population is not cut after the seed joined it; nothing writes into the process-wide config -> engine registry. (R07.10) the tree's metaepoch counter is written only by __init__ / run_step, so start metaepochs stay consistent across several run() calls."""
NOTE = """User-composed sprout mechanisms and custom deme classes registered through the config live outside pyhms. Filters
only removing candidates is C10's R10.2."""
TECHNIQUE = "def-use / argument-agreement analysis, who-may-write tables and registry exhaustiveness over the ast program model"
EXPLANATION = """
Every obligation is a def-use or who-may-write fact about the construction sites: the keyword arguments of the two
init_from_config calls are resolved through local definitions to the expressions named in the claim; stores to the identity
fields and mutations of `_children` / `_levels` are enumerated over all of pyhms; the registry CONFIG_CLASS_TO_DEME_CLASS
is compared with the subclasses of BaseLevelConfig and with the annotated config type each deme constructor declares.
"""
ASSUMPTIONS = ["demes are created only through init_from_config from DemeTree.__init__/_do_sprout (C05 R05.5)"]


def _kw(call: ast.Call, name: str):
    return next((k.value for k in call.keywords if k.arg == name), None)


def _resolve(e, defs):
    """Follow a local name with a single definition."""
    seen = 0
    while isinstance(e, ast.Name) and e.id in defs and len(defs[e.id]) == 1 and seen < 5 and not isinstance(defs[e.id][0], ast.AugAssign):
        e = defs[e.id][0]
        seen += 1
    return e


def r07_1(ctx: Ctx):
    """R07.1 argument agreement and double registration in _do_sprout."""
    f = ctx.prog.own_method("DemeTree", "_do_sprout")
    selfn = f.self_name()
    seeds_p = f.params()[1]
    defs = local_defs(f)
    obs = []
    calls = [c for c in body_walk(f.node) if isinstance(c, ast.Call) and norm(c.func) == "init_from_config"]
    if len(calls) != 1:
        raise AnalysisError(f"_do_sprout contains {len(calls)} init_from_config calls (1 confirmed by hand)")
    call = calls[0]
    # loops: for deme, cands in seeds.items(): ... for ind in cands.individuals:
    # normalised form: for deme in seeds.keys(): ... for ind in seeds[deme].individuals:
    outer = [n for n in body_walk(f.node) if isinstance(n, ast.For) and norm(n.iter) in (f"{seeds_p}.keys()", seeds_p) and isinstance(n.target, ast.Name)]
    if len(outer) != 1:
        return [ctx.ob("R07.1", f, f.node, status=INCONCLUSIVE, detail="cannot find the loop over the parents of the seeds mapping", construct="outer-loop")]
    deme_v = outer[0].target.id
    cand_v = f"{seeds_p}[{deme_v}]"
    def _cand_loop(n):
        """(loop variable holding the candidate) if `n` iterates exactly the keyed deme's candidates, else None"""
        it, tg = n.iter, n.target
        if isinstance(it, ast.Call) and norm(it.func) == "enumerate" and it.args and isinstance(tg, ast.Tuple) and len(tg.elts) == 2 and isinstance(tg.elts[1], ast.Name):
            it, tg = it.args[0], tg.elts[1]
        if isinstance(tg, ast.Name) and canon(it, defs) == f"{cand_v}.individuals":
            return tg.id
        return None

    inner = [n for n in ast.walk(outer[0]) if isinstance(n, ast.For) and n is not outer[0] and _cand_loop(n) is not None]
    if len(inner) != 1 or not any(x is call for x in ast.walk(inner[0])):
        encl = [n for n in ast.walk(outer[0]) if isinstance(n, ast.For) and n is not outer[0] and any(x is call for x in ast.walk(n))]
        if encl:
            it_ = encl[0].iter.args[0] if isinstance(encl[0].iter, ast.Call) and norm(encl[0].iter.func) == "enumerate" and encl[0].iter.args else encl[0].iter
            partial = isinstance(it_, ast.Subscript) and isinstance(it_.slice, ast.Slice) and ".individuals" in canon(it_.value, defs)
            filtered = isinstance(it_, (ast.ListComp, ast.GeneratorExp)) and any(g.ifs for g in it_.generators)
            doubled = isinstance(it_, ast.BinOp) and ".individuals" in canon(it_, defs)
            return [ctx.ob("R07.1", f, encl[0], status=VIOLATION if (partial or filtered or doubled) else INCONCLUSIVE, detail=f"children are created while iterating `{norm(encl[0].iter)}`, not exactly the accepted candidates `{cand_v}.individuals` of the keyed deme (a candidate can be sprouted twice or skipped)", construct="one-per-candidate")]
        return [ctx.ob("R07.1", f, call, status=INCONCLUSIVE, detail="child construction is not inside `for ind in candidates.individuals`", construct="inner-loop")]
    ind_v = _cand_loop(inner[0])
    # exactly one child per candidate: the call is not inside a further loop
    deeper = [n for n in ast.walk(inner[0]) if isinstance(n, (ast.For, ast.While)) and n is not inner[0] and any(x is call for x in ast.walk(n))]
    obs.append(ctx.ob("R07.1", f, call, status=VIOLATION if deeper else OK, detail="one child per accepted candidate" if not deeper else "several children can be created per candidate (construction inside a nested loop)", construct="one-per-candidate"))

    def check(kw, want_desc, pred):
        v = _kw(call, kw)
        if v is None:
            obs.append(ctx.ob("R07.1", f, call, status=VIOLATION, detail=f"init_from_config is called without `{kw}=`", construct=f"kw:{kw}"))
            return None
        r = _resolve(v, defs)
        ok = pred(v, r)
        wrong = (not ok) and (definite.get(kw, lambda v_, r_: False)(v, r) or _distorted(r))
        obs.append(ctx.ob("R07.1", f, v, status=OK if ok else VIOLATION if wrong else INCONCLUSIVE, detail=f"{kw} = {want_desc}" if ok else f"child built with {kw}=`{norm(r)[:80]}`; expected {want_desc}", construct=f"kw:{kw}"))
        return v

    def _distorted(r):
        """arithmetic around a value, a conditional that can yield a constant, or a copy (clone / copy / deepcopy) of a value:
        whatever the operand is, the argument is not that operand itself"""
        if isinstance(r, ast.BinOp) and any(isinstance(x, ast.Constant) and isinstance(x.value, (int, float)) for x in (r.left, r.right)):
            return True
        if isinstance(r, ast.BinOp) and any(isinstance(x, ast.IfExp) for x in (r.left, r.right)):
            return True
        if isinstance(r, ast.IfExp) and any(isinstance(x, ast.Constant) for x in (r.body, r.orelse)):
            return True
        if isinstance(r, ast.Call) and (norm(r.func).split(".")[-1] in ("clone", "copy", "deepcopy", "__copy__")):
            return True
        return False

    # positive evidence of a wrong argument (anything else that is not recognised is left undecided)
    definite = {
        "target_level": lambda v, r: isinstance(r, ast.Constant) or re.fullmatch(re.escape(deme_v) + r"\.(_?level)([-+]\d+)?", canon(v, defs)) is not None,
        "config": lambda v, r: isinstance(r, ast.Constant) or canon(v, defs).startswith(f"{selfn}.config.levels["),
        # the tree's counter combined with another quantity of the run (`counter - parent.started_at`): a different number
        # whenever that quantity is not zero
        "metaepoch_count": lambda v, r: isinstance(r, ast.Constant) or (isinstance(r, ast.BinOp) and isinstance(r.op, (ast.Add, ast.Sub)) and any(canon(x) == f"{selfn}.metaepoch_count" for x in (r.left, r.right)) and any(isinstance(y, ast.Attribute) and y.attr in ("started_at", "_started_at", "metaepoch_count", "level", "_level", "height") for x in (r.left, r.right) if canon(x) != f"{selfn}.metaepoch_count" for y in ast.walk(x))),
        "sprout_seed": lambda v, r: isinstance(r, (ast.Constant, ast.Name, ast.Attribute, ast.Subscript)),
        "parent_deme": lambda v, r: isinstance(r, (ast.Constant, ast.Name, ast.Attribute, ast.Subscript)),
        "new_id": lambda v, r: isinstance(r, ast.Constant) or (isinstance(r, ast.Call) and norm(r.func) == f"{selfn}._next_child_id"),
        "config_class_to_deme_class": lambda v, r: isinstance(r, (ast.Constant, ast.Dict)),
    }

    lvl = check("target_level", "parent.level + 1", lambda v, r: canon(v, defs) == f"{deme_v}.level+1")
    lvl_txt = norm(lvl) if lvl is not None else None
    check("config", "config.levels[child level]", lambda v, r: canon(v, defs) == f"{selfn}.config.levels[{deme_v}.level+1]")
    check("metaepoch_count", "the tree's current metaepoch", lambda v, r: norm(r) == f"{selfn}.metaepoch_count")
    check("sprout_seed", "the accepted candidate", lambda v, r: norm(v) == ind_v)
    check("parent_deme", "the deme the candidate was taken from", lambda v, r: norm(v) == deme_v)
    check("new_id", "the next child id of the parent", lambda v, r: isinstance(r, ast.Call) and norm(r.func) == f"{selfn}._next_child_id" and [norm(a) for a in r.args] == [deme_v])
    check("config_class_to_deme_class", "the tree's registry", lambda v, r: norm(r) == f"{selfn}.config.config_class_to_deme_class")
    # registration
    child_names = [t.id for n in body_walk(f.node) if isinstance(n, ast.Assign) and n.value is call for t in n.targets if isinstance(t, ast.Name)]
    if len(child_names) != 1:
        obs.append(ctx.ob("R07.1", f, call, status=INCONCLUSIVE, detail="the created deme is not bound to a single local", construct="child-binding"))
        return obs
    ch = child_names[0]
    body = inner[0].body
    top = []
    nonnull_guards = []
    for s in body:
        # `if <parent> is not None: <parent>.add_child(child)` (a creation helper shared with the root, inlined): the parent is
        # the loop's own deme here, never None
        if isinstance(s, ast.If) and not s.orelse and canon(s.test) in (f"{deme_v}isnotNone", deme_v, f"{deme_v}!=None"):
            top.extend(s.body)
            nonnull_guards.append(s.test)
        else:
            top.append(s)
    add = [s for s in top if isinstance(s, ast.Expr) and isinstance(s.value, ast.Call) and norm(s.value.func) == f"{deme_v}.add_child" and [norm(a) for a in s.value.args] == [ch]]
    app = [s for s in top if isinstance(s, ast.Expr) and isinstance(s.value, ast.Call) and isinstance(s.value.func, ast.Attribute) and s.value.func.attr == "append" and [norm(a) for a in s.value.args] == [ch] and canon(s.value.func.value, defs) in (f"{selfn}._levels[{deme_v}.level+1]", f"{selfn}.levels[{deme_v}.level+1]")]
    all_add = [c for c in ast.walk(inner[0]) if isinstance(c, ast.Call) and isinstance(c.func, ast.Attribute) and c.func.attr == "add_child"]
    all_app = [c for c in ast.walk(inner[0]) if isinstance(c, ast.Call) and isinstance(c.func, ast.Attribute) and c.func.attr == "append" and ("_levels" in canon(c.func.value, defs) or canon(c.func.value, defs).startswith(f"{selfn}.levels"))]
    obs.append(ctx.ob("R07.1", f, add[0] if add else call, status=OK if (len(add) == 1 and len(all_add) == 1) else VIOLATION, detail="child registered with its parent (unconditionally, once)" if (len(add) == 1 and len(all_add) == 1) else f"the child is not added exactly once, unconditionally, to `{deme_v}`'s children ({[norm(c) for c in all_add]})", construct="register-parent"))
    # both registrations happen on every path that leaves the construction (no early return / break / continue in between)
    if len(add) == 1 and len(app) == 1:
        cfg = ctx.cfg(f)
        cnode = next((x for x in cfg.nodes if x.ast is not None and any(y is call for y in ast.walk(x.ast))), None)
        anode = next((x for x in cfg.nodes if x.kind == "stmt" and x.ast is add[0]), None)
        pnode = next((x for x in cfg.nodes if x.kind == "stmt" and x.ast is app[0]), None)
        L = cfg.loop_of(cnode) if cnode is not None else None
        targets = [cfg.exit] + ([L["head"]] if L is not None else [])
        for reg, what in ((anode, "added to its parent's children"), (pnode, "appended to its level")):
            if cnode is None or reg is None:
                continue
            leak = None
            for tgt in targets:
                # (the false edge of a `parent is not None` guard is not a path: the parent is the loop's deme)
                pth = cfg.find_path(cnode, tgt, avoid=lambda x, reg=reg: x is reg or (x.kind == "cond" and x.ast is not None and any(canon(x.ast) == canon(g_) or canon(x.ast) in canon(g_) for g_ in nonnull_guards)))
                if pth is not None and len(pth) > 1:
                    leak = pth
                    break
            if leak is not None:
                obs.append(ctx.ob("R07.1", f, reg.stmt, status=VIOLATION, detail=f"on some path a freshly created child is not {what} (the step is left between the construction and the registration): the tree's levels and the parent / child links disagree", witness=[f"L{x.lineno}: {x.label[:70]}" for x in leak], construct="register-all-paths:" + what.split()[0]))
    obs.append(ctx.ob("R07.1", f, app[0] if app else call, status=OK if (len(app) == 1 and len(all_app) == 1) else VIOLATION, detail="child appended to levels[child level] (unconditionally, once)" if (len(app) == 1 and len(all_app) == 1) else f"the child is not appended exactly once, unconditionally, to levels[{lvl_txt}] ({[norm(c) for c in all_app]})", construct="register-level"))
    return obs


def _string_pieces(v, defs, depth=0):
    """A string-valued expression as a sequence of ('lit', text) / ('expr', node) pieces: f-strings, `+` concatenation,
    str(x), 'sep'.join([..]), '{}..{}'.format(..).  None if the form is not understood."""
    if depth > 6:
        return None
    v = _resolve(v, defs)
    if isinstance(v, ast.Constant) and isinstance(v.value, str):
        return [("lit", v.value)]
    if isinstance(v, ast.JoinedStr):
        out = []
        for x in v.values:
            if isinstance(x, ast.Constant):
                out.append(("lit", str(x.value)))
            elif isinstance(x, ast.FormattedValue) and x.format_spec is None and x.conversion in (-1, 115):
                out.append(("expr", x.value))
            else:
                return None
        return out
    if isinstance(v, ast.Call) and norm(v.func) == "str" and len(v.args) == 1 and not v.keywords:
        return [("expr", v.args[0])]
    if isinstance(v, ast.BinOp) and isinstance(v.op, ast.Add):
        a, b = _string_pieces(v.left, defs, depth + 1), _string_pieces(v.right, defs, depth + 1)
        return None if a is None or b is None else a + b
    if isinstance(v, ast.Call) and isinstance(v.func, ast.Attribute) and v.func.attr == "join" and isinstance(v.func.value, ast.Constant) and isinstance(v.func.value.value, str) and len(v.args) == 1 and isinstance(v.args[0], (ast.List, ast.Tuple)):
        out = []
        for k, el in enumerate(v.args[0].elts):
            p_ = _string_pieces(el, defs, depth + 1)
            if p_ is None:
                return None
            if k:
                out.append(("lit", v.func.value.value))
            out += p_
        return out
    if isinstance(v, ast.Call) and isinstance(v.func, ast.Attribute) and v.func.attr == "format" and isinstance(v.func.value, ast.Constant) and isinstance(v.func.value.value, str) and not v.keywords:
        chunks = v.func.value.value.split("{}")
        if len(chunks) != len(v.args) + 1 or any("{" in c or "}" in c for c in chunks):
            return None
        out = []
        for k, c in enumerate(chunks):
            if c:
                out.append(("lit", c))
            if k < len(v.args):
                out.append(("expr", v.args[k]))
        return out
    if isinstance(v, (ast.Attribute, ast.Name)):
        return [("expr", v)]
    return None


def r07_2(ctx: Ctx):
    """R07.2 ids: suffix = size of the target level, an append separates two computations, non-root ids are prefixed by the parent's id."""
    f = ctx.prog.own_method("DemeTree", "_next_child_id")
    selfn = f.self_name()
    d = f.params()[1]
    defs = local_defs(f)
    obs = []
    rets0 = [r for r in body_walk(f.node) if isinstance(r, ast.Return)]
    rets = []
    root_test_ifexp = None
    for r in rets0:
        if isinstance(r.value, ast.IfExp):
            root_test_ifexp = r.value.test
            for arm in (r.value.body, r.value.orelse):
                rr = ast.Return(value=arm)
                ast.copy_location(rr, r)
                rets.append(rr)
        else:
            rets.append(r)
    suffix_ok = True
    root_branch = prefixed = False
    unknown_shape = False
    want_sfx = (f"len({selfn}._levels[{d}.level+1])", f"len({selfn}.levels[{d}.level+1])")
    for r in rets:
        v = r.value
        pieces = _string_pieces(v, defs)
        if pieces is None:
            unknown_shape = True
            suffix_ok = False
            obs.append(ctx.ob("R07.2", f, r, status=INCONCLUSIVE, detail=f"cannot take the child id `{norm(v)[:80]}` apart into prefix and suffix"))
            continue
        pieces = [(k, (x.args[0] if k == "expr" and isinstance(x, ast.Call) and norm(x.func) == "str" and len(x.args) == 1 and not x.keywords else x)) for k, x in pieces]
        exprs = [x for k, x in pieces if k == "expr"]
        lits = "".join(x for k, x in pieces if k == "lit")
        sfx = None
        if len(exprs) == 2 and canon(exprs[0], defs) == f"{d}.id" and "/" in lits and pieces[0][0] == "expr":
            prefixed = True
            sfx = exprs[1]
        elif len(exprs) == 1 and not lits:
            root_branch = True
            sfx = exprs[0]
        st_s = canon(sfx, defs) if sfx is not None else None
        if st_s not in want_sfx:
            suffix_ok = False
            definite = st_s is not None and (re.fullmatch(r"len\(.*\)|\d+|.*\.(metaepoch_count|level)", st_s) is not None)
            if not definite:
                unknown_shape = True
            obs.append(ctx.ob("R07.2", f, r, status=VIOLATION if definite else INCONCLUSIVE, detail=f"child id `{norm(v)[:80]}` is not built from the size of the target level (ids on a level could repeat)" if definite else f"cannot tell whether the suffix of `{norm(v)[:80]}` is the size of the target level"))
    if suffix_ok:
        obs.append(ctx.ob("R07.2", f, f.node, detail="id suffix = len(levels[parent.level + 1])", construct="suffix"))
    obs.append(ctx.ob("R07.2", f, f.node, status=OK if (root_branch and prefixed) else INCONCLUSIVE if unknown_shape else VIOLATION, detail="root children get the bare suffix, deeper demes `<parent id>/<suffix>`" if (root_branch and prefixed) else "non-root ids are no longer prefixed with the parent's id (or the root case is missing)", construct="prefix"))
    # root test
    tests = [n.test for n in body_walk(f.node) if isinstance(n, ast.If)] + ([root_test_ifexp] if root_test_ifexp is not None else [])
    ok_root = any(norm(t).replace('"', "'") == f"{d}.id == 'root'" for t in tests)
    obs.append(ctx.ob("R07.2", f, f.node, status=OK if ok_root else INCONCLUSIVE, detail="prefix omitted exactly for children of 'root'" if ok_root else "cannot recognise the root test", construct="root-test"))
    # in _do_sprout: an append to the level follows each id computation within the same iteration (checked by R07.1 register-level)
    g = ctx.prog.own_method("DemeTree", "_do_sprout")
    inner_calls = [c for c in body_walk(g.node) if isinstance(c, ast.Call) and norm(c.func) == f"{g.self_name()}._next_child_id"]
    ok = len(inner_calls) == 1
    why = f"{len(inner_calls)} id computations in _do_sprout"
    from .common import private_closure

    behind = private_closure(ctx, {g.qualname})
    helper_calls = [cs for cs in ctx.res.callers_of(f) if cs.caller is not g and cs.caller.qualname in behind]
    if not inner_calls and helper_calls:
        # the ids are computed in a private helper that only _do_sprout drives (e.g. a generator producing the children)
        obs.append(ctx.ob("R07.2", helper_calls[0].caller, helper_calls[0].node, status=INCONCLUSIVE, detail=f"the child ids are computed in {helper_calls[0].caller.short}, which only _do_sprout calls: whether each id is computed after the previous child was registered is not followed into the helper", construct="one-id-per-child"))
        return obs
    if ok:
        # the id must be computed inside the innermost loop that creates the child (once per child, after the previous append)
        create = [c for c in body_walk(g.node) if isinstance(c, ast.Call) and norm(c.func) == "init_from_config"]
        loops = [n for n in body_walk(g.node) if isinstance(n, (ast.For, ast.While)) and create and any(x is create[0] for x in ast.walk(n))]
        innermost = min(loops, key=lambda n: sum(1 for _ in ast.walk(n))) if loops else None
        if innermost is None or not any(x is inner_calls[0] for x in ast.walk(innermost)):
            ok = False
            why = "the child id is computed outside the loop that creates the children: every child sprouted from one parent in a round gets the same id"
    if not inner_calls:
        # the ids are built some other way (inline, from a running count ...): R07.1 reads the `new_id` argument itself
        obs.append(ctx.ob("R07.2", g, g.node, status=INCONCLUSIVE, detail="_do_sprout does not obtain the child ids from _next_child_id: how they are built is judged on the `new_id` argument (R07.1)", construct="one-id-per-child"))
        return obs
    obs.append(ctx.ob("R07.2", g, inner_calls[0] if inner_calls else g.node, status=OK if ok else VIOLATION, detail="one id computation per created child, followed by the append to the level (R07.1)" if ok else why, construct="one-id-per-child"))
    others = [cs for cs in ctx.res.callers_of(f) if cs.caller is not g and cs.caller.qualname not in behind]
    if others:
        obs.append(ctx.ob("R07.2", others[0].caller, others[0].node, status=VIOLATION, detail="_next_child_id is used outside _do_sprout"))
    return obs


def r07_3(ctx: Ctx):
    """R07.3 the config -> engine registry is exhaustive, consistent with each engine's declared config type, and indexed by type(config)."""
    P = ctx.prog
    mod = P.modules.get("pyhms.demes.initialize")
    if mod is None or "CONFIG_CLASS_TO_DEME_CLASS" not in mod.globals_:
        raise AnalysisError("CONFIG_CLASS_TO_DEME_CLASS registry vanished")
    st = mod.globals_["CONFIG_CLASS_TO_DEME_CLASS"]
    d = st.value
    if not isinstance(d, ast.Dict):
        return [ctx.ob("R07.3", None, None, subject="demes.initialize", loc=f"{mod.relpath}:{st.lineno}", status=INCONCLUSIVE, detail="registry is not a dict literal", construct="registry")]
    obs = []
    base_cfg = P.cls("BaseLevelConfig")
    base_deme = P.cls("AbstractDeme")
    mapping = {}
    for k, v in zip(d.keys, d.values):
        kc = P.resolve_class_expr(k, mod)
        vc = P.resolve_class_expr(v, mod)
        if kc is None or vc is None:
            obs.append(ctx.ob("R07.3", None, None, subject="demes.initialize.CONFIG_CLASS_TO_DEME_CLASS", loc=f"{mod.relpath}:{k.lineno}", status=INCONCLUSIVE, detail=f"cannot resolve registry entry {norm(k)}: {norm(v)}", construct=f"entry:{norm(k)}"))
            continue
        mapping[kc.qualname] = vc
        ok = P.is_subclass(kc, base_cfg) and P.is_subclass(vc, base_deme) and not P.is_abstract_class(vc)
        # the engine declares this config type
        init = P.lookup_method(vc, "__init__")
        declared = None
        if init is not None:
            for n in body_walk(init.node):
                if isinstance(n, ast.AnnAssign) and isinstance(n.target, ast.Name) and n.target.id == "config":
                    declared = P.resolve_class_expr(n.annotation, init.module)
        agree = declared is None or declared is kc
        if declared is None:
            obs.append(ctx.ob("R07.3", vc, vc.node, status=INCONCLUSIVE, detail=f"{vc.name}.__init__ does not declare its config type", construct=f"entry:{kc.name}"))
        else:
            obs.append(ctx.ob("R07.3", vc, k, status=OK if (ok and agree) else VIOLATION, detail=f"{kc.name} -> {vc.name} (declares config: {declared.name})" if (ok and agree) else f"registry maps {kc.name} to {vc.name}, whose constructor declares config: {declared.name}", construct=f"entry:{kc.name}"))
    for sc in P.subclasses(base_cfg):
        if sc.qualname not in mapping:
            obs.append(ctx.ob("R07.3", sc, sc.node, status=VIOLATION, detail=f"level config class {sc.name} has no engine in CONFIG_CLASS_TO_DEME_CLASS", construct=f"missing:{sc.name}"))
    f = P.func("pyhms.demes.initialize", "init_from_config")
    defs = local_defs(f)
    keys = (f"type({f.params()[0]})", f"{f.params()[0]}.__class__")
    idx = [n for n in body_walk(f.node) if isinstance(n, ast.Subscript) and canon(n.slice, defs) in keys]
    tables = [n.value for n in idx]
    for n in body_walk(f.node):
        if isinstance(n, ast.Call) and isinstance(n.func, ast.Attribute) and n.func.attr == "get" and n.args and canon(n.args[0], defs) in keys:
            idx.append(n)
            tables.append(n.func.value)
    isinst = [c for c in body_walk(f.node) if isinstance(c, ast.Call) and norm(c.func) in ("isinstance", "issubclass") and c.args and canon(c.args[0], defs) in (f.params()[0], f"type({f.params()[0]})")]
    if not idx and isinst:
        st = VIOLATION  # first isinstance match in table order instead of the exact config class
    elif not idx:
        st = INCONCLUSIVE
    else:
        tts = [canon(t_, defs) for t_ in tables]
        tt = tts[0]
        if any("CONFIG_CLASS_TO_DEME_CLASS" in t_ for t_ in tts):
            st = OK
        elif tt == f.params()[-1] or tt in f.params():
            st = VIOLATION  # only the user's table is consulted
        else:
            st = INCONCLUSIVE
    obs.append(ctx.ob("R07.3", f, idx[0] if idx else f.node, status=st, detail="engine class = registry[type(config)]" if st == OK else ("the engine is chosen by the first isinstance() match in table order, not by the exact class of the level config (a derived config class gets its base class's engine)" if (not idx and isinst) else "the engine is not looked up by type(config) in a table containing the built-in registry") if st == VIOLATION else "cannot find the registry lookup by type(config)", construct="lookup"))
    # the built-in registry is process-wide: a run that writes into it decides the engines of every later tree
    MUTS = ("setdefault", "update", "pop", "popitem", "clear", "__setitem__", "__delitem__")
    wr = None
    for g in P.all_functions():
        for n in body_walk(g.node):
            tgt = None
            if isinstance(n, ast.Call) and isinstance(n.func, ast.Attribute) and n.func.attr in MUTS:
                tgt = n.func.value
            elif isinstance(n, (ast.Assign, ast.AugAssign, ast.Delete)):
                for t_ in (n.targets if isinstance(n, (ast.Assign, ast.Delete)) else [n.target]):
                    if isinstance(t_, ast.Subscript):
                        tgt = t_.value
                    elif isinstance(n, ast.AugAssign):
                        tgt = t_
            if tgt is not None and norm(tgt).split(".")[-1] == "CONFIG_CLASS_TO_DEME_CLASS" and g.name != "<module>" and wr is None:
                wr = (g, n)
    if wr is not None:
        obs.append(ctx.ob("R07.3", wr[0], wr[1], status=VIOLATION, detail=f"{wr[0].short} writes into the process-wide registry (`{norm(wr[1])[:80]}`): one tree's custom config -> engine mapping stays registered for every later tree, whose demes are then not of the engine ITS configuration names", construct="registry-written"))
    else:
        obs.append(ctx.ob("R07.3", f, f.node, detail="nothing in pyhms writes into the built-in registry; custom mappings are merged per call", construct="registry-read-only"))
    # the looked-up class is instantiated with the init args built from the parameters
    dia = [c for c in body_walk(f.node) if isinstance(c, ast.Call) and norm(c.func) == "DemeInitArgs"]
    if len(dia) != 1:
        obs.append(ctx.ob("R07.3", f, f.node, status=INCONCLUSIVE, detail="DemeInitArgs construction not found", construct="init-args"))
    else:
        want = {"id": "new_id", "level": "target_level", "config": "config", "started_at": "metaepoch_count", "sprout_seed": "sprout_seed", "random_seed": "random_seed", "parent_deme": "parent_deme"}
        from .common import ctor_arguments

        amap = ctor_arguments(ctx, dia[0], "DemeInitArgs")
        got = {k: canon(v_, defs) for k, v_ in (amap or {}).items()}
        bad = {k: got.get(k) for k, v in want.items() if got.get(k) != v}
        # positive evidence: a field receives another parameter / a constant, or is missing from a fully keyworded call
        def _dist(e):
            return isinstance(e, ast.BinOp) or (isinstance(e, ast.IfExp) and any(isinstance(x, ast.Constant) for x in (e.body, e.orelse))) or (isinstance(e, ast.Call) and norm(e.func).split(".")[-1] in ("clone", "copy", "deepcopy"))

        wrong = amap is not None and any(got.get(k) is None or got.get(k) in f.params() or isinstance((amap or {}).get(k), ast.Constant) or _dist((amap or {}).get(k)) for k in bad)
        obs.append(ctx.ob("R07.3", f, dia[0], status=OK if not bad else VIOLATION if wrong else INCONCLUSIVE, detail="init args carry id/level/config/started_at/seed/parent/random_seed unchanged" if not bad else f"init args are rewired: {bad}", construct="init-args"))
    return obs


def r07_4(ctx: Ctx):
    """R07.4 identity fields are written once from the init args; `_children` and `_levels` only grow by append at the tabled sites."""
    P = ctx.prog
    base = P.cls("AbstractDeme")
    init = base.methods["__init__"]
    tree = P.cls("DemeTree")
    obs = []
    want_src = {"_id": "id", "_level": "level", "_started_at": "started_at", "_sprout_seed": "sprout_seed"}
    for f in P.all_functions():
        if f.name == "<module>":
            continue
        for n in body_walk(f.node):
            tg = n.targets if isinstance(n, ast.Assign) else [n.target] if isinstance(n, (ast.AugAssign, ast.AnnAssign)) else n.targets if isinstance(n, ast.Delete) else []
            for t in tg:
                for sub in ast.walk(t):
                    if isinstance(sub, ast.Attribute) and isinstance(sub.ctx, (ast.Store, ast.Del)) and sub.attr in want_src:
                        bt = ctx.res.type_of(sub.value, f)
                        is_deme = bt is None or any(x[0] == "inst" and P.classes.get(x[1]) is not None and P.is_subclass(P.classes[x[1]], base) for x in ([bt] if bt[0] != "union" else bt[1]))
                        if not is_deme:
                            continue
                        v = getattr(n, "value", None)
                        in_init = f.cls is not None and P.is_subclass(f.cls, base) and f.name == "__init__" and is_self_attr(sub, None, f.self_name())
                        ok = in_init and isinstance(v, ast.Attribute) and v.attr == want_src[sub.attr] and isinstance(v.value, ast.Name) and v.value.id in f.params()
                        obs.append(ctx.ob("R07.4", f, n, status=OK if ok else VIOLATION, detail=f"{sub.attr} set once from the init args" if ok else f"identity field `{sub.attr}` is written by `{norm(n)}` in {f.short}"))
            # container mutations
            if isinstance(n, ast.Call) and isinstance(n.func, ast.Attribute):
                holder = n.func.value
                while isinstance(holder, ast.Subscript):
                    holder = holder.value
                if isinstance(holder, ast.Name) and n.func.attr in ("append", "extend", "insert", "pop", "remove", "clear", "sort", "reverse"):
                    src = ctx.eff._alias_source(f, holder.id)
                    if src is not None and src.rsplit(".", 1)[-1] in ("_levels", "levels", "leaves", "_children", "children"):
                        adefs = local_defs(f).get(holder.id, [])
                        one_level = len(adefs) == 1 and isinstance(adefs[0], ast.Subscript) and not isinstance(adefs[0].slice, ast.Slice) and isinstance(adefs[0].value, ast.Attribute) and adefs[0].value.attr == "_levels" and is_self_attr(adefs[0].value, "_levels", f.self_name() or "self") and holder is n.func.value
                        whole = len(adefs) == 1 and isinstance(adefs[0], ast.Attribute) and is_self_attr(adefs[0], "_levels", f.self_name() or "self") and isinstance(n.func.value, ast.Subscript) and not isinstance(n.func.value.slice, ast.Slice) and n.func.value.value is holder
                        if (one_level or whole) and f.cls is tree and f.name in ("__init__", "_do_sprout") and n.func.attr == "append":
                            # a local name for one level's list: the same tabled growth site as self._levels[k].append(child)
                            obs.append(ctx.ob("R07.4", f, n, detail="a level grows by append in DemeTree.__init__/_do_sprout (through a local name for that level's list)"))
                            continue
                        obs.append(ctx.ob("R07.4", f, n, status=VIOLATION, detail=f"`{norm(n)}` mutates `{src}` through the alias `{holder.id}` in {f.short}"))
                        continue
                if isinstance(holder, ast.Attribute) and holder.attr in ("_children", "children") and n.func.attr in ("append", "extend", "insert", "pop", "remove", "clear", "sort", "reverse"):
                    ok = f.cls is base and f.name == "add_child" and n.func.attr == "append" and is_self_attr(holder, "_children", f.self_name())
                    obs.append(ctx.ob("R07.4", f, n, status=OK if ok else VIOLATION, detail="children grow only through add_child" if ok else f"`{norm(n)}` changes a deme's children outside add_child"))
                if isinstance(holder, ast.Attribute) and holder.attr in ("_levels", "levels", "leaves") and n.func.attr in ("append", "extend", "insert", "pop", "remove", "clear", "sort", "reverse"):
                    bt = ctx.res.type_of(holder.value, f)
                    is_tree = bt is None or any(x[0] == "inst" and x[1] == tree.qualname for x in ([bt] if bt[0] != "union" else bt[1]))
                    if not is_tree:
                        continue
                    ok = f.cls is tree and f.name in ("__init__", "_do_sprout") and n.func.attr == "append" and holder.attr == "_levels" and holder is not n.func.value
                    in_hook = any(h in f.qualname.split(".") for h in ("__setstate__", "__getstate__", "__reduce__", "__deepcopy__"))
                    obs.append(ctx.ob("R07.4", f, n, status=OK if ok else INCONCLUSIVE if in_hook else VIOLATION, detail="a level grows by append in DemeTree.__init__/_do_sprout" if ok else f"`{norm(n)}` restructures the tree's levels in {f.short}" + (" (snapshot reconstruction code: not analysed)" if in_hook else "")))
            for t in tg:
                base_t = t
                while isinstance(base_t, ast.Subscript):
                    base_t = base_t.value
                if isinstance(base_t, ast.Attribute) and base_t.attr in ("_levels", "_children") and isinstance(n, (ast.Assign, ast.AnnAssign, ast.AugAssign, ast.Delete)):
                    if base_t.attr == "_levels" and f.cls is tree and f.name == "__init__" and t is base_t:
                        ok = isinstance(n.value, ast.ListComp) and isinstance(n.value.elt, ast.List) and not n.value.elt.elts
                        # positive evidence of a wrong start: one list object shared by every level (`[[]] * n`), or no levels at all
                        shared = isinstance(n.value, ast.BinOp) and isinstance(n.value.op, ast.Mult) and any(isinstance(x, ast.List) and x.elts and isinstance(x.elts[0], ast.List) for x in (n.value.left, n.value.right))
                        empty = isinstance(n.value, (ast.List, ast.Dict)) and not getattr(n.value, "elts", getattr(n.value, "keys", None))
                        obs.append(ctx.ob("R07.4", f, n, status=OK if ok else VIOLATION if (shared or empty) else INCONCLUSIVE, detail="levels start as empty lists, one per configured level" if ok else f"levels initialised as `{norm(n.value)[:90]}`" + (": every level is the same list object" if shared else "")))
                    elif base_t.attr == "_children" and f is init and t is base_t:
                        ok = isinstance(n.value, ast.List) and not n.value.elts
                        obs.append(ctx.ob("R07.4", f, n, status=OK if ok else VIOLATION, detail="children start empty" if ok else "children do not start empty"))
                    else:
                        in_hook = any(h in f.qualname.split(".") for h in ("__setstate__", "__getstate__", "__reduce__", "__deepcopy__"))
                        obs.append(ctx.ob("R07.4", f, n, status=INCONCLUSIVE if in_hook else VIOLATION, detail=f"`{norm(n)}` rebinds or overwrites tree structure in {f.short}" + (" (snapshot reconstruction code: not analysed)" if in_hook else "")))
    return obs


def r07_5(ctx: Ctx):
    """R07.5 the root: levels[0] config, id 'root', level 0, metaepoch 0, no seed, appended once to levels[0]."""
    f = ctx.prog.own_method("DemeTree", "__init__")
    selfn = f.self_name()
    cfg_p = f.params()[1]
    defs = local_defs(f)
    calls = [c for c in body_walk(f.node) if isinstance(c, ast.Call) and norm(c.func) == "init_from_config"]
    if len(calls) != 1:
        raise AnalysisError(f"DemeTree.__init__ contains {len(calls)} init_from_config calls")
    c = calls[0]
    want = {
        "config": (f"{cfg_p}.levels[0]", f"{selfn}.config.levels[0]"),
        "new_id": ("'root'",),
        "target_level": ("0",),
        "metaepoch_count": ("0",),
        "sprout_seed": ("None",),
    }
    obs = []
    for k, alts in want.items():
        v = _kw(c, k)
        t = canon(v, defs) if v is not None else None
        # an attribute of the tree that the constructor has just set to a constant (self.metaepoch_count = 0) is that constant
        if v is not None and is_self_attr(_resolve(v, defs), None, selfn):
            av = _resolve(v, defs)
            sets = [n for n in body_walk(f.node) if isinstance(n, (ast.Assign, ast.AnnAssign)) and getattr(n, "value", None) is not None and any(is_self_attr(tg_, av.attr, selfn) for tg_ in (n.targets if isinstance(n, ast.Assign) else [n.target]))]
            if len(sets) == 1 and isinstance(sets[0].value, ast.Constant) and getattr(sets[0], "_ord", 0) < getattr(c, "_ord", 1 << 30):
                t = canon(sets[0].value)
        alts_c = tuple(a.replace(" ", "") for a in alts)
        if t is not None and (t in alts_c or t.replace('"', "'") in alts_c):
            st = OK
        elif v is None and any(kw.arg is None for kw in c.keywords):
            st = INCONCLUSIVE  # passed through **kwargs
        elif v is None:
            st = VIOLATION if k != "sprout_seed" else INCONCLUSIVE
        else:
            r = ast.parse(t, mode="eval").body if t else v
            definite = isinstance(r, ast.Constant) or (k == "config" and re.search(r"levels\[-?\d+\]$", t) is not None)
            st = VIOLATION if definite else INCONCLUSIVE
        obs.append(ctx.ob("R07.5", f, v if v is not None else c, status=st, detail=f"root {k} = {alts[0]}" if st == OK else f"the root is built with {k}=`{t if t is not None else 'missing'}` (expected {alts[0]})", construct=f"root:{k}"))
    pd = _kw(c, "parent_deme")
    if pd is not None and canon(pd, defs) != "None":
        obs.append(ctx.ob("R07.5", f, pd, status=VIOLATION, detail="the root is given a parent", construct="root:parent"))
    names = [t.id for n in body_walk(f.node) if isinstance(n, (ast.Assign, ast.AnnAssign)) and n.value is c for t in (n.targets if isinstance(n, ast.Assign) else [n.target]) if isinstance(t, ast.Name)]
    lv0 = (f"{selfn}._levels[0]", f"{selfn}.levels[0]")
    apps = [x for x in body_walk(f.node) if isinstance(x, ast.Call) and isinstance(x.func, ast.Attribute) and x.func.attr == "append" and norm(x.func.value) in lv0 and len(x.args) == 1 and (x.args[0] is c or (names and norm(x.args[0]) == names[0]))]
    other_uses = [x for x in body_walk(f.node) if isinstance(x, ast.Name) and names and x.id == names[0] and isinstance(x.ctx, ast.Load) and not any(x is a.args[0] for a in apps)]
    if len(apps) == 1:
        st = OK
    elif len(apps) > 1 or (not apps and names and not other_uses):
        st = VIOLATION
    else:
        st = INCONCLUSIVE
    obs.append(ctx.ob("R07.5", f, apps[0] if apps else c, status=st, detail="root appended once to levels[0]" if st == OK else "the root is not appended exactly once to levels[0]" if st == VIOLATION else "cannot follow how the root deme is registered in levels[0]", construct="root:register"))
    inloop = any(isinstance(n, (ast.For, ast.While)) and any(x is c for x in ast.walk(n)) for n in body_walk(f.node))
    if inloop:
        obs.append(ctx.ob("R07.5", f, c, status=VIOLATION, detail="root construction inside a loop", construct="root:once"))
    return obs



def _levels_slice(it: ast.AST, tp: str, defs, allowed) -> str:
    """Classify an iteration over <tp>.levels: 'ok' = all levels but the last k (k in allowed; a negative entry -k means
    the single level [-k]), 'bad' = provably includes the last level / other levels, 'unknown' otherwise."""
    import copy

    from ..core import _Subst

    e = _Subst(defs, 4).visit(copy.deepcopy(it)) if defs else it
    for fn in ("list", "tuple", "iter"):
        if isinstance(e, ast.Call) and norm(e.func) == fn and len(e.args) == 1:
            e = e.args[0]
    if norm(e) in (f"{tp}.levels", f"{tp}._levels"):
        return "bad"
    if not (isinstance(e, ast.Subscript) and norm(e.value) in (f"{tp}.levels", f"{tp}._levels")):
        return "unknown"
    sl = e.slice
    h = (f"{tp}.height", f"len({tp}.levels)", f"len({tp}._levels)")

    def last_k(x):
        """x denotes index height-k -> k (k=0 means one past the last)"""
        if x is None:
            return 0
        if isinstance(x, ast.UnaryOp) and isinstance(x.op, ast.USub) and isinstance(x.operand, ast.Constant) and isinstance(x.operand.value, int):
            return x.operand.value
        if isinstance(x, ast.BinOp) and isinstance(x.op, ast.Sub) and norm(x.left) in h and isinstance(x.right, ast.Constant) and isinstance(x.right.value, int):
            return x.right.value
        if norm(x) in h:
            return 0
        return None

    if isinstance(sl, ast.Slice):
        if sl.step is not None and not (isinstance(sl.step, ast.Constant) and sl.step.value == 1):
            return "unknown"
        if sl.lower is not None and not (isinstance(sl.lower, ast.Constant) and sl.lower.value == 0):
            return "bad" if last_k(sl.upper) == 0 else "unknown"
        k = last_k(sl.upper)
        if k is None:
            return "unknown"
        return "ok" if k in allowed else "bad"
    k = last_k(sl)
    if k is None:
        return "unknown"
    return "ok" if -k in allowed else "bad"


def r07_6(ctx: Ctx):
    """R07.6 leaves never sprout: _next_child_id refuses last-level parents and generators iterate all levels but the last."""
    obs = []
    f = ctx.prog.own_method("DemeTree", "_next_child_id")
    d = f.params()[1]
    sn = f.self_name()
    defs = local_defs(f)
    wanted = [f"{d}.level >= {sn}.height - 1", f"{d}.level >= len({sn}.levels) - 1", f"{d}.level >= len({sn}._levels) - 1", f"{d}.level >= len({sn}.config.levels) - 1"]
    guards = [n for n in body_walk(f.node) if isinstance(n, ast.If) and any(isinstance(x, ast.Raise) for x in n.body)]
    ok = any(cond_is(n.test, w, defs) for n in guards for w in wanted)
    if ok:
        obs.append(ctx.ob("R07.6", f, f.node, detail="raises for parents on the last level", construct="leaf-guard"))
    elif not guards:
        obs.append(ctx.ob("R07.6", f, f.node, status=VIOLATION, detail="_next_child_id no longer refuses parents on the last configured level (no raising guard left)", construct="leaf-guard"))
    else:
        # positive evidence: the guard still compares the level with the height but admits the last level
        weaker = [f"{d}.level >= {sn}.height", f"{d}.level > {sn}.height - 1", f"{d}.level > {sn}.height", f"{d}.level >= {sn}.height + 1"]
        if any(cond_is(n.test, w, defs) for n in guards for w in weaker):
            obs.append(ctx.ob("R07.6", f, guards[0], status=VIOLATION, detail=f"_next_child_id no longer refuses parents on the last configured level: the guard is `{norm(guards[0].test)}`", construct="leaf-guard"))
        else:
            obs.append(ctx.ob("R07.6", f, guards[0], status=INCONCLUSIVE, detail=f"cannot relate the guard `{norm(guards[0].test)}` to `level >= height - 1`", construct="leaf-guard"))
    for cname, allowed in (("BestPerDeme", (1,)), ("NBC_Generator", (1,)), ("NBCGeneratorWithLocalMethod", (2, -2))):
        g = ctx.prog.cls(cname).methods["__call__"]
        tp = g.params()[1]
        gdefs = local_defs(g)
        iters = []
        for n in body_walk(g.node):
            if isinstance(n, (ast.For, ast.comprehension)) and f"{tp}.levels" in canon(n.iter, gdefs):
                iters.append(n.iter)
        if not iters:
            obs.append(ctx.ob("R07.6", g, g.node, status=INCONCLUSIVE, detail=f"{cname}: no iteration over tree.levels found", construct=f"{cname}:levels"))
        verdicts = [_levels_slice(i, tp, gdefs, allowed) for i in iters]
        for i, v in zip(iters, verdicts):
            if v == "bad":
                obs.append(ctx.ob("R07.6", g, i, status=VIOLATION, detail=f"{cname} iterates `{norm(i)}`: demes on the last level (or the wrong levels) are offered as parents", construct=f"{cname}:levels"))
            elif v == "unknown":
                obs.append(ctx.ob("R07.6", g, i, status=INCONCLUSIVE, detail=f"{cname} iterates `{norm(i)}`: cannot tell which levels these are", construct=f"{cname}:levels"))
        if iters and all(v == "ok" for v in verdicts):
            obs.append(ctx.ob("R07.6", g, iters[0], detail=f"{cname} iterates {', '.join(norm(i) for i in iters)}", construct=f"{cname}:levels"))
    return obs


def r07_7(ctx: Ctx):
    """R07.7 candidate provenance: current population / current best of the keyed deme; the clustering returns a subset of its input."""
    obs = []
    P = ctx.prog
    # BestPerDeme
    g = P.cls("BestPerDeme").methods["__call__"]
    comps = [n for n in body_walk(g.node) if isinstance(n, ast.DictComp)]
    if len(comps) != 1:
        obs.append(ctx.ob("R07.7", g, g.node, status=INCONCLUSIVE, detail="BestPerDeme: dict comprehension not found", construct="best-per-deme"))
    else:
        dc = comps[0]
        key = norm(dc.key)
        call = dc.value
        inds = _kw(call, "individuals") if isinstance(call, ast.Call) else None
        ok = inds is not None and norm(inds) == f"[{key}.best_current_individual]"
        obs.append(ctx.ob("R07.7", g, inds if inds is not None else dc, status=OK if ok else VIOLATION, detail="BestPerDeme offers exactly the keyed deme's current best" if ok else f"BestPerDeme offers `{norm(inds) if inds is not None else '?'}` for deme `{key}` (must be [deme.best_current_individual])", construct="best-per-deme"))
        act = any(norm(c) == f"{key}.is_active" for gen in dc.generators for c in gen.ifs)
        obs.append(ctx.ob("R07.7", g, dc, status=OK if act else VIOLATION, detail="only active demes are keys" if act else "BestPerDeme offers candidates from inactive demes", construct="best-per-deme:active"))
    # NBC generators
    for cname in ("NBC_Generator", "NBCGeneratorWithLocalMethod"):
        g = P.cls(cname).methods["__call__"]
        defs = local_defs(g)
        stores = [n for n in body_walk(g.node) if isinstance(n, ast.Assign) and len(n.targets) == 1 and isinstance(n.targets[0], ast.Subscript) and isinstance(n.value, ast.Call) and norm(n.value.func) == "DemeCandidates"]
        if not stores:
            obs.append(ctx.ob("R07.7", g, g.node, status=INCONCLUSIVE, detail=f"{cname}: no candidates[deme] = DemeCandidates(...) store", construct=cname))
        for st in stores:
            key = norm(st.targets[0].slice)
            inds = _kw(st.value, "individuals")
            r = _resolve(inds, defs) if inds is not None else None
            ok = False
            why = f"individuals = `{norm(r) if r is not None else '?'}`"
            if isinstance(r, ast.Call) and isinstance(r.func, ast.Attribute) and r.func.attr == "cluster" and isinstance(r.func.value, ast.Name):
                nd = defs.get(r.func.value.id, [])
                ok = len(nd) == 1 and isinstance(nd[0], ast.Call) and norm(nd[0].func) in ("NearestBetterClustering", "NearestBetterClusteringWithRule2") and nd[0].args and norm(nd[0].args[0]) == f"{key}.current_population"
                if not ok:
                    why = f"clustering input is `{norm(nd[0].args[0]) if nd and isinstance(nd[0], ast.Call) and nd[0].args else '?'}`, not {key}.current_population"
            elif isinstance(r, ast.List) and len(r.elts) == 1 and norm(r.elts[0]) == f"{key}.best_individual" and cname == "NBCGeneratorWithLocalMethod":
                ok = True  # tabled: the local-method generator offers the best of a just-finished deme
            obs.append(ctx.ob("R07.7", g, st, status=OK if ok else VIOLATION, detail=f"{cname}: candidates of `{key}` come from its own current population" if ok else f"{cname}: {why}"))
    # NBC summary obligation: cluster() ⊆ constructor argument
    nbc = P.cls("NearestBetterClustering")
    init = nbc.methods["__init__"]
    sn = init.self_name()
    arg = init.params()[1]
    idefs = local_defs(init)
    st = [n for n in body_walk(init.node) if isinstance(n, ast.Assign) and any(is_self_attr(t, "individuals", sn) for t in n.targets)]
    ok = False
    if len(st) == 1:
        v = st[0].value
        core = v.value if isinstance(v, ast.Subscript) and isinstance(v.slice, ast.Slice) else v
        core = _resolve(core, idefs)
        if isinstance(core, ast.Subscript) and isinstance(core.slice, ast.Slice):
            core = _resolve(core.value, idefs)
        ok = isinstance(core, ast.Call) and norm(core.func) in ("sorted", "list", "reversed") and core.args and norm(core.args[0]) == arg
        # a selection / permutation of the argument by index: [arg[i] for i in ...]
        if not ok and isinstance(core, ast.ListComp) and len(core.generators) == 1 and isinstance(core.elt, ast.Subscript) and norm(core.elt.value) == arg and isinstance(core.generators[0].target, ast.Name) and norm(core.elt.slice) == core.generators[0].target.id:
            ok = True
        if not ok and isinstance(core, ast.ListComp) and len(core.generators) == 1 and isinstance(core.generators[0].target, ast.Name) and norm(core.elt) == core.generators[0].target.id and norm(_resolve(core.generators[0].iter, idefs)) in (arg, f"sorted({arg},reverse=True)", f"sorted({arg}, reverse=True)"):
            ok = True
    obs.append(ctx.ob("R07.7", init, st[0] if st else init.node, status=OK if ok else INCONCLUSIVE, detail="clustering works on a sorted prefix of its argument" if ok else "NearestBetterClustering.individuals is not a (prefix of a) sort of the constructor argument", construct="nbc:subset-input"))
    n_create = 0
    for m in nbc.methods.values():
        msn = m.self_name() or "self"
        for c in body_walk(m.node):
            if isinstance(c, ast.Call) and isinstance(c.func, ast.Attribute) and c.func.attr == "create_node":
                n_create += 1
                data = _kw(c, "data")
                indv = None
                if isinstance(data, ast.Dict):
                    for k, v in zip(data.keys, data.values):
                        if isinstance(k, ast.Constant) and k.value == "individual":
                            indv = v
                src_ok = False
                definite = False
                if isinstance(indv, ast.Name):
                    mdefs = local_defs(m)
                    srcs = mdefs.get(indv.id, [])
                    loops = []
                    for n in body_walk(m.node):
                        if isinstance(n, ast.For) and any(isinstance(x, ast.Name) and x.id == indv.id for x in ast.walk(n.target)):
                            it = n.iter
                            if isinstance(it, ast.Call) and norm(it.func) in ("enumerate", "reversed", "list", "iter") and it.args:
                                it = it.args[0]
                            if isinstance(it, ast.Call) and norm(it.func) == "zip":
                                its = [a for a in it.args if norm(a).startswith(f"{msn}.individuals")]
                                it = its[0] if its else it
                            loops.append(it)
                    src_ok = all(norm(s).startswith(f"{msn}.individuals") for s in srcs) and all(norm(l).startswith(f"{msn}.individuals") for l in loops) and bool(srcs or loops)
                    definite = any(isinstance(s, ast.Call) and norm(s.func).endswith("Individual") for s in srcs)
                elif isinstance(indv, ast.Call) and norm(indv.func).endswith("Individual"):
                    definite = True
                obs.append(ctx.ob("R07.7", m, c, status=OK if src_ok else VIOLATION if definite else INCONCLUSIVE, detail="tree nodes hold individuals of the clustered population" if src_ok else f"a spanning-tree node is created for `{norm(indv) if indv is not None else '?'}`, which is not taken from self.individuals", construct="nbc:nodes"))
    cl = nbc.methods["cluster"]
    rets = [r for r in body_walk(cl.node) if isinstance(r, ast.Return)]
    ok = len(rets) == 1 and isinstance(rets[0].value, ast.ListComp) and norm(rets[0].value.elt).replace('"', "'") == f"{rets[0].value.generators[0].target.id}.data['individual']"
    st_ret = OK if ok else INCONCLUSIVE
    if not ok and len(rets) == 1 and isinstance(rets[0].value, ast.Name):
        # a list filled in a loop: every element appended must be a node's individual (a subset is still a subset)
        acc = rets[0].value.id
        apps = [c for c in body_walk(cl.node) if isinstance(c, ast.Call) and isinstance(c.func, ast.Attribute) and c.func.attr in ("append", "insert") and norm(c.func.value) == acc and c.args]
        cdefs = local_defs(cl)
        els = [canon(c.args[-1], cdefs).replace('"', "'") for c in apps]
        if apps and all(e.endswith(".data['individual']") for e in els) and all(isinstance(d, ast.List) and not d.elts for d in cdefs.get(acc, [])):
            st_ret = OK
        elif apps and any(isinstance(c.args[-1], ast.Call) and norm(c.args[-1].func).endswith("Individual") for c in apps):
            st_ret = VIOLATION
    elif not ok and len(rets) == 1 and isinstance(rets[0].value, ast.ListComp) and isinstance(rets[0].value.elt, ast.Call) and norm(rets[0].value.elt.func).endswith("Individual"):
        st_ret = VIOLATION  # freshly constructed individuals: not members of any population
    obs.append(ctx.ob("R07.7", cl, rets[0] if rets else cl.node, status=st_ret, detail="cluster() returns the individuals stored in tree nodes" if st_ret == OK else "cluster() returns newly constructed individuals, not members of the clustered population" if st_ret == VIOLATION else "cannot tell whether cluster() still returns node.data['individual'] of spanning-tree nodes", construct="nbc:returns-nodes"))
    if n_create < 2:
        obs.append(ctx.ob("R07.7", nbc, nbc.node, status=INCONCLUSIVE, detail="fewer than 2 create_node sites", construct="nbc:create-sites"))
    return obs


def _seed_expr(init, defs):
    """Text of the expression tested against None to tell a sprouted deme from the root (through local flags)."""
    import copy

    from ..core import _Subst

    # statements first (the branch that builds the population), conditional expressions (e.g. inside a log record) last
    nodes = [n for n in body_walk(init.node) if isinstance(n, ast.If)] + [n for n in body_walk(init.node) if isinstance(n, ast.IfExp)]
    for n in nodes:
        if isinstance(n, (ast.If, ast.IfExp)):
            te = _Subst(defs, 4).visit(copy.deepcopy(n.test))
            seeds = [x for x in ast.walk(te) if (isinstance(x, ast.Attribute) and x.attr in ("sprout_seed", "_sprout_seed")) or (isinstance(x, ast.Name) and x.id in ("sprout_seed", "seed"))]
            if seeds:
                return norm(seeds[0])
    return None


def _specialise(stmts, defs, seedx, seeded: bool):
    """The statements executed when the seed is / is not None: branches (statements and conditional expressions) on the
    seed test are resolved, everything else kept."""
    import copy

    class _Arms(ast.NodeTransformer):
        def visit_IfExp(self, node):
            self.generic_visit(node)
            if cond_is(node.test, f"{seedx} is None", defs):
                return node.orelse if seeded else node.body
            if cond_is(node.test, f"{seedx} is not None", defs) or cond_is(node.test, seedx, defs):
                return node.body if seeded else node.orelse
            return node

    out = []
    for s in stmts:
        if isinstance(s, ast.If):
            if cond_is(s.test, f"{seedx} is None", defs):
                out.extend(_specialise(s.orelse if seeded else s.body, defs, seedx, seeded))
                continue
            if cond_is(s.test, f"{seedx} is not None", defs) or cond_is(s.test, seedx, defs):
                out.extend(_specialise(s.body if seeded else s.orelse, defs, seedx, seeded))
                continue
        if any(isinstance(x, ast.IfExp) for x in ast.walk(s)) and not isinstance(s, (ast.If, ast.For, ast.While, ast.With, ast.Try, ast.FunctionDef)):
            s2 = _Arms().visit(copy.deepcopy(s))
            ast.fix_missing_locations(s2)
            out.append(s2)
            continue
        out.append(s)
    return out


def r07_8(ctx: Ctx, need: str = "contains-seed"):
    """R07.8 seeded population demes: sampled around the seed, one individual carrying the seed's genome joins the population and is not cut from it afterwards (need='contains-seed', C07); need='size' (C12): the sampled individuals plus the seed, after any truncation, are exactly pop_size."""
    obs = []
    found = 0
    for ci in ctx.concrete_demes():
        init = ci.methods.get("__init__")
        if init is None:
            continue
        sn = init.self_name()
        cps = [c for c in body_walk(init.node) if isinstance(c, ast.Call) and norm(c.func).endswith("create_population")]
        if not cps:
            continue
        found += 1
        defs = local_defs(init)
        seedx = _seed_expr(init, defs)
        if seedx is None:
            obs.append(ctx.ob("R07.8", init, init.node, status=INCONCLUSIVE, detail=f"{ci.name}: cannot find the seeded / unseeded branch", construct=f"{ci.name}:branch"))
            continue
        assume = f"{seedx} is None"
        seeded = _specialise(init.node.body, defs, seedx, True)
        unseeded = _specialise(init.node.body, defs, seedx, False)
        br = init.node
        s_calls = [c for s in seeded for c in ast.walk(s) if isinstance(c, ast.Call) and norm(c.func).endswith("create_population")]
        u_calls = [c for s in unseeded for c in ast.walk(s) if isinstance(c, ast.Call) and norm(c.func).endswith("create_population")]
        bdefs = {}
        for s in seeded:
            for n in ast.walk(s):
                if isinstance(n, ast.Assign) and len(n.targets) == 1 and isinstance(n.targets[0], ast.Name):
                    bdefs.setdefault(n.targets[0].id, []).append(n.value)
        udefs = {}
        for s in unseeded:
            for n in ast.walk(s):
                if isinstance(n, ast.Assign) and len(n.targets) == 1 and isinstance(n.targets[0], ast.Name):
                    udefs.setdefault(n.targets[0].id, []).append(n.value)
        alld = dict(defs)
        alld.update(bdefs)
        ualld = dict(defs)
        ualld.update(udefs)

        def res_s(e):
            return eval_under(e, alld, assume, False) if e is not None else None

        def res_u(e):
            return eval_under(e, ualld, assume, True) if e is not None else None

        pop = f"{sn}._pop_size"
        cfgpop = re.compile(r"^[A-Za-z_][A-Za-z_0-9.]*\.pop_size$")

        def size_status(calls, want_minus_one: bool, res, dd):
            if len(calls) != 1 or not calls[0].args:
                return INCONCLUSIVE, "?"
            t = canon(res(calls[0].args[0]), dd)
            base = t[:-2] if t.endswith("-1") else t
            is_pop = base == pop or bool(cfgpop.match(base))
            if is_pop and (t.endswith("-1") == want_minus_one):
                return OK, t
            # positive evidence of a wrong size: still an expression of pop_size only, but not the wanted one
            if re.fullmatch(r"(%s|[A-Za-z_][A-Za-z_0-9.]*\.pop_size)([-+*/]+\d+)?" % re.escape(pop), t) or re.fullmatch(r"\d+", t):
                return VIOLATION, t
            return INCONCLUSIVE, t

        # truncations of the population after it was built: `P = sorted(P, ...)[:k]`, `P = P[:k]`, topk-like selections
        cuts = []
        for s_ in seeded:
            for n in ast.walk(s_):
                if isinstance(n, ast.Assign) and len(n.targets) == 1 and isinstance(n.targets[0], ast.Name) and isinstance(n.value, ast.Subscript) and isinstance(n.value.slice, ast.Slice):
                    base = n.value.value
                    while isinstance(base, ast.Call) and norm(base.func) in ("sorted", "list", "reversed") and base.args:
                        base = base.args[0]
                    if isinstance(base, ast.Name) and base.id == n.targets[0].id:
                        cuts.append(n)
        st, t = size_status(u_calls, False, res_u, ualld)
        if need == "size":
            obs.append(ctx.ob("R07.8", init, u_calls[0] if u_calls else br, status=st, detail=f"{ci.name}: unseeded population has pop_size individuals" if st == OK else f"{ci.name}: the unseeded population is created with size `{t}`", construct=f"{ci.name}:unseeded-size"))
        st, t = size_status(s_calls, True, res_s, alld)
        if need == "size":
            cut_to_pop = [c_ for c_ in cuts if c_.value.slice.lower is None and c_.value.slice.upper is not None and (canon(res_s(c_.value.slice.upper), alld) == pop or bool(cfgpop.match(canon(res_s(c_.value.slice.upper), alld))))]
            if cut_to_pop and st in (OK, VIOLATION) and re.fullmatch(r"(%s|[A-Za-z_][A-Za-z_0-9.]*\.pop_size)(-1|\+\d+)?" % re.escape(pop), t):
                # at least pop_size - 1 sampled, the seed joins, the best pop_size are kept: exactly pop_size remain
                st = OK
                obs.append(ctx.ob("R07.8", init, cut_to_pop[0], detail=f"{ci.name}: `{t}` sampled + the seed, cut to pop_size", construct=f"{ci.name}:seeded-size"))
            elif cuts and not cut_to_pop:
                obs.append(ctx.ob("R07.8", init, cuts[0], status=INCONCLUSIVE, detail=f"{ci.name}: the seeded population is cut by `{norm(cuts[0])[:60]}`: size not derivable", construct=f"{ci.name}:seeded-size"))
            else:
                obs.append(ctx.ob("R07.8", init, s_calls[0] if s_calls else br, status=st, detail=f"{ci.name}: seeded population samples pop_size - 1 individuals" if st == OK else f"{ci.name}: the seeded population samples `{t}` individuals (pop_size - 1 expected)", construct=f"{ci.name}:seeded-size"))
        # the seed individual
        def _concat_terms(e):
            """terms of a `+` chain"""
            if isinstance(e, ast.BinOp) and isinstance(e.op, ast.Add):
                return _concat_terms(e.left) + _concat_terms(e.right)
            return [e]

        pop_names = []
        joined = []  # (expression that joins the sampled population, statement)
        for s_ in seeded:
            for n in ast.walk(s_):
                if isinstance(n, ast.Assign) and s_calls and len(n.targets) == 1 and isinstance(n.targets[0], ast.Name):
                    terms = _concat_terms(n.value)
                    if any(t is s_calls[0] for t in terms) and all(t is s_calls[0] or isinstance(t, ast.List) for t in terms):
                        pop_names.append(n.targets[0].id)
                        joined += [(el, s_ if n is s_ else None) for t in terms if isinstance(t, ast.List) for el in t.elts]
        for s_ in seeded:
            for n in ast.walk(s_):
                if not pop_names:
                    break
                if isinstance(n, ast.AugAssign) and isinstance(n.op, ast.Add) and norm(n.target) == pop_names[0] and isinstance(n.value, ast.List):
                    joined += [(el, s_ if n is s_ else None) for el in n.value.elts]
                elif isinstance(n, ast.Assign) and len(n.targets) == 1 and norm(n.targets[0]) == pop_names[0] and isinstance(n.value, ast.BinOp):
                    terms = _concat_terms(n.value)
                    if any(norm(t) == pop_names[0] for t in terms) and all(norm(t) == pop_names[0] or isinstance(t, ast.List) for t in terms):
                        joined += [(el, s_ if n is s_ else None) for t in terms if isinstance(t, ast.List) for el in t.elts]
                elif isinstance(n, ast.Call) and isinstance(n.func, ast.Attribute) and norm(n.func.value) == pop_names[0] and n.func.attr == "extend" and len(n.args) == 1 and isinstance(n.args[0], ast.List):
                    joined += [(el, s_ if isinstance(s_, ast.Expr) and s_.value is n else None) for el in n.args[0].elts]
                elif isinstance(n, ast.Call) and isinstance(n.func, ast.Attribute) and norm(n.func.value) == pop_names[0] and n.func.attr == "insert" and len(n.args) == 2:
                    joined.append((n.args[1], s_ if isinstance(s_, ast.Expr) and s_.value is n else None))
        appends = [c for s in seeded for c in ast.walk(s) if isinstance(c, ast.Call) and isinstance(c.func, ast.Attribute) and c.func.attr == "append" and pop_names and norm(c.func.value) == pop_names[0]]
        st_app = VIOLATION
        why = "the seed is not appended to the sampled population"
        if not pop_names:
            st_app, why = INCONCLUSIVE, "cannot follow the sampled population to the place where the seed joins it"
        elif (len(appends) == 1 and appends[0].args and not joined) or (len(joined) == 1 and not appends):
            a = appends[0].args[0] if appends else joined[0][0]
            r = res_s(a)

            def seed_ind_status(r):
                """OK / VIOLATION / INCONCLUSIVE for one expression appended as the seed individual"""
                while isinstance(r, ast.Call) and isinstance(r.func, ast.Attribute) and r.func.attr == "evaluate" and not r.args:
                    r = res_s(r.func.value)  # Individual(...).evaluate() returns the individual itself
                if isinstance(r, ast.IfExp):
                    sts = [seed_ind_status(res_s(r.body)), seed_ind_status(res_s(r.orelse))]
                    return (VIOLATION, sts[0][1] if sts[0][0] == VIOLATION else sts[1][1]) if VIOLATION in (sts[0][0], sts[1][0]) else (INCONCLUSIVE, sts[0][1] or sts[1][1]) if INCONCLUSIVE in (sts[0][0], sts[1][0]) else (OK, "")
                if isinstance(r, ast.Call) and norm(r.func).endswith("Individual") and (r.args or _kw(r, "genome") is not None):
                    g0 = res_s(r.args[0] if r.args else _kw(r, "genome"))
                    g0t = canon(g0, alld)
                    if g0t.endswith("sprout_seed.genome") or re.fullmatch(r"(np\.)?(copy|array|asarray)\([A-Za-z_0-9.]*sprout_seed\.genome\)|[A-Za-z_0-9.]*sprout_seed\.genome\.copy\(\)", g0t):
                        return OK, ""
                    if "sprout_seed" not in g0t or isinstance(g0, ast.BinOp):
                        return VIOLATION, f"the appended individual's genome is `{norm(g0)[:60]}`, not the seed's genome"
                    return INCONCLUSIVE, f"cannot tell whether `{norm(g0)[:60]}` is the seed's genome"
                if canon(r, alld).endswith("sprout_seed"):
                    return OK, ""
                if isinstance(r, ast.Subscript):
                    return VIOLATION, f"`{norm(r)[:60]}` (an element of a population) is appended instead of the seed"
                return INCONCLUSIVE, f"cannot tell what `{norm(a)}` appended to the seeded population is"

            st_app, w2 = seed_ind_status(r)
            why = w2 or why
        elif len(appends) + len(joined) > 1:
            st_app, why = INCONCLUSIVE, "several appends to the seeded population"
        else:
            # other ways of joining the seed (concatenation, insert, list literal): not recognised
            seedish = {nm for nm, ds in bdefs.items() if any("sprout_seed" in norm(dd) for dd in ds) and nm != pop_names[0]}
            others = [c for s in seeded for c in ast.walk(s) if isinstance(c, (ast.Call, ast.BinOp, ast.AugAssign)) and c is not s_calls[0] and pop_names[0] in {x.id for x in ast.walk(c) if isinstance(x, ast.Name)} and ("sprout_seed" in norm(c) or seedish & {x.id for x in ast.walk(c) if isinstance(x, ast.Name)})]
            if others:
                st_app, why = INCONCLUSIVE, f"the seed seems to join the population through `{norm(others[0])[:60]}` (unrecognised form)"
        # the append must be unconditional within the seeded branch
        cond_app = (appends and not any(isinstance(s, ast.Expr) and s.value is appends[0] for s in seeded)) or (joined and not appends and joined[0][1] is None)
        if st_app == OK and cond_app:
            st_app, why = VIOLATION, "the seed is appended only conditionally"
        obs.append(ctx.ob("R07.8", init, appends[0] if appends else br, status=st_app, detail=f"{ci.name}: the initial population contains the sprout seed" if st_app == OK else f"{ci.name}: {why}", construct=f"{ci.name}:seed-appended"))
        if need == "contains-seed":
            # once the seed has joined, the population is not cut again before it is recorded
            if cuts and pop_names and any(norm(c_.targets[0]) == pop_names[0] for c_ in cuts):
                c0 = next(c_ for c_ in cuts if norm(c_.targets[0]) == pop_names[0])
                obs.append(ctx.ob("R07.8", init, c0, status=VIOLATION if st_app == OK else INCONCLUSIVE, detail=f"{ci.name}: after the seed has joined it the population is cut (`{norm(c0)[:70]}`): the seed is dropped whenever it is not among the individuals kept, so the child's initial population need not contain its seed", construct=f"{ci.name}:seed-kept"))
            else:
                obs.append(ctx.ob("R07.8", init, br, detail=f"{ci.name}: the population is not cut after the seed joined it", construct=f"{ci.name}:seed-kept"))
        # sampled around the seed
        if s_calls:
            ini = _kw(s_calls[0], "initialize")
            if ini is None and len(s_calls[0].args) > 1:
                ini = s_calls[0].args[1]
            r = res_s(ini)
            st_c = INCONCLUSIVE
            if isinstance(r, ast.Call) and norm(r.func) == "sample_normal":
                c0 = r.args[0] if r.args else _kw(r, "center")
                c0t = canon(c0, alld) if c0 is not None else "?"
                st_c = OK if c0t.endswith("sprout_seed.genome") else VIOLATION
            elif isinstance(r, ast.Call) and norm(r.func) == "sample_uniform":
                st_c = VIOLATION
            obs.append(ctx.ob("R07.8", init, ini if ini is not None else s_calls[0], status=st_c, detail=f"{ci.name}: sampled around the seed's genome" if st_c == OK else f"{ci.name}: the seeded population is not sampled around the seed (`{norm(r) if r is not None else '?'}`)", construct=f"{ci.name}:centre"))
    if found < 3:
        raise AnalysisError(f"only {found} population demes with seeded construction found (EA, DE, SHADE confirmed by hand)")
    return obs


def r07_10(ctx: Ctx):
    """R07.10 start metaepochs stay consistent because the tree's metaepoch counter only ever grows: 0 in the constructor, `+= 1`
    in run_step, no other writer (R05.2) - a counter reset by run() puts existing demes' started_at in the tree's future and
    lets later children start before their parents."""
    from . import c05  # late import

    out = []
    for o in c05.r05_2(ctx):
        o.rule = "R07.10"
        out.append(o)
    return out


def r07_9(ctx: Ctx):
    """R07.9 a candidate stays under the deme that proposed it: filters only ever shrink `candidates[deme].individuals` (R10.2) -
    a filter that re-adds or moves candidates can file a seed under a deme whose population never held it, and that deme then
    becomes the child's parent."""
    from . import c10  # late import: c10 imports this module

    out = []
    for o in c10.r10_2(ctx):
        o.rule = "R07.9"
        out.append(o)
    return out


RULES = [
    ("R07.1", r07_1, 9),
    ("R07.2", r07_2, 4),
    ("R07.3", r07_3, 9),
    ("R07.4", r07_4, 8),
    ("R07.5", r07_5, 6),
    ("R07.6", r07_6, 4),
    ("R07.7", r07_7, 8),
    ("R07.8", r07_8, 9),
    ("R07.9", r07_9, 5),
    ("R07.10", r07_10, 2),
]
