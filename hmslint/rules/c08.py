"""C08 — the level limit on simultaneously active demes is never exceeded (inductive argument)."""
from __future__ import annotations

import ast
import re

from ..core import INCONCLUSIVE, OK, VIOLATION, Ctx, canon, cond_is, is_self_attr, local_defs
from ..model import AnalysisError, Inconclusive, body_walk, norm
from . import c05, c06, c07

CLAIM = """Decides every obligation of an inductive proof of the invariant  #active(level) <= L  for the shipped mechanisms: (O1)
activity is monotone (a deme is only ever deactivated — R06.1); (O2) levels grow at a single site (R07.4, R05.5) and start
empty; (O3) get_seeds returns the output of the last tree-level filter with only empty entries dropped, run_sprout passes it
to _do_sprout unchanged, and both shipped factories put LevelLimit(level_limit) last; (O4) cardinality of LevelLimit: the
guard is `active + len(C) > limit` with `active` the number of is_active demes of the target level, C the concatenation of
exactly the per-parent lists it later filters, C totally sorted and untouched before the pivot C[limit - active] is read,
and the keep-predicate is the strict comparison against the pivot that matches the sort order, hence kept <= limit - active;
in the else branch active + len(C) <= limit already; (O5) every non-leaf level is processed; (O6) _do_sprout creates exactly
one child per returned candidate."""
NOTE = """User-composed mechanisms without LevelLimit as the last tree filter are outside the claim. Which candidates are kept
(direction) is C10/C13's concern; the counting argument holds for any total preorder as long as sort and comparator agree."""
TECHNIQUE = "inductive invariant decomposed into static obligations: who-may-write/monotonicity, symbolic list-cardinality reasoning over the filter's AST, chain-order provenance"
EXPLANATION = """
The invariant is established by induction over sprouting rounds; each proof obligation is a shape fact about the code that
the checker decides on the current source (O1/O2/O6 reuse the C06/C07/C05 rules on this run). O4 is a small symbolic
cardinality argument: for a list C sorted by a total preorder and pivot p = C[k], the elements strictly before p in that
order are among C[0:k], so a filter that keeps exactly those keeps at most k = limit - active elements.
"""
ASSUMPTIONS = ["list.sort / sorted produce a total order consistent with the comparator used by the keep-predicate (Individual.__lt__ is a total preorder on non-NaN fitness)"]


def o1(ctx: Ctx):
    """O1 activity is monotone: `_active` becomes True only at construction (R06.1)."""
    out = []
    for o in c06.r06_1(ctx, monotone_only=True):
        o.rule = "C08.O1"
        out.append(o)
    return out


def o2(ctx: Ctx):
    """O2 levels start empty and grow only by the append in _do_sprout (and the root); demes are created only there (R07.4, R05.5)."""
    out = []
    for o in c07.r07_4(ctx) + c05.r05_5(ctx):
        # only the level lists matter for the count of active demes per level; parent/child links and identity fields are C07's
        if o.rule == "R07.4" and not ("level" in o.detail or "tree structure" in o.detail):
            continue
        o.rule = "C08.O2"
        out.append(o)
    return out


def o3(ctx: Ctx):
    """O3 the seeds that reach _do_sprout are the last tree filter's output (empty entries dropped), and LevelLimit is that last filter in the shipped factories."""
    obs = []
    P = ctx.prog
    gs = P.own_method("SproutMechanism", "get_seeds")
    sn = gs.self_name()
    tree_p = gs.params()[1]
    # provenance of every local through the statements of get_seeds: the sequence of stages applied to the generator's output
    # ('gen', 'deme' = every deme-level filter in order, 'tree' = every tree-level filter in order, 'drop' = parents left without
    # candidates removed).  Recording calls (history appends of deep copies) do not change a value.
    prov: dict[str, list] = {}
    unknown = []  # statements that touch a tracked value in a way the rule does not follow
    mutated = []  # positive evidence: the tracked mapping is changed in place

    def drop_empty_of(e, src):
        """e is {k: src[k] for k in src.keys() if src[k].individuals} (or dict(...) of it)"""
        if isinstance(e, ast.Call) and norm(e.func) == "dict" and len(e.args) == 1 and not e.keywords:
            return drop_empty_of(e.args[0], src)
        if isinstance(e, ast.DictComp) and len(e.generators) == 1:
            g = e.generators[0]
            if isinstance(g.target, ast.Name) and canon(g.iter) in (f"{src}.keys()", src, f"list({src})", f"list({src}.keys())"):
                k = g.target.id
                if norm(e.key) == k and canon(e.value) == f"{src}[{k}]":
                    lst = f"{src}[{k}].individuals"
                    return all(any(cond_is(c, w) for w in (lst, f"len({lst}) > 0", f"len({lst}) != 0", f"{lst} != []")) for c in g.ifs)
        return False

    def value_prov(v):
        """provenance of an expression, or None (untracked), or '?' (tracked but not understood)"""
        if isinstance(v, ast.Name):
            return list(prov[v.id]) if v.id in prov else None
        if isinstance(v, ast.Call):
            fn = norm(v.func)
            if fn == f"{sn}.candidates_generator" and [norm(a) for a in v.args] == [tree_p]:
                return ["gen"]
            for meth, tag in ((f"{sn}.apply_deme_filters", "deme"), (f"{sn}.apply_tree_filters", "tree")):
                if fn == meth and len(v.args) == 2 and norm(v.args[1]) == tree_p:
                    inner = value_prov(v.args[0])
                    return "?" if inner in (None, "?") else inner + [tag]
        if isinstance(v, ast.Call) and norm(v.func) in ("dict", "copy.copy") and len(v.args) == 1 and not v.keywords and isinstance(v.args[0], ast.Name) and v.args[0].id in prov:
            return list(prov[v.args[0].id])  # a shallow copy of the mapping: same parents, same candidate lists
        for nm in list(prov):
            if drop_empty_of(v, nm):
                return prov[nm] + ["drop"]
        if any(isinstance(x, ast.Name) and x.id in prov for x in ast.walk(v)) and not (isinstance(v, ast.Call) and norm(v.func) in ("copy.deepcopy", "deepcopy", "len", "list", "sorted")):
            return "?"
        return None

    def run_block(stmts):
        for st in stmts:
            if isinstance(st, (ast.Assign, ast.AnnAssign)) and isinstance(st.targets[0] if isinstance(st, ast.Assign) else st.target, ast.Name) and getattr(st, "value", None) is not None:
                tn = (st.targets[0] if isinstance(st, ast.Assign) else st.target).id
                pv = value_prov(st.value)
                if pv == "?":
                    unknown.append(st)
                    prov.pop(tn, None)
                elif pv is None:
                    prov.pop(tn, None)
                else:
                    prov[tn] = pv
                continue
            if isinstance(st, ast.For) and not st.orelse and isinstance(st.target, ast.Name) and len(st.body) == 1 and isinstance(st.body[0], ast.Assign) and len(st.body[0].targets) == 1 and isinstance(st.body[0].targets[0], ast.Name):
                # for flt in self.<chain>: x = flt(x, tree)
                it = canon(st.iter)
                b0 = st.body[0]
                x = b0.targets[0].id
                tag = {f"{sn}.deme_filter_chain": "deme", f"{sn}.tree_filter_chain": "tree"}.get(it)
                if tag and x in prov and isinstance(b0.value, ast.Call) and norm(b0.value.func) in (st.target.id, f"{st.target.id}.__call__") and [norm(a) for a in b0.value.args] == [x, tree_p]:
                    prov[x] = prov[x] + [tag]
                    continue
            if isinstance(st, ast.Return):
                continue
            # anything else: recording calls are fine, in-place changes of a tracked mapping are positive evidence
            for x in ast.walk(st):
                if isinstance(x, (ast.Assign, ast.AugAssign, ast.Delete)):
                    for tt in (x.targets if isinstance(x, (ast.Assign, ast.Delete)) else [x.target]):
                        if isinstance(tt, (ast.Subscript, ast.Attribute)) and any(isinstance(y, ast.Name) and y.id in prov for y in ast.walk(tt)):
                            mutated.append(x)
                if isinstance(x, ast.Call) and isinstance(x.func, ast.Attribute) and x.func.attr in ("pop", "popitem", "clear", "update", "setdefault", "remove") and any(isinstance(y, ast.Name) and y.id in prov for y in ast.walk(x.func.value)):
                    mutated.append(x)
            if isinstance(st, (ast.For, ast.While, ast.If, ast.With, ast.Try)) and any(isinstance(y, ast.Name) and isinstance(y.ctx, ast.Store) and y.id in prov for y in ast.walk(st)):
                unknown.append(st)

    run_block(gs.node.body)
    rets = [r for r in body_walk(gs.node) if isinstance(r, ast.Return)]
    rp = value_prov(rets[0].value) if len(rets) == 1 and rets[0].value is not None else "?"
    core = [t for t in rp if t != "drop"] if isinstance(rp, list) else rp
    order = core if isinstance(core, list) else []
    if core == ["gen", "deme", "tree"] and not unknown:
        st_chain = OK
    elif isinstance(core, list) and core and core[0] == "gen" and not unknown and core != ["gen", "deme", "tree"]:
        st_chain = VIOLATION  # understood, and not generator -> deme filters -> tree filters
    else:
        st_chain = INCONCLUSIVE
    obs.append(ctx.ob("C08.O3", gs, rets[0] if rets else gs.node, status=st_chain, detail="generator -> deme filters -> tree filters, each fed with the previous result" if st_chain == OK else f"get_seeds returns a value that went through {order or '?'} (tree-level filters must run last on the deme-filtered candidates)", construct="chain-order"))
    if mutated:
        st_ret, why_ret = VIOLATION, f"`{norm(mutated[0])[:70]}` changes the candidates in place"
    elif st_chain == OK:
        st_ret, why_ret = OK, ""
    elif len(rets) == 1 and rets[0].value is None:
        st_ret, why_ret = VIOLATION, "returns nothing"
    else:
        st_ret, why_ret = INCONCLUSIVE, "filter chain not recognised"
    obs.append(ctx.ob("C08.O3", gs, rets[0] if rets else gs.node, status=st_ret, detail="returns the filtered candidates, dropping only parents left without candidates" if st_ret == OK else f"get_seeds changes the candidates after the tree-level filters ran (or returns something else): {why_ret}", construct="return"))
    # apply_tree_filters applies every filter of the chain in order, feeding each the previous result
    for meth, chain_attr in (("apply_tree_filters", "tree_filter_chain"), ("apply_deme_filters", "deme_filter_chain")):
        m = P.own_method("SproutMechanism", meth)
        msn = m.self_name()
        cp, tp = m.params()[1], m.params()[2]
        loops = [n for n in m.node.body if isinstance(n, ast.For)]
        st_m = INCONCLUSIVE
        if len(loops) == 1 and isinstance(loops[0].target, ast.Name):
            it = canon(loops[0].iter)
            fv = loops[0].target.id
            b = loops[0].body[0] if len(loops[0].body) == 1 else None
            step_ok = isinstance(b, ast.Assign) and norm(b.targets[0]) == cp and isinstance(b.value, ast.Call) and norm(b.value.func) in (fv, f"{fv}.__call__") and [norm(a) for a in b.value.args] == [cp, tp]
            if it in (f"{msn}.{chain_attr}", f"list({msn}.{chain_attr})") and step_ok and not any(isinstance(x, (ast.Break, ast.Continue, ast.Return)) for x in ast.walk(loops[0])):
                st_m = OK
            elif it.startswith(f"{msn}.{chain_attr}[") or it in (f"reversed({msn}.{chain_attr})", f"{msn}.{chain_attr}[::-1]") or (step_ok and any(isinstance(x, (ast.Break, ast.Return)) for x in ast.walk(loops[0]))):
                st_m = VIOLATION  # a slice / the reverse of the chain, or an early exit
            elif it == f"{msn}.{chain_attr}" and isinstance(b, ast.Expr) and isinstance(b.value, ast.Call) and norm(b.value.func) == fv:
                st_m = VIOLATION  # result of a filter discarded
        elif not loops and not any(chain_attr in norm(x) for x in body_walk(m.node) if isinstance(x, ast.Attribute)):
            st_m = VIOLATION  # the chain is not consulted at all
        if st_m != OK and len(loops) == 1 and isinstance(loops[0].target, ast.Name):
            fv0 = loops[0].target.id
            partial = [c for c in ast.walk(loops[0]) if isinstance(c, ast.Call) and norm(c.func) == fv0 and c.args and isinstance(c.args[0], (ast.Dict, ast.DictComp))]
            if partial:
                st_m = VIOLATION  # a filter of the chain is handed a sub-mapping: a level-wide filter no longer sees all parents of the level
        mr = [r for r in body_walk(m.node) if isinstance(r, ast.Return)]
        if st_m == OK and not (len(mr) == 1 and mr[0].value is not None and norm(mr[0].value) == cp):
            st_m = INCONCLUSIVE
        obs.append(ctx.ob("C08.O3", m, m.node, status=st_m, detail=f"{meth}: every filter of {chain_attr} applied in order" if st_m == OK else f"{meth} does not apply every filter of {chain_attr} in order to the running candidates", construct=meth))
    # run_sprout passes get_seeds' result unchanged (R18.3 checks the same provenance)
    rs = P.own_method("DemeTree", "run_sprout")
    defs = local_defs(rs)
    calls = [c for c in body_walk(rs.node) if isinstance(c, ast.Call) and norm(c.func) == f"{rs.self_name()}._do_sprout"]
    st_h = INCONCLUSIVE
    if len(calls) == 1 and len(calls[0].args) == 1:
        a = calls[0].args[0]
        hops = 0
        while isinstance(a, ast.Name) and len(defs.get(a.id, [])) == 1 and hops < 4:
            a = defs[a.id][0]
            hops += 1
        if isinstance(a, ast.Call) and norm(a.func).endswith(".get_seeds"):
            st_h = OK
        elif isinstance(a, (ast.Dict, ast.DictComp, ast.Constant)):
            st_h = VIOLATION
    elif not calls:
        st_h = VIOLATION
    obs.append(ctx.ob("C08.O3", rs, calls[0] if calls else rs.node, status=st_h, detail="_do_sprout receives exactly what get_seeds returned" if st_h == OK else "run_sprout does not hand get_seeds' result unchanged to _do_sprout", construct="handover"))
    # factories
    for fname in ("get_NBC_sprout", "get_simple_sprout"):
        fac = P.func("pyhms.sprout.sprout_mechanisms", fname)
        fdefs = local_defs(fac)
        ctor = [c for c in body_walk(fac.node) if isinstance(c, ast.Call) and norm(c.func) == "SproutMechanism"]
        st_f = INCONCLUSIVE
        why = "no single SproutMechanism(...) construction"
        if len(ctor) == 1:
            tchain = next((k.value for k in ctor[0].keywords if k.arg == "tree_filter_chain"), ctor[0].args[2] if len(ctor[0].args) > 2 else None)
            hops = 0
            while isinstance(tchain, ast.Name) and len(fdefs.get(tchain.id, [])) == 1 and hops < 4:
                tchain = fdefs[tchain.id][0]
                hops += 1
            if isinstance(tchain, (ast.List, ast.Tuple)):
                elts = [fdefs[e.id][0] if isinstance(e, ast.Name) and len(fdefs.get(e.id, [])) == 1 else e for e in tchain.elts]
                is_ll = [isinstance(e, ast.Call) and norm(e.func) == "LevelLimit" for e in elts]
                if elts and is_ll[-1]:
                    last = elts[-1]
                    arg = last.args[0] if last.args else next((k.value for k in last.keywords if k.arg == "limit"), None)
                    at = canon(arg, fdefs) if arg is not None else "?"
                    if at == "level_limit":
                        st_f = OK
                    elif isinstance(arg, (ast.Constant, ast.BinOp)) or at in fac.params():
                        st_f, why = VIOLATION, f"the last tree filter is LevelLimit({at}), not LevelLimit(level_limit)"
                    else:
                        why = f"cannot tell what limit `{at}` is"
                elif all(isinstance(e, ast.Call) for e in elts):
                    st_f, why = VIOLATION, (f"last tree filter is `{norm(elts[-1])}`" if elts else "the tree filter chain is empty")
                else:
                    why = f"cannot resolve every element of the tree filter chain `{norm(tchain)[:60]}`"
            else:
                why = f"tree filter chain is `{norm(tchain) if tchain is not None else '?'}`"
        obs.append(ctx.ob("C08.O3", fac, ctor[0] if ctor else fac.node, status=st_f, detail=f"{fname}: LevelLimit(level_limit) is the last tree-level filter" if st_f == OK else f"{fname}: {why}; the configured level limit is not enforced last", construct=f"factory:{fname}"))
    return obs


def _kind_of_order(sort_call_or_stmt, elt_var_hint=None):
    """Returns (descending: bool, key_text or None) for `X.sort(...)` / `sorted(X, ...)`."""
    c = sort_call_or_stmt
    rev = next((k.value for k in c.keywords if k.arg == "reverse"), None)
    key = next((k.value for k in c.keywords if k.arg == "key"), None)
    desc = False
    if rev is not None:
        if isinstance(rev, ast.Constant) and isinstance(rev.value, bool):
            desc = rev.value
        else:
            return None, None
    key_txt = None
    if key is not None:
        if isinstance(key, ast.Lambda) and len(key.args.args) == 1:
            a = key.args.args[0].arg
            key_txt = canon(key.body).replace(a, "$")
        else:
            key_txt = "?" + norm(key)
    return desc, key_txt


def _strip_not(t):
    """not (a <= b) -> a > b"""
    inv = {ast.Lt: ast.GtE, ast.LtE: ast.Gt, ast.Gt: ast.LtE, ast.GtE: ast.Lt, ast.Eq: ast.NotEq, ast.NotEq: ast.Eq}
    while isinstance(t, ast.UnaryOp) and isinstance(t.op, ast.Not) and isinstance(t.operand, ast.Compare) and len(t.operand.ops) == 1 and type(t.operand.ops[0]) in inv:
        c = t.operand
        t = ast.copy_location(ast.Compare(left=c.left, ops=[inv[type(c.ops[0])]()], comparators=c.comparators), c)
    return t


def _parents_with_extras(conds, dv, lv, cand_p, from_levels):
    """The list of a level's parents built with further conditions: being a key of the candidates / having a non-empty
    candidate list changes nothing; a condition on the parent's own state (active, hibernating, ...) removes parents whose
    candidate lists are then never ranked nor cut."""
    atoms = []
    for c in conds:
        atoms.extend(c.values if isinstance(c, ast.BoolOp) and isinstance(c.op, ast.And) else [c])
    has_level = from_levels
    has_member = not from_levels
    state = unknown = False
    for a in atoms:
        t = canon(a)
        if cond_is(a, f"{dv}.level == {lv}") or cond_is(a, f"{lv} == {dv}.level") or t in (f"{dv}._level=={lv}",):
            has_level = True
        elif t in (f"{dv}in{cand_p}", f"{dv}in{cand_p}.keys()"):
            has_member = True
        elif t in (f"{cand_p}[{dv}].individuals", f"len({cand_p}[{dv}].individuals)>0", f"len({cand_p}[{dv}].individuals)!=0", f"len({cand_p}[{dv}].individuals)>=1", f"{cand_p}[{dv}].individuals!=[]"):
            pass
        elif re.fullmatch(r"(not)?" + re.escape(dv) + r"\.(is_active|_active|_hibernating|is_hibernating)", t):
            state = True
        else:
            unknown = True
    if has_level and has_member and state:
        return VIOLATION
    if has_level and has_member and not unknown:
        return OK
    return INCONCLUSIVE


def o4(ctx: Ctx, ties_matter: bool = True):
    """O4 cardinality of LevelLimit: at most (limit - active) candidates survive on each level."""
    ci = ctx.prog.cls("LevelLimit")
    f = ci.methods.get("__call__")
    if f is None:
        raise AnalysisError("LevelLimit.__call__ vanished")
    sn = f.self_name()
    cand_p, tree_p = f.params()[1], f.params()[2]
    obs = []
    # a list must not lose elements while a `for` runs over it: after `L.remove(x)` the element that followed x is skipped,
    # so of two neighbouring losers the second survives the cut
    fdefs0 = local_defs(f)
    for lp in [x for x in body_walk(f.node) if isinstance(x, ast.For)]:
        it_names = {canon(lp.iter)} | ({canon(d_) for d_ in fdefs0.get(lp.iter.id, [])} if isinstance(lp.iter, ast.Name) else set())
        for c in ast.walk(lp):
            if isinstance(c, ast.Call) and isinstance(c.func, ast.Attribute) and c.func.attr in ("remove", "pop") and (canon(c.func.value) in it_names or (isinstance(c.func.value, ast.Name) and isinstance(lp.iter, ast.Name) and c.func.value.id == lp.iter.id)):
                return [ctx.ob("C08.O4", f, c, status=VIOLATION, detail=f"`{norm(c)}` removes from `{norm(lp.iter)}` while the loop iterates over it: the candidate that follows a removed one is never tested, so a candidate that is not better than the pivot survives and more than limit - active candidates remain", construct="mutate-while-iterating")]
    loops = [n for n in f.node.body if isinstance(n, ast.For)]
    if len(loops) != 1 or not isinstance(loops[0].target, ast.Name):
        return [ctx.ob("C08.O4", f, f.node, status=INCONCLUSIVE, detail="expected exactly one top-level loop over levels", construct="level-loop")]
    L = loops[0]
    lv = L.target.id
    defs: dict[str, list] = {}
    for n in ast.walk(L):
        if isinstance(n, ast.Assign) and len(n.targets) == 1 and isinstance(n.targets[0], ast.Name):
            defs.setdefault(n.targets[0].id, []).append(n.value)
    # a pivot that outlives its level: initialised before the loop over levels, set only under a level's guard, and compared
    # with outside that guard - a level that fits is then pruned with the pivot of an EARLIER level
    pre_names = set()
    for st0 in f.node.body:
        if st0 is L:
            break
        if isinstance(st0, (ast.Assign, ast.AnnAssign)):
            for t0 in (st0.targets if isinstance(st0, ast.Assign) else [st0.target]):
                if isinstance(t0, ast.Name):
                    pre_names.add(t0.id)
    for gi in [n for n in L.body if isinstance(n, ast.If)]:
        set_in_guard = {t0.id for n0 in ast.walk(gi) if isinstance(n0, ast.Assign) for t0 in n0.targets if isinstance(t0, ast.Name)} & pre_names
        for nm0 in set_in_guard:
            outside = [c0 for st1 in L.body if st1 is not gi for c0 in ast.walk(st1) if isinstance(c0, ast.Compare) and len(c0.ops) == 1 and isinstance(c0.ops[0], (ast.Gt, ast.GtE, ast.Lt, ast.LtE)) and any(isinstance(x, ast.Name) and x.id == nm0 for x in [c0.left] + c0.comparators)]
            resets = [n0 for st1 in L.body if st1 is not gi for n0 in ast.walk(st1) if isinstance(n0, ast.Assign) and any(isinstance(t0, ast.Name) and t0.id == nm0 for t0 in n0.targets)]
            # (for the bound of C08 this is harmless - a stale pivot only removes more; it is C10's "fills exactly the free
            # slots / no dropped candidate better than a kept one" that breaks, i.e. the caller with ties_matter=False)
            if outside and not resets and not ties_matter:
                return [ctx.ob("C08.O4", f, outside[0], status=VIOLATION, detail=f"`{nm0}` is initialised before the loop over levels, set only when a level overflows, and `{norm(outside[0])}` is applied to every later level as well: a level whose candidates all fit is pruned with the pivot of an earlier level, so candidates that fit into free slots are dropped (and better ones than kept ones on other levels)", construct="stale-pivot")]
    guards = [n for n in L.body if isinstance(n, ast.If)]
    if len(guards) != 1:
        return [ctx.ob("C08.O4", f, L, status=INCONCLUSIVE, detail=f"expected one guard per level, found {len(guards)}", construct="guard")]
    G = guards[0]
    # a precondition wrapped around the whole cut (`if not candidates: continue`, inverted by the normaliser): the level is
    # left uncut when it fails, which is only safe when there is nothing to cut
    inner_ifs = [n for n in G.body if isinstance(n, ast.If)]
    if not G.orelse and len(inner_ifs) == 1 and not any(isinstance(x, ast.Attribute) and x.attr == "limit" for x in ast.walk(G.test)) and any(isinstance(x, ast.Attribute) and x.attr == "limit" for x in ast.walk(inner_ifs[0].test)):
        pre = _strip_not(G.test)
        conj = pre.values if isinstance(pre, ast.BoolOp) and isinstance(pre.op, ast.And) else [pre]
        cand_lists = {nm for nm, dd in defs.items() if any(isinstance(d_, (ast.ListComp, ast.Call)) and f"{cand_p}[" in canon(d_) for d_ in dd)}
        for cj in conj:
            t_ = canon(cj, defs)
            raw = canon(cj)
            if isinstance(cj, ast.Name) and cj.id in cand_lists or re.fullmatch(r"len\((\w+)\)(>0|!=0|>=1)", raw) and re.fullmatch(r"len\((\w+)\)(>0|!=0|>=1)", raw).group(1) in cand_lists:
                continue  # nothing to cut
            if f"{tree_p}.levels[{lv}+1]" in t_ or f"{tree_p}._levels[{lv}+1]" in t_:
                obs.append(ctx.ob("C08.O4", f, G.test, status=VIOLATION, detail=f"the cut of a level is skipped unless `{norm(cj)}`: when the level below is still empty (or has no active deme) ALL `limit` slots are free and the candidates of one round can outnumber them, so the first round onto an empty level is unlimited", construct="guard"))
                return obs
            obs.append(ctx.ob("C08.O4", f, G.test, status=INCONCLUSIVE, detail=f"the cut of a level is only made under `{norm(cj)[:70]}`", construct="guard"))
            return obs
        # continue with the wrapped cut; statements of the wrapper body count as the loop body
        L = ast.copy_location(ast.For(target=L.target, iter=L.iter, body=[x for x in L.body if x is not G] + list(G.body), orelse=[]), L)
        G = inner_ifs[0]
    # ---- guard: A + len(C) > limit
    import copy

    from ..core import _Subst

    # arithmetic locals (e.g. a hoisted `cutoff = limit - active`) are substituted before the guard is read
    arith = {k: v for k, v in defs.items() if len(v) == 1 and isinstance(v[0], ast.BinOp)}
    t = _strip_not(_Subst(arith, 3).visit(copy.deepcopy(G.test)))
    okg = False
    A = C = None
    shape = False
    if isinstance(t, ast.Compare) and len(t.ops) == 1:
        l, r, op = t.left, t.comparators[0], t.ops[0]
        if isinstance(op, (ast.Lt, ast.LtE)):
            l, r, op = r, l, (ast.Gt() if isinstance(op, ast.Lt) else ast.GtE())
        # also accept  len(C) > limit - A   /   A > limit - len(C)
        if isinstance(op, (ast.Gt, ast.GtE)) and isinstance(r, ast.BinOp) and isinstance(r.op, ast.Sub) and canon(r.left) == f"{sn}.limit" and not (isinstance(l, ast.BinOp) and isinstance(l.op, ast.Add)):
            l, r = ast.BinOp(left=l, op=ast.Add(), right=r.right), r.left
        from ..core import _split_offset

        rb, roff = _split_offset(r)
        if isinstance(op, (ast.Gt, ast.GtE)) and canon(rb) == f"{sn}.limit" and isinstance(l, ast.BinOp) and isinstance(l.op, ast.Add):
            parts = [l.left, l.right]
            lens = [p for p in parts if isinstance(p, ast.Call) and norm(p.func) == "len" and isinstance(p.args[0], ast.Name)]
            rest = [p for p in parts if p not in lens]
            if len(lens) == 1 and len(rest) == 1:
                C = lens[0].args[0].id
                A = rest[0]
                # A + len(C) > limit + k: k > 0 lets more than `limit` through; `>=` (k = -1) indexes one past the sorted list
                eff = roff - (1 if isinstance(op, ast.GtE) else 0)
                shape = eff != 0
                okg = eff == 0
    if not okg:
        obs.append(ctx.ob("C08.O4", f, G.test, status=VIOLATION if shape else INCONCLUSIVE, detail=f"guard is `{norm(G.test)}`, not `active + len(candidates) > limit` (with `>=` or another bound the else-branch no longer guarantees active + candidates <= limit)", construct="guard"))
        return obs
    # the list counted by the guard must be the list of CANDIDATES: counting the parents they come from (one parent may offer
    # several candidates) lets a level pass uncut although its candidates outnumber the free slots
    for nm, dd in defs.items():
        if nm != C and len(dd) >= 1 and isinstance(dd[0], (ast.ListComp, ast.Call)):
            comp0 = dd[0].args[0] if isinstance(dd[0], ast.Call) and norm(dd[0].func) == "sorted" and dd[0].args else dd[0]
            if isinstance(comp0, (ast.ListComp, ast.GeneratorExp)) and len(comp0.generators) == 2 and isinstance(comp0.generators[0].iter, ast.Name) and comp0.generators[0].iter.id == C and canon(comp0.generators[1].iter).startswith(f"{cand_p}["):
                obs.append(ctx.ob("C08.O4", f, G.test, status=VIOLATION, detail=f"guard is `{norm(G.test)}`: it counts the PARENTS `{C}`, while the candidates that would be created are `{nm}` (several per parent): a level whose parents fit into the free slots is not cut although its candidates do not", construct="guard"))
                return obs
    obs.append(ctx.ob("C08.O4", f, t, detail=f"guard: {norm(A)} + len({C}) > limit", construct="guard"))
    # ---- A = number of is_active demes of tree.levels[level + 1]
    a_txt = canon(A, defs)
    want_a = [
        f"len([demefordemein{tree_p}.levels[{lv}+1]ifdeme.is_active])",
        f"sum((1fordemein{tree_p}.levels[{lv}+1]ifdeme.is_active))",
        f"sum((deme.is_activefordemein{tree_p}.levels[{lv}+1]))",
    ]
    a_norm = a_txt
    ok_a = False
    Aexp = A
    while isinstance(Aexp, ast.Name) and Aexp.id in defs and len(defs[Aexp.id]) == 1:
        Aexp = defs[Aexp.id][0]
    st_a = INCONCLUSIVE
    why_a = f"cannot recognise `{norm(Aexp)[:70]}` as the number of active demes of {tree_p}.levels[{lv} + 1]"
    if isinstance(Aexp, ast.Call) and norm(Aexp.func) in ("len", "sum") and Aexp.args and isinstance(Aexp.args[0], (ast.ListComp, ast.GeneratorExp)) and len(Aexp.args[0].generators) == 1:
        comp = Aexp.args[0]
        g = comp.generators[0]
        v = g.target.id if isinstance(g.target, ast.Name) else "?"
        # a pre-filtered local list as the source: fold its filter into this one
        if isinstance(g.iter, ast.Name) and len(defs.get(g.iter.id, [])) == 1 and isinstance(defs[g.iter.id][0], ast.ListComp) and len(defs[g.iter.id][0].generators) == 1:
            inner = defs[g.iter.id][0]
            ig = inner.generators[0]
            if isinstance(ig.target, ast.Name) and norm(inner.elt) == ig.target.id:
                from ..normalize import _subst

                extra = [_subst(c, {ig.target.id: ast.Name(id=v, ctx=ast.Load())}) for c in ig.ifs]
                g = ast.comprehension(target=g.target, iter=ig.iter, ifs=list(g.ifs) + extra, is_async=0)
                ast.fix_missing_locations(g)
        it = canon(g.iter, {k: d for k, d in defs.items() if k != lv})
        src_ok = it in (f"{tree_p}.levels[{lv}+1]", f"{tree_p}._levels[{lv}+1]", f"{tree_p}.levels[1+{lv}]")
        src_levels = it.startswith((f"{tree_p}.levels[", f"{tree_p}._levels["))
        conds = [canon(c) for c in g.ifs]
        counts_elems = norm(Aexp.func) == "len" or canon(comp.elt) in ("1", "True")
        counts_flag = norm(Aexp.func) == "sum" and not g.ifs and canon(comp.elt) in (f"{v}.is_active", f"int({v}.is_active)", f"1if{v}.is_activeelse0")
        if src_ok and ((counts_elems and conds == [f"{v}.is_active"]) or counts_flag):
            st_a = OK
        elif src_ok and counts_elems and not conds:
            st_a, why_a = OK, "all demes of the target level are counted (an over-count: the bound still holds)"
        elif src_levels and not src_ok:
            st_a, why_a = VIOLATION, f"`{norm(Aexp)[:70]}` counts demes of `{norm(g.iter)}`, not of the target level {tree_p}.levels[{lv} + 1] (an under-count lets the level overflow)"
        elif src_ok and counts_elems and f"{v}.is_active" in conds and len(conds) > 1:
            st_a, why_a = VIOLATION, f"`{norm(Aexp)[:90]}` counts only some of the active demes of the target level (an under-count lets the level overflow)"
        elif src_ok and counts_elems and len(conds) == 1 and isinstance(g.ifs[0], ast.BoolOp) and isinstance(g.ifs[0].op, ast.And) and any(canon(x) == f"{v}.is_active" for x in g.ifs[0].values):
            st_a, why_a = VIOLATION, f"`{norm(Aexp)[:90]}` counts only some of the active demes of the target level (an under-count lets the level overflow)"
        elif src_ok and counts_elems and conds and all(re.fullmatch(r"not" + re.escape(v) + r"\.is_active|" + re.escape(v) + r"\.is_active(==|is)False", c) for c in conds):
            st_a, why_a = VIOLATION, f"`{norm(Aexp)[:70]}` counts the INACTIVE demes of the target level"
    elif isinstance(Aexp, ast.Call) and norm(Aexp.func) in ("len", "sum") and Aexp.args and isinstance(Aexp.args[0], (ast.ListComp, ast.GeneratorExp)) and len(Aexp.args[0].generators) == 2 and canon(Aexp.args[0].generators[1].iter).endswith(".children"):
        g1, g2 = Aexp.args[0].generators
        if isinstance(g1.target, ast.Name) and canon(g2.iter) == f"{g1.target.id}.children" and not canon(g1.iter, {k: d for k, d in defs.items() if k != lv}).startswith((f"{tree_p}.levels[{lv}]", f"{tree_p}._levels[{lv}]")):
            st_a, why_a = VIOLATION, f"`{norm(Aexp)[:90]}` counts only the children of `{norm(g1.iter)}` (the parents that have candidates this round), not every active deme of the target level: an under-count lets the level overflow"
    elif isinstance(Aexp, ast.Constant):
        st_a, why_a = VIOLATION, f"the number of active demes is taken to be the constant {norm(Aexp)}"
    if st_a == INCONCLUSIVE and isinstance(Aexp, ast.Call) and norm(Aexp.func) in ("len", "sum") and Aexp.args and isinstance(Aexp.args[0], (ast.ListComp, ast.GeneratorExp)) and len(Aexp.args[0].generators) == 1:
        # counted through a listing accessor of the tree: [d for l, d in tree.<listing> if l == level + 1]
        g = Aexp.args[0].generators[0]
        if isinstance(g.iter, ast.Attribute) and canon(g.iter.value) == tree_p and isinstance(g.target, ast.Tuple) and len(g.target.elts) == 2 and all(isinstance(x, ast.Name) for x in g.target.elts):
            from .common import deme_listing

            ln, dn = g.target.elts[0].id, g.target.elts[1].id
            d = deme_listing(ctx, "DemeTree", g.iter.attr)
            lvl_ok = len(g.ifs) >= 1 and any(cond_is(c, f"{ln} == {lv} + 1") or cond_is(c, f"{lv} + 1 == {ln}") or canon(c) in (f"{ln}=={lv}+1", f"{ln}==1+{lv}", f"{ln}-1=={lv}") for c in g.ifs)
            own_extra = [c for c in g.ifs if not (cond_is(c, f"{ln} == {lv} + 1") or canon(c) in (f"{ln}=={lv}+1", f"{ln}==1+{lv}", f"{lv}+1=={ln}", f"{ln}-1=={lv}", f"{dn}.is_active"))]
            counts_elems = norm(Aexp.func) == "len" or canon(Aexp.args[0].elt) in ("1", "True")
            extra = sorted(x for x in d["filters"] if x != "is_active")
            if d["elt"] == "pair" and d["level_no_exact"] and d["levels"] == 0 and lvl_ok and counts_elems and not own_extra:
                if not extra:
                    st_a, why_a = OK, f"active = number of demes {tree_p}.{g.iter.attr} lists for the target level" + ("" if "is_active" in d["filters"] or any(canon(c) == f"{dn}.is_active" for c in g.ifs) else " (all demes: an over-count, the bound still holds)")
                elif any(x.startswith("?") or x.startswith("not ") for x in extra):
                    st_a, why_a = VIOLATION, f"`{norm(Aexp)[:90]}` counts only the demes {tree_p}.{g.iter.attr} lists, which leaves out active demes ({', '.join(extra)[:100]}): an under-count lets the level overflow"
    obs.append(ctx.ob("C08.O4", f, Aexp, status=st_a, detail="active = number of is_active demes on the target level" if st_a == OK and why_a.startswith("cannot") else why_a, construct="active-count"))
    # ---- C = concatenation of candidates[d].individuals over the parents D of this level; later filtered lists are exactly those
    cdefs = [dd for dd in defs.get(C, []) if not (isinstance(dd, ast.Call) and norm(dd.func) == "sorted" and dd.args and norm(dd.args[0]) == C)]
    # C = sorted(<comprehension>, ...): the list is built and sorted in one expression
    sorted_in_def = None
    if len(cdefs) == 1 and isinstance(cdefs[0], ast.Call) and norm(cdefs[0].func) == "sorted" and cdefs[0].args and isinstance(cdefs[0].args[0], (ast.ListComp, ast.GeneratorExp)):
        sorted_in_def = cdefs[0]
        comp0 = cdefs[0].args[0]
        cdefs = [ast.copy_location(ast.ListComp(elt=comp0.elt, generators=comp0.generators), comp0)]
    ok_c = False
    D = None
    # heapq.merge only interleaves its inputs: the result is best-first only if every parent's list already is, which no
    # candidate generator is obliged to deliver
    for dd in cdefs:
        m0 = dd.args[0] if isinstance(dd, ast.Call) and norm(dd.func) in ("list", "tuple") and dd.args else dd
        if isinstance(m0, ast.Call) and norm(m0.func).split(".")[-1] == "merge" and norm(m0.func) in ("merge", "heapq.merge") and any(isinstance(a_, ast.Starred) for a_ in m0.args):
            obs.append(ctx.ob("C08.O4", f, dd, status=VIOLATION, detail=f"`{C}` is `{norm(dd)[:90]}`: heapq.merge interleaves the parents' lists without sorting them, so the list is best-first only if every parent's candidates already are (nothing obliges a candidate generator to that); read at the pivot index an unordered list lets more than limit - active candidates through", construct="sort"))
            return obs
    if len(cdefs) == 1 and isinstance(cdefs[0], ast.ListComp) and len(cdefs[0].generators) == 2:
        g1, g2 = cdefs[0].generators
        if isinstance(g1.target, ast.Name) and isinstance(g2.target, ast.Name) and not g1.ifs and not g2.ifs and norm(cdefs[0].elt) == g2.target.id and canon(g2.iter) == f"{cand_p}[{g1.target.id}].individuals" and isinstance(g1.iter, ast.Name):
            D = g1.iter.id
            ok_c = True
    obs.append(ctx.ob("C08.O4", f, cdefs[0] if cdefs else G, status=OK if ok_c else INCONCLUSIVE, detail=f"{C} = all candidates of the level's parents `{D}`" if ok_c else f"cannot recognise `{C}` as the concatenation of the per-parent candidate lists", construct="level-candidates"))
    if not ok_c:
        return obs
    ddefs = defs.get(D, [])
    st_d = INCONCLUSIVE
    if len(ddefs) == 1 and isinstance(ddefs[0], ast.ListComp) and len(ddefs[0].generators) == 1 and canon(ddefs[0].generators[0].iter) in (f"{cand_p}.keys()", cand_p, f"list({cand_p})", f"list({cand_p}.keys())") and isinstance(ddefs[0].generators[0].target, ast.Name) and norm(ddefs[0].elt) == ddefs[0].generators[0].target.id:
        dv = ddefs[0].generators[0].target.id
        cs = ddefs[0].generators[0].ifs
        if len(cs) == 1 and (cond_is(cs[0], f"{dv}.level == {lv}") or cond_is(cs[0], f"{lv} == {dv}.level")):
            st_d = OK
        elif len(cs) == 1 and isinstance(cs[0], ast.Compare) and f"{dv}.level" in canon(cs[0]) and lv in canon(cs[0]):
            st_d = VIOLATION
        else:
            st_d = _parents_with_extras(cs, dv, lv, cand_p, from_levels=False)
    elif len(ddefs) == 1 and isinstance(ddefs[0], ast.ListComp) and len(ddefs[0].generators) == 1 and canon(ddefs[0].generators[0].iter) in (f"{tree_p}.levels[{lv}]", f"{tree_p}._levels[{lv}]") and isinstance(ddefs[0].generators[0].target, ast.Name) and norm(ddefs[0].elt) == ddefs[0].generators[0].target.id:
        # the level's demes that are keys of the candidates: the same set
        dv = ddefs[0].generators[0].target.id
        st_d = _parents_with_extras(ddefs[0].generators[0].ifs, dv, lv, cand_p, from_levels=True)
    elif len(ddefs) == 1 and isinstance(ddefs[0], ast.ListComp) and len(ddefs[0].generators) == 1 and isinstance(ddefs[0].generators[0].iter, ast.Attribute) and canon(ddefs[0].generators[0].iter.value) == tree_p and isinstance(ddefs[0].generators[0].target, ast.Tuple) and len(ddefs[0].generators[0].target.elts) == 2 and all(isinstance(x, ast.Name) for x in ddefs[0].generators[0].target.elts) and norm(ddefs[0].elt) == ddefs[0].generators[0].target.elts[1].id:
        # the parents are taken from one of the tree's listings (pairs of level number and deme), restricted to the candidates' keys
        from .common import deme_listing

        g0 = ddefs[0].generators[0]
        ln, dv = g0.target.elts[0].id, g0.target.elts[1].id
        dl = deme_listing(ctx, "DemeTree", g0.iter.attr)
        conds = []
        for c in g0.ifs:
            conds.extend(c.values if isinstance(c, ast.BoolOp) and isinstance(c.op, ast.And) else [c])
        lvl_ok = any(canon(c) in (f"{ln}=={lv}", f"{lv}=={ln}", f"{dv}.level=={lv}") for c in conds)
        member = any(canon(c) in (f"{dv}in{cand_p}", f"{dv}in{cand_p}.keys()") for c in conds)
        if dl["elt"] == "pair" and dl["level_no_exact"] and lvl_ok and member and dl["filters"]:
            # the listing selects by the demes' state (active, ...): parents outside it keep every candidate they offered
            st_d = VIOLATION
        elif dl["elt"] == "pair" and dl["level_no_exact"] and lvl_ok and member and dl["levels"] is not None and dl["levels"] >= -1 and len(conds) == 2:
            st_d = OK
    obs.append(ctx.ob("C08.O4", f, ddefs[0] if ddefs else G, status=st_d, detail=f"{D} = the candidate parents on level `{lv}`" if st_d == OK else f"`{D}` (`{norm(ddefs[0])[:110] if ddefs else '?'}`) is not exactly the candidate parents whose level is `{lv}`" + (": the candidates of a parent left out (another level, or a parent that has just stopped) are neither ranked nor cut, so more than the free slots survive" if st_d == VIOLATION else ""), construct="level-parents"))
    # ---- sort of C
    sorts = []
    for n in L.body:
        if isinstance(n, ast.Expr) and isinstance(n.value, ast.Call) and isinstance(n.value.func, ast.Attribute) and n.value.func.attr == "sort" and norm(n.value.func.value) == C:
            sorts.append((n, n.value))
        if isinstance(n, ast.Assign) and norm(n.targets[0]) == C and isinstance(n.value, ast.Call) and norm(n.value.func) == "sorted" and n.value.args and norm(n.value.args[0]) == C:
            sorts.append((n, n.value))
    if sorted_in_def is not None and not sorts:
        def_stmt = next((n for n in ast.walk(L) if isinstance(n, ast.Assign) and n.value is sorted_in_def), L)
        sorts.append((def_stmt, sorted_in_def))
    if len(sorts) != 1:
        obs.append(ctx.ob("C08.O4", f, L, status=VIOLATION if not sorts else INCONCLUSIVE, detail=f"`{C}` is sorted {len(sorts)} times before the pivot is read (the pivot index only bounds the survivors of a sorted list)", construct="sort"))
        return obs
    desc, key_txt = _kind_of_order(sorts[0][1])
    if desc is None or (key_txt or "").startswith("?"):
        obs.append(ctx.ob("C08.O4", f, sorts[0][0], status=INCONCLUSIVE, detail="sort order/key not statically known", construct="sort"))
        return obs
    # ---- pivot = C[limit - A] read after the sort with C unmodified in between
    body_g = G.body
    gdefs = {}
    for n in ast.walk(G):
        if isinstance(n, ast.Assign) and len(n.targets) == 1 and isinstance(n.targets[0], ast.Name):
            gdefs.setdefault(n.targets[0].id, []).append(n.value)
    alldefs = {**defs, **gdefs}
    ws = [n for n in ast.walk(G) if isinstance(n, ast.Assign) and len(n.targets) == 1 and norm(n.targets[0]).endswith(".individuals")]
    if len(ws) != 1 or not isinstance(ws[0].value, ast.ListComp):
        # positive evidence (for "the kept candidates are the best of the level" only): what is written back for a parent is
        # computed without the pooled ranking `C` - from the parent's own list and counters - so candidates of different
        # parents are never compared with each other
        if not ties_matter and len(ws) == 1:
            W0 = ws[0]
            seen, todo = set(), [x.id for x in ast.walk(W0.value) if isinstance(x, ast.Name)]
            while todo:
                nm = todo.pop()
                if nm in seen:
                    continue
                seen.add(nm)
                for dv in alldefs.get(nm, []):
                    todo.extend(x.id for x in ast.walk(dv) if isinstance(x, ast.Name))
            in_parent_loop = [n for n in ast.walk(G) if isinstance(n, ast.For) and any(x is W0 for x in ast.walk(n)) and norm(n.iter) == D]
            if C not in seen and in_parent_loop and isinstance(in_parent_loop[0].target, ast.Name) and canon(W0.targets[0]) == f"{cand_p}[{in_parent_loop[0].target.id}].individuals":
                obs.append(ctx.ob("C08.O4", f, W0, status=VIOLATION, detail=f"what is kept for a parent (`{norm(W0.value)[:80]}`) is computed from that parent's own candidates and counters only, never from the level-wide ranking `{C}`: candidates of different parents are not compared, so a worse candidate of an earlier parent is kept over a better one of a later parent", construct="write-back"))
                return obs
        obs.append(ctx.ob("C08.O4", f, G, status=INCONCLUSIVE, detail="expected one write-back comprehension inside the guard", construct="write-back"))
        return obs
    W = ws[0]
    comp = W.value
    g = comp.generators[0]
    wl = [n for n in ast.walk(G) if isinstance(n, ast.For) and any(x is W for x in ast.walk(n))]
    ok_w = len(wl) == 1 and isinstance(wl[0].target, ast.Name) and norm(wl[0].iter) == D and canon(W.targets[0]) == f"{cand_p}[{wl[0].target.id}].individuals" and len(comp.generators) == 1 and canon(g.iter) == f"{cand_p}[{wl[0].target.id}].individuals" and isinstance(g.target, ast.Name) and norm(comp.elt) == g.target.id and len(g.ifs) == 1
    wb_partial = len(wl) == 1 and isinstance(wl[0].iter, ast.Subscript) and norm(wl[0].iter.value) == D
    obs.append(ctx.ob("C08.O4", f, W, status=OK if ok_w else VIOLATION if wb_partial else INCONCLUSIVE, detail=f"every list counted in `{C}` is filtered in place by one predicate" if ok_w else f"the lists filtered after the cut are not exactly the per-parent lists of `{D}` counted in `{C}` (some counted candidates escape the cut)", construct="write-back"))
    if not ok_w:
        return obs
    ind = g.target.id
    pred = g.ifs[0]
    if not (isinstance(pred, ast.Compare) and len(pred.ops) == 1):
        obs.append(ctx.ob("C08.O4", f, pred, status=INCONCLUSIVE, detail=f"keep-predicate `{norm(pred)}` is not a single comparison", construct="keep-pred"))
        return obs
    l, r, op = pred.left, pred.comparators[0], pred.ops[0]
    if isinstance(op, (ast.In, ast.NotIn)) and norm(l) == ind:
        # membership in a slice of the sorted level candidates: list membership uses Individual.__eq__ (fitness equivalence)
        sub = {k: v for k, v in alldefs.items() if k not in (C, D)}
        rt = canon(r, sub)
        want_prefix = f"{C}[:{sn}.limit-{canon(A, sub)}]"
        if isinstance(op, ast.In) and rt == want_prefix and desc and key_txt is None:
            if ties_matter:
                obs.append(ctx.ob("C08.O4", f, pred, status=VIOLATION, detail=f"keep-predicate `{norm(pred)}`: membership in the accepted prefix compares by fitness equivalence, so every candidate TIED with an accepted one is accepted too and more than limit - active survive", construct="keep-pred"))
            else:
                obs.append(ctx.ob("C08.O4", f, pred, detail="keeps the candidates found in the best (limit - active) prefix: exactly the free slots when the fitness values are distinct", construct="keep-pred"))
        else:
            obs.append(ctx.ob("C08.O4", f, pred, status=INCONCLUSIVE, detail=f"keep-predicate `{norm(pred)}`: cannot relate `{rt[:60]}` to the best (limit - active) prefix of the sorted candidates", construct="keep-pred"))
        return obs
    # orient as  key(ind) OP key(pivot)
    if ind not in {x.id for x in ast.walk(l) if isinstance(x, ast.Name)}:
        flip = {ast.Lt: ast.Gt, ast.Gt: ast.Lt, ast.LtE: ast.GtE, ast.GtE: ast.LtE}
        if type(op) not in flip:
            obs.append(ctx.ob("C08.O4", f, pred, status=INCONCLUSIVE, detail=f"comparator in `{norm(pred)}` not understood", construct="keep-pred"))
            return obs
        l, r, op = r, l, flip[type(op)]()
    lk = canon(l).replace(ind, "$")
    # pivot side: key(C[limit - A])
    sub = {k: v for k, v in alldefs.items() if k not in (C, D)}
    rexp = canon(r, sub)
    piv_idx = f"{sn}.limit-{canon(A, sub)}"
    want_piv_el = f"{C}[{piv_idx}]"
    want_right = (key_txt or "$").replace("$", want_piv_el)
    ok_piv = rexp == want_right
    if not ok_piv:
        # positive evidence = same shape with another index built from limit / active and integer constants
        pre, post = want_right.split(piv_idx) if piv_idx in want_right else (None, None)
        definite = False
        if pre is not None and rexp.startswith(pre) and rexp.endswith(post):
            idx = rexp[len(pre):len(rexp) - len(post)] if post else rexp[len(pre):]
            rest_idx = idx.replace(f"{sn}.limit", "").replace(canon(A, sub), "")
            definite = re.fullmatch(r"[-+\d()]*", rest_idx) is not None
        obs.append(ctx.ob("C08.O4", f, r, status=VIOLATION if definite else INCONCLUSIVE, detail=f"the pivot is `{rexp}`; the counting argument needs `{want_right}` (index limit - active of the sorted level candidates): with a shifted index up to one more candidate per level survives", construct="pivot"))
    else:
        obs.append(ctx.ob("C08.O4", f, r, detail=f"pivot = {C}[limit - active] under the sort key", construct="pivot"))
    ok_key = lk == (key_txt or "$")
    strict_ok = (desc and isinstance(op, ast.Gt)) or ((not desc) and isinstance(op, ast.Lt))
    if not ok_key:
        obs.append(ctx.ob("C08.O4", f, pred, status=VIOLATION, detail=f"the keep-predicate compares `{norm(l)}` but the list was sorted by `{(key_txt or 'the elements themselves').replace('$', 'x')}`: sort order and comparator disagree, so the pivot index does not bound the survivors", construct="keep-pred"))
    elif not strict_ok:
        obs.append(ctx.ob("C08.O4", f, pred, status=VIOLATION, detail=f"keep-predicate `{norm(pred)}` on a list sorted {'descending' if desc else 'ascending'}: it must be the STRICT comparison pointing to the front of the list ({'>' if desc else '<'}); a non-strict or reversed comparator keeps the pivot (and its ties) and exceeds limit - active", construct="keep-pred"))
    else:
        obs.append(ctx.ob("C08.O4", f, pred, detail=f"keeps exactly the elements strictly before the pivot in the sort order: at most limit - active survive", construct="keep-pred"))
    # C untouched between sort and pivot read: no other mutation / rebinding of C in the loop body
    muts = []
    for n in ast.walk(L):
        if isinstance(n, ast.Call) and isinstance(n.func, ast.Attribute) and norm(n.func.value) == C and n.func.attr in ("append", "extend", "insert", "pop", "remove", "clear", "reverse", "sort") and n is not sorts[0][1]:
            muts.append(n)
        if isinstance(n, (ast.Assign, ast.AugAssign)) and any(norm(tt) == C or (isinstance(tt, ast.Subscript) and norm(tt.value) == C) for tt in (n.targets if isinstance(n, ast.Assign) else [n.target])) and n is not sorts[0][0] and not (isinstance(n, ast.Assign) and n.value is (cdefs[0] if cdefs else None)):
            muts.append(n)
    obs.append(ctx.ob("C08.O4", f, muts[0] if muts else sorts[0][0], status=OK if not muts else VIOLATION, detail=f"`{C}` is not modified between the sort and the pivot read" if not muts else f"`{C}` is modified after being sorted: `{norm(muts[0])}`", construct="sorted-stable"))
    # nothing else in the filter adds candidates
    return obs


def o5(ctx: Ctx):
    """O5 every non-leaf level is processed by LevelLimit."""
    f = ctx.prog.cls("LevelLimit").methods["__call__"]
    tree_p = f.params()[2]
    loops = [n for n in f.node.body if isinstance(n, ast.For)]
    if len(loops) != 1:
        return [ctx.ob("C08.O5", f, f.node, status=INCONCLUSIVE, detail="level loop not found", construct="levels")]
    fdefs = local_defs(f)
    it = canon(loops[0].iter, fdefs)
    st_l = INCONCLUSIVE
    m = re.fullmatch(r"range\((.*)\)", it)
    if m and "," not in m.group(1):
        from ..core import _split_offset

        arg = ast.parse(m.group(1), mode="eval").body
        base, off = _split_offset(arg)
        bt = canon(base)
        msl = re.fullmatch(r"len\(" + re.escape(tree_p) + r"\._?levels\[:-(\d+)\]\)", bt)
        msl2 = re.fullmatch(r"len\(" + re.escape(tree_p) + r"\._?levels\[(\d+):\]\)", bt)
        if msl:
            st_l = OK if (int(msl.group(1)) - off) == 1 else VIOLATION
        elif msl2:
            st_l = OK if (int(msl2.group(1)) - off) == 1 else VIOLATION  # len(levels[k:]) = height - k
        elif bt in (f"len({tree_p}.levels)", f"len({tree_p}._levels)", f"{tree_p}.height"):
            st_l = OK if off == -1 else VIOLATION
    elif m:
        parts = [x for x in m.group(1).split(",")]
        if parts and parts[0] not in ("0",):
            st_l = VIOLATION if re.fullmatch(r"\d+", parts[0]) else INCONCLUSIVE
    early = [n for n in ast.walk(loops[0]) if isinstance(n, (ast.Break, ast.Return))]
    conts = [n for n in ast.walk(loops[0]) if isinstance(n, ast.Continue)]
    obs = [ctx.ob("C08.O5", f, loops[0], status=st_l, detail="levels 0 .. height-2 are all limited" if st_l == OK else f"LevelLimit iterates `{norm(loops[0].iter)}`: some non-leaf level is not limited" if st_l == VIOLATION else f"cannot tell which levels `{norm(loops[0].iter)}` covers", construct="levels")]
    if early:
        obs.append(ctx.ob("C08.O5", f, early[0], status=VIOLATION, detail="the level loop can stop early", construct="levels-early"))
    if conts:
        obs.append(ctx.ob("C08.O5", f, conts[0], status=INCONCLUSIVE, detail="the level loop can skip a level", construct="levels-early"))
    rets = [r for r in body_walk(f.node) if isinstance(r, ast.Return)]
    okr = len(rets) == 1 and rets[0].value is not None and norm(rets[0].value) == f.params()[1]
    obs.append(ctx.ob("C08.O5", f, rets[0] if rets else f.node, status=OK if okr else VIOLATION if (not rets or any(r.value is None for r in rets)) else INCONCLUSIVE, detail="returns the filtered mapping" if okr else "LevelLimit does not return the mapping it filtered", construct="returns"))
    return obs


def o6(ctx: Ctx):
    """O6 _do_sprout creates exactly one child per returned candidate (R07.1)."""
    out = []
    for o in c07.r07_1(ctx):
        if o.construct in ("one-per-candidate", "register-level", "kw:target_level"):
            o.rule = "C08.O6"
            out.append(o)
    return out


def o7(ctx: Ctx):
    """O7 the order used by LevelLimit's strict comparison is the tabled total preorder of Individuals (R13.4): `>` excludes ties with the pivot."""
    from . import c13

    out = []
    for o in c13.r13_4(ctx, strict_ties=True):
        o.rule = "C08.O7"
        out.append(o)
    return out


RULES = [
    ("C08.O1", o1, 10),
    ("C08.O2", o2, 10),
    ("C08.O3", o3, 7),
    ("C08.O4", o4, 8),
    ("C08.O5", o5, 2),
    ("C08.O6", o6, 3),
    ("C08.O7", o7, 3),
]
