"""Per-path summaries of ProblemWrapper.evaluate implementations (shared by C03 and C16)."""
from __future__ import annotations

import ast
from dataclasses import dataclass, field

from ..cfg import enumerate_paths
from ..core import Ctx, is_self_attr
from ..model import AnalysisError, FuncInfo, Inconclusive, body_walk, norm


@dataclass
class PathSummary:
    forwards: int = 0  # number of calls reaching the inner problem's evaluate (saturating at 2)
    increments: int = 0  # number of `+= 1` on the class's evaluation counter (saturating at 2)
    inc_before_forward: bool = False
    bad_increment: list = field(default_factory=list)  # increments that are not `+= 1`
    args_ok: bool = True
    ret: str = ""  # "forwarded" | "sentinel" | "other:<text>" | "none"
    ret_node: ast.AST | None = None
    conds: list = field(default_factory=list)  # [(cond node, outcome)]
    nodes: list = field(default_factory=list)
    events: list = field(default_factory=list)  # ordered ("forward"|"inc"|"store:<attr>", node)

    def pair(self):
        return (self.forwards, self.increments)


def counter_attr(ctx: Ctx, ci) -> str | None:
    """The attribute behind the wrapper's n_evaluations accessor (own or inherited)."""
    m = ctx.prog.lookup_method(ci, "n_evaluations")
    if m is None:
        return None
    for n in body_walk(m.node):
        if isinstance(n, ast.Return) and isinstance(n.value, ast.Attribute) and is_self_attr(n.value, None, m.self_name()):
            return n.value.attr
    raise Inconclusive(f"{ci.name}.n_evaluations does not return a plain attribute")


def _is_forward(ctx: Ctx, f: FuncInfo, call: ast.Call):
    """'inner' for self._inner.evaluate(..), 'super' for super().evaluate(..), else None."""
    fn = call.func
    # the bound method handed to a helper that calls it: `self._timed(self._inner.evaluate, x, *args)`
    for a_ in call.args:
        if isinstance(a_, ast.Attribute) and a_.attr == "evaluate" and (is_self_attr(a_.value, "_inner", f.self_name()) or (isinstance(a_.value, ast.Call) and norm(a_.value.func) == "super")):
            return "via-helper"
    if isinstance(fn, ast.Name):
        # a local holding the bound method: `forward = super().evaluate; ...; forward(x, *args, **kwargs)`
        from ..core import local_defs

        ds = local_defs(f).get(fn.id, [])
        if len(ds) == 1 and isinstance(ds[0], ast.Attribute) and ds[0].attr == "evaluate":
            fn = ds[0]
    if not (isinstance(fn, ast.Attribute) and fn.attr == "evaluate"):
        return None
    if is_self_attr(fn.value, "_inner", f.self_name()):
        return "inner"
    if isinstance(fn.value, ast.Call) and norm(fn.value.func) == "super":
        return "super"
    # any other route to a Problem.evaluate (e.g. through an alias of the inner problem)
    for cs in ctx.res.callsites(f):
        if cs.node is call and any(t.name == "evaluate" and t.cls is not None and ctx.prog.is_subclass(t.cls, ctx.prog.cls("Problem")) for t in cs.targets):
            return "alias"
    return None


def _args_unchanged(f: FuncInfo, call: ast.Call) -> bool:
    a = f.node.args
    pos = [x.arg for x in a.posonlyargs + a.args][1:]
    want = list(pos)
    got_ok = True
    args = list(call.args)
    kws = list(call.keywords)
    got = []
    for x in args:
        if isinstance(x, ast.Starred):
            got.append("*" + norm(x.value))
        else:
            got.append(norm(x))
    exp = list(want) + (["*" + a.vararg.arg] if a.vararg else [])
    if got != exp:
        return False
    expkw = ["**" + a.kwarg.arg] if a.kwarg else []
    gotkw = [("**" + norm(k.value)) if k.arg is None else f"{k.arg}={norm(k.value)}" for k in kws]
    return gotkw == expkw and got_ok


def evaluate_summaries(ctx: Ctx, ci, _depth=0) -> list[PathSummary]:
    """Path summaries of the evaluate that instances of class ci execute."""
    f = ctx.prog.lookup_method(ci, "evaluate")
    if f is None:
        raise AnalysisError(f"{ci.name} has no evaluate")
    return function_summaries(ctx, f, ci, _depth)


def function_summaries(ctx: Ctx, f: FuncInfo, ci, _depth=0) -> list[PathSummary]:
    if _depth > 6:
        raise Inconclusive("wrapper evaluate recursion too deep")
    cattr = counter_attr(ctx, ci)
    selfn = f.self_name()
    cfg = ctx.cfg(f)
    if cfg.loop_info:
        raise Inconclusive(f"{f.short} contains a loop; path summaries are only defined for loop-free wrappers")
    paths = enumerate_paths(cfg, max_paths=400, loop_bound=1)
    out: list[PathSummary] = []
    for path in paths:
        sums = [PathSummary()]
        fwd_names: set[str] = set()
        raised = False
        for node, lab in path:
            if node.kind == "raise":
                raised = True
            if node.kind == "cond":
                for s in sums:
                    s.conds.append((node, lab))
            a = node.ast
            if a is None:
                continue
            for s in sums:
                s.nodes.append(node)
            # forwards inside this node
            calls = [c for c in ast.walk(a) if isinstance(c, ast.Call)]
            fw = [(c, _is_forward(ctx, f, c)) for c in calls]
            fw = [(c, k) for c, k in fw if k]
            for c, k in fw:
                if k == "via-helper":
                    # the helper must call the function it is handed exactly once, with the arguments it is handed
                    cs = next((c_ for c_ in ctx.res.callsites(f) if c_.node is c), None)
                    tg = cs.targets if cs is not None else []
                    pos = next(i for i, a_ in enumerate(c.args) if isinstance(a_, ast.Attribute) and a_.attr == "evaluate")
                    okh = False
                    if len(tg) == 1:
                        h = tg[0]
                        hp = [x.arg for x in h.node.args.posonlyargs + h.node.args.args]
                        if h.cls is not None and hp:
                            hp = hp[1:]
                        if pos < len(hp):
                            pname = hp[pos]
                            hcalls = [x for x in ast.walk(h.node) if isinstance(x, ast.Call) and isinstance(x.func, ast.Name) and x.func.id == pname]
                            loops = [x for x in ast.walk(h.node) if isinstance(x, (ast.For, ast.While))]
                            rest_formal = hp[pos + 1:] + (["*" + h.node.args.vararg.arg] if h.node.args.vararg else [])
                            got = [("*" + norm(x.value)) if isinstance(x, ast.Starred) else norm(x) for x in (hcalls[0].args if hcalls else [])]
                            gotkw = [("**" + norm(k_.value)) if k_.arg is None else f"{k_.arg}={norm(k_.value)}" for k_ in (hcalls[0].keywords if hcalls else [])]
                            wantkw = ["**" + h.node.args.kwarg.arg] if h.node.args.kwarg else []
                            okh = len(hcalls) == 1 and not loops and got == rest_formal and gotkw == wantkw
                    if not okh:
                        raise Inconclusive(f"{f.short} hands the wrapped evaluate to `{norm(c.func)}`, which is not followed")
                    synth = ast.copy_location(ast.Call(func=c.args[pos], args=list(c.args[pos + 1:]), keywords=list(c.keywords)), c)
                    # the helper may also do the tally (`fitness = evaluate(x); self._n_evals += 1; return fitness`): read it off a
                    # straight-line helper; a branching one is not followed
                    h = tg[0]
                    h_incs = [y for y in ast.walk(h.node) if isinstance(y, ast.AugAssign) and is_self_attr(y.target, cattr, h.self_name())] if h.cls is not None else []
                    h_stores = [y for y in ast.walk(h.node) if isinstance(y, (ast.Assign, ast.AnnAssign)) and any(is_self_attr(t_, None, h.self_name()) for t_ in (y.targets if isinstance(y, ast.Assign) else [y.target]))] if h.cls is not None else []
                    if (h_incs or h_stores) and any(isinstance(y, (ast.If, ast.While, ast.For, ast.Try, ast.IfExp, ast.With)) for y in ast.walk(h.node)):
                        raise Inconclusive(f"{f.short} forwards through `{norm(c.func)}`, which also writes wrapper state under conditions: not followed")
                    if h_stores:
                        raise Inconclusive(f"{f.short} forwards through `{norm(c.func)}`, which also stores wrapper state: not followed")
                    for s in sums:
                        before = [y for y in h_incs if y.lineno < hcalls[0].lineno]
                        after = [y for y in h_incs if y.lineno >= hcalls[0].lineno]
                        for y in before:
                            ok_ = isinstance(y.op, ast.Add) and isinstance(y.value, ast.Constant) and y.value.value == 1
                            if ok_:
                                s.increments = min(2, s.increments + 1)
                                s.events.append(("inc", y))
                            else:
                                s.bad_increment.append(y)
                        if s.increments > 0:
                            s.inc_before_forward = True
                        s.forwards = min(2, s.forwards + 1)
                        s.args_ok = s.args_ok and _args_unchanged(f, synth)
                        s.events.append(("forward", c))
                        s._super_ret = "forwarded"
                        for y in after:
                            ok_ = isinstance(y.op, ast.Add) and isinstance(y.value, ast.Constant) and y.value.value == 1
                            if ok_:
                                s.increments = min(2, s.increments + 1)
                                s.events.append(("inc", y))
                            else:
                                s.bad_increment.append(y)
                    continue
                if k == "super":
                    owner = f.cls
                    parent_f = ctx.prog.lookup_method(owner, "evaluate", after=owner)
                    if parent_f is None:
                        raise Inconclusive("super().evaluate() with no parent implementation")
                    psums = function_summaries(ctx, parent_f, ci, _depth + 1)
                    new = []
                    for s in sums:
                        for ps in psums:
                            s2 = PathSummary(
                                forwards=min(2, s.forwards + ps.forwards),
                                increments=min(2, s.increments + ps.increments),
                                inc_before_forward=s.inc_before_forward or ps.inc_before_forward or (s.increments > 0 and ps.forwards > 0),
                                bad_increment=s.bad_increment + ps.bad_increment,
                                args_ok=s.args_ok and ps.args_ok and _args_unchanged(f, c),
                                ret=s.ret,
                                ret_node=s.ret_node,
                                conds=list(s.conds),
                                nodes=list(s.nodes),
                                events=list(s.events) + [("super:" + ("forwarded" if ps.ret == "forwarded" else ps.ret), c)] + [e for e in ps.events],
                            )
                            s2._super_ret = ps.ret
                            new.append(s2)
                    sums = new
                else:
                    for s in sums:
                        if s.increments > 0:
                            s.inc_before_forward = True
                        s.forwards = min(2, s.forwards + 1)
                        s.args_ok = s.args_ok and _args_unchanged(f, c)
                        s.events.append(("forward", c))
                        s._super_ret = "forwarded"
            # a hook of the wrapper itself run as a statement (`self._after_evaluation()`, a template method): what an instance
            # of class ci executes there is the method looked up from ci
            if isinstance(a, ast.Expr) and isinstance(a.value, ast.Call) and isinstance(a.value.func, ast.Attribute) and isinstance(a.value.func.value, ast.Name) and a.value.func.value.id == selfn and not fw:
                hook = ctx.prog.lookup_method(ci, a.value.func.attr)
                if hook is not None and hook.cls is not None and ctx.prog.is_subclass(hook.cls, ctx.prog.cls("Problem")) and hook is not f:
                    hsums = function_summaries(ctx, hook, ci, _depth + 1)
                    new = []
                    for s in sums:
                        for hs in hsums:
                            s2 = PathSummary(
                                forwards=min(2, s.forwards + hs.forwards),
                                increments=min(2, s.increments + hs.increments),
                                inc_before_forward=s.inc_before_forward or hs.inc_before_forward or (s.increments > 0 and hs.forwards > 0),
                                bad_increment=s.bad_increment + hs.bad_increment,
                                args_ok=s.args_ok and hs.args_ok,
                                ret=s.ret,
                                ret_node=s.ret_node,
                                conds=list(s.conds) + list(hs.conds),
                                nodes=list(s.nodes) + list(hs.nodes),
                                events=list(s.events) + list(hs.events),
                            )
                            if hasattr(s, "_super_ret"):
                                s2._super_ret = s._super_ret
                            new.append(s2)
                    sums = new
                    continue
            # names bound to the forwarded value
            if fw and isinstance(a, (ast.Assign, ast.AnnAssign)) and len(fw) == 1 and (a.value is fw[0][0]):
                tg = a.targets if isinstance(a, ast.Assign) else [a.target]
                for t in tg:
                    if isinstance(t, ast.Name):
                        fwd_names.add(t.id)
            elif isinstance(a, (ast.Assign, ast.AnnAssign, ast.AugAssign)):
                tg = a.targets if isinstance(a, ast.Assign) else [a.target]
                for t in tg:
                    if isinstance(t, ast.Name) and t.id in fwd_names:
                        fwd_names.discard(t.id)  # rebound to something else
            # counter increments / other stores
            if isinstance(a, ast.AugAssign) and is_self_attr(a.target, None, selfn):
                if a.target.attr == cattr:
                    ok = isinstance(a.op, ast.Add) and isinstance(a.value, ast.Constant) and a.value.value == 1
                    for s in sums:
                        if ok:
                            s.increments = min(2, s.increments + 1)
                            s.events.append(("inc", a))
                        else:
                            s.bad_increment.append(a)
            if isinstance(a, (ast.Assign, ast.AnnAssign)):
                tg = a.targets if isinstance(a, ast.Assign) else [a.target]
                for t in tg:
                    if is_self_attr(t, None, selfn):
                        for s in sums:
                            s.events.append(("store:" + t.attr, a))
                        if t.attr == cattr:
                            for s in sums:
                                s.bad_increment.append(a)
            if node.kind == "return":
                v = a.value
                for s in sums:
                    s.ret_node = a
                    if v is None:
                        s.ret = "none"
                    elif isinstance(v, ast.Name) and v.id in fwd_names:
                        s.ret = "forwarded" if getattr(s, "_super_ret", "forwarded") == "forwarded" else getattr(s, "_super_ret")
                    elif isinstance(v, ast.Call) and _is_forward(ctx, f, v):
                        s.ret = "forwarded" if getattr(s, "_super_ret", "forwarded") == "forwarded" else getattr(s, "_super_ret")
                    elif s.forwards == 0 and not any(isinstance(x, ast.Call) and _is_forward(ctx, f, x) for x in ast.walk(v)):
                        s.ret = "sentinel:" + norm(v)
                    else:
                        s.ret = "other:" + norm(v)
        if raised:
            continue
        for s in sums:
            if not s.ret:
                s.ret = "none"
            out.append(s)
    return out


INF_POS = {"np.inf", "numpy.inf", "math.inf", "float('inf')", 'float("inf")', "np.Inf", "np.PINF", "inf", "np.infty"}
INF_NEG = {"-" + x for x in INF_POS} | {"np.NINF", "float('-inf')", 'float("-inf")', "-inf"}


def inf_sign(e: ast.AST) -> int:
    t = norm(e)
    if t in INF_POS:
        return 1
    if t in INF_NEG:
        return -1
    return 0
