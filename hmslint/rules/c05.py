"""C05 — run() stops exactly at the global stop condition, with a bounded wind-down."""
from __future__ import annotations

import ast

from ..cfg import KILL, typestate, witness_path
from ..core import INCONCLUSIVE, OK, VIOLATION, Ctx, Ob, is_self_attr
from ..model import AnalysisError, norm
from .common import consult_verdict, sc_flag_names, active_store, calls_method, cond_consult, node_has_effect, stop_call_kind

EXPLANATION = """
Static decision of the control-shape clause of C05 on the current source of /repo/pyhms: (R05.1) in
DemeTree.run every run_step call is preceded, since the previous step, by a GSC consult with outcome
false, and run exits only on outcome true; (R05.2) the tree's metaepoch counter is written only by the
constructor (0) and by exactly one `+= 1` on every path of run_step; (R05.3) run_sprout is reached only
through the false outcome of a GSC consult that follows run_metaepoch; (R05.4) typestate over every CFG
path of every concrete deme's run_metaepoch: no two evaluation sites without a GSC consult (outcome
false) between them, no evaluation after outcome true, and outcome true implies `_active = False`
before the function exits; (R05.5) only DemeTree.__init__/_do_sprout create demes and the
run/run_step/run_metaepoch/run_sprout/_do_sprout call chain has no other callers; (R05.7) every GSC
consult passes the tree itself. Evaluation sites are statements whose transitive effect summary
(resolved call graph) contains an objective invocation.
"""
CLAIM = """Decides, for every CFG path, the control-shape clause of the property: run() steps only after a fresh GSC=false and exits only on GSC=true; exactly one `+= 1` of the metaepoch counter per step and no other writer; sprouting only under GSC=false after the metaepoch; in every engine no two evaluation sites without a GSC consult between them, no evaluation after GSC=true, GSC=true implies deactivate-and-return; only init_from_config (from DemeTree.__init__/_do_sprout) creates demes; every GSC consult passes the tree. The clause does not depend on seeds or values, so the path enumeration is the whole quantifier. (R05.9) the shipped conditions are what the property names them for: MetaepochLimit is `counter >= n`, DontRun / DontStop are constants, AllStopped is the emptiness of the listing of all active demes, the evaluation limits read the live counters with `>=`, the precision flag is sticky, no condition answers from a verdict kept in the object, and minimize() reports nit = the tree's metaepoch counter."""
NOTE = """User-supplied stop conditions/sprout mechanisms are outside pyhms. 'One engine iteration' = one statement-level evaluation site. Resolver and effect summaries (DESIGN.md §3, §9) are trusted."""
TECHNIQUE = "custom ast/CFG typestate analysis + who-may-call over a resolved call graph with effect summaries"
ASSUMPTIONS = [
    "user-supplied stop conditions and sprout mechanisms live outside pyhms and are not analysed",
    "a statement is one engine iteration when it is one statement-level evaluation site (one call of an engine step / evaluate_population)",
]


def _gsc_state_machine(ctx: Ctx, f, cfg, on_eval, one_shot_ok=False):
    pass


def r05_1(ctx: Ctx):
    """R05.1 DemeTree.run: each run_step is dominated by a fresh GSC consult with outcome false; exits only on outcome true."""
    f = ctx.prog.own_method("DemeTree", "run")
    step = ctx.prog.own_method("DemeTree", "run_step")
    cfg = ctx.cfg(f)
    viol = []

    def node_fn(n, s):
        if n.ast is not None and n.kind != "cond" and calls_method(n.ast, ctx, f, step):
            if s != "FALSE":
                viol.append((n, s, "run_step reached without a preceding GSC consult with outcome false"))
            return ["UNCHECKED"]
        if n.kind == "cond" and calls_method(n.ast, ctx, f, step):
            viol.append((n, s, "run_step called inside a condition"))
        return [s]

    unknown = []

    from .common import default_truth

    def edge_fn(n, lab, s):
        verdict = consult_verdict(ctx, f, n, "gsc", lab)
        if verdict == "?":
            unknown.append(n)
            return s
        if verdict is not None:
            return "TRUE" if verdict else "FALSE"
        if n.kind == "cond" and n.ast is not None and lab in (True, False):
            # a test on an opt-in parameter (`max_steps is None`): the property speaks about run() as documented, i.e. with
            # the parameter at its default - the other outcome is that feature's own path
            dt = default_truth(f, n.ast)
            if dt is not None and dt != lab:
                return KILL
        return s

    at, exits, parent = typestate(cfg, ["UNCHECKED"], node_fn, edge_fn)
    obs = []
    if unknown:
        n = unknown[0]
        obs.append(ctx.ob("R05.1", f, n.stmt, status=INCONCLUSIVE, detail="GSC consulted inside a compound expression; outcome cannot be attributed", construct=n.label))
        return obs
    steps = [n for n in cfg.nodes if n.ast is not None and calls_method(n.ast, ctx, f, step)]
    if not steps:
        raise AnalysisError("DemeTree.run no longer calls run_step")
    for n, s, msg in viol:
        obs.append(ctx.ob("R05.1", f, n.stmt, status=VIOLATION, detail=msg + f" (state {s})", witness=witness_path(cfg, parent, n.id, s), construct=n.label))
    bad_exit = [s for s in exits if s != "TRUE"]
    if bad_exit:
        obs.append(ctx.ob("R05.1", f, f.node, status=VIOLATION, detail=f"run() can return while the last GSC verdict is not true (exit states {sorted(bad_exit)})", witness=witness_path(cfg, parent, cfg.exit.id, bad_exit[0]), construct="exit"))
    if not obs:
        for n in steps:
            obs.append(ctx.ob("R05.1", f, n.stmt, detail="run_step dominated by GSC=false; exit only on GSC=true", construct=n.label))
    return obs


def _is_counter_increment(f, a) -> bool:
    """`self.metaepoch_count += 1`, `self.metaepoch_count = self.metaepoch_count + 1`, or the same through one local
    (`nxt = self.metaepoch_count + 1; self.metaepoch_count = nxt`)."""
    from ..core import canon, local_defs

    if isinstance(a, ast.AugAssign):
        return isinstance(a.op, ast.Add) and isinstance(a.value, ast.Constant) and a.value.value == 1 and isinstance(a.target, ast.Attribute) and a.target.attr == "metaepoch_count"
    if isinstance(a, (ast.Assign, ast.AnnAssign)) and getattr(a, "value", None) is not None:
        tg = a.targets if isinstance(a, ast.Assign) else [a.target]
        if len(tg) != 1 or not (isinstance(tg[0], ast.Attribute) and tg[0].attr == "metaepoch_count"):
            return False
        v = a.value
        if isinstance(v, ast.Name):
            ds = local_defs(f).get(v.id, [])
            if len(ds) != 1:
                return False
            v = ds[0]
        want = canon(tg[0])
        return isinstance(v, ast.BinOp) and isinstance(v.op, ast.Add) and sorted([canon(v.left), canon(v.right)]) == sorted([want, "1"])
    return False


def r05_2(ctx: Ctx):
    """R05.2 the tree's metaepoch counter: 0 in the constructor, exactly one `+= 1` on every path of run_step, no other writer in pyhms."""
    tree = ctx.prog.cls("DemeTree")
    obs = []
    writers = []
    for f in ctx.prog.all_functions():
        for n in ast.walk(f.node) if f.name != "<module>" else []:
            tg = []
            if isinstance(n, ast.Assign):
                tg = n.targets
            elif isinstance(n, (ast.AugAssign, ast.AnnAssign)):
                tg = [n.target]
            for t in tg:
                for sub in ast.walk(t):
                    if isinstance(sub, ast.Attribute) and sub.attr == "metaepoch_count" and isinstance(sub.ctx, ast.Store):
                        writers.append((f, n, sub))
    seen = set()
    for f, n, sub in writers:
        if (f.qualname, id(n)) in seen:
            continue
        seen.add((f.qualname, id(n)))
        # whose attribute?
        bt = ctx.res.type_of(sub.value, f)
        owners = {t[1] for t in ([] if bt is None else ([bt] if bt[0] != "union" else list(bt[1]))) if t[0] == "inst"}
        is_tree = tree.qualname in owners or not owners
        if not is_tree:
            continue
        if f.cls is tree and f.name == "__init__":
            ok = isinstance(n, (ast.Assign, ast.AnnAssign)) and isinstance(n.value, ast.Constant) and n.value.value == 0
            obs.append(ctx.ob("R05.2", f, n, status=OK if ok else VIOLATION, detail="constructor initialises the counter to 0" if ok else "constructor initialises the metaepoch counter to something other than 0"))
        elif f.cls is tree and f.name == "run_step":
            ok = _is_counter_increment(f, n)
            if not ok:
                obs.append(ctx.ob("R05.2", f, n, status=VIOLATION, detail="run_step writes the metaepoch counter other than by `+= 1`"))
        else:
            obs.append(ctx.ob("R05.2", f, n, status=VIOLATION if owners else INCONCLUSIVE, detail="metaepoch counter written outside DemeTree.__init__/run_step"))
    # exactly one increment per path of run_step
    f = ctx.prog.own_method("DemeTree", "run_step")
    cfg = ctx.cfg(f)

    def is_inc(n):
        a = n.ast
        if isinstance(a, ast.AugAssign):
            return isinstance(a.target, ast.Attribute) and a.target.attr == "metaepoch_count" and is_self_attr(a.target, None, f.self_name())
        return a is not None and _is_counter_increment(f, a) and is_self_attr((a.targets[0] if isinstance(a, ast.Assign) else a.target), None, f.self_name())

    def node_fn(n, s):
        if n.kind == "stmt" and is_inc(n):
            return [min(2, s + 1)]
        return [s]

    at, exits, parent = typestate(cfg, [0], node_fn)
    # exits via raise do not count
    normal_exits = exits.normal()
    bad = [s for s in normal_exits if s != 1]
    if bad:
        obs.append(ctx.ob("R05.2", f, f.node, status=VIOLATION, detail=f"a path through run_step increments the metaepoch counter {bad[0] if bad[0] < 2 else '2+'} times", witness=witness_path(cfg, parent, cfg.exit.id, bad[0]), construct="paths"))
    else:
        obs.append(ctx.ob("R05.2", f, f.node, detail="exactly one `+= 1` on every path of run_step", construct="paths"))
    return obs


def r05_3(ctx: Ctx, need_gsc: bool = True):
    """R05.3 run_step: run_sprout is control-dependent on the false outcome of a GSC consult that follows run_metaepoch."""
    f = ctx.prog.own_method("DemeTree", "run_step")
    me = ctx.prog.own_method("DemeTree", "run_metaepoch")
    sp = ctx.prog.own_method("DemeTree", "run_sprout")
    cfg = ctx.cfg(f)
    viol = []
    unknown = []

    def node_fn(n, s):
        ran, ok, sprouted = s
        if n.ast is not None and calls_method(n.ast, ctx, f, me):
            if sprouted:
                viol.append((n, s, "run_metaepoch called again after run_sprout in the same step"))
            return [(True, False, sprouted)]
        if n.ast is not None and calls_method(n.ast, ctx, f, sp):
            if not ran:
                viol.append((n, s, "run_sprout reachable before run_metaepoch in a step"))
            elif need_gsc and not ok:
                viol.append((n, s, "run_sprout reachable without (run_metaepoch; GSC consult with outcome false)"))
            return [(ran, False, True)]
        return [s]

    def edge_fn(n, lab, s):
        verdict = consult_verdict(ctx, f, n, "gsc", lab)
        if verdict == "?":
            unknown.append(n)
            return s
        if verdict is not None:
            return (s[0], (not verdict) and s[0], s[2])
        return s

    at, exits, parent = typestate(cfg, [(False, False, False)], node_fn, edge_fn)
    obs = []
    if unknown:
        n = unknown[0]
        return [ctx.ob("R05.3", f, n.stmt, status=INCONCLUSIVE, detail="GSC consulted inside a compound expression", construct=n.label)]
    sites = [n for n in cfg.nodes if n.ast is not None and calls_method(n.ast, ctx, f, sp)]
    if not any(n.ast is not None and calls_method(n.ast, ctx, f, me) for n in cfg.nodes):
        raise AnalysisError("run_step no longer calls run_metaepoch")
    for n, s, msg in viol:
        obs.append(ctx.ob("R05.3", f, n.stmt, status=VIOLATION, detail=msg, witness=witness_path(cfg, parent, n.id, s), construct=n.label))
    if not obs:
        for n in sites:
            obs.append(ctx.ob("R05.3", f, n.stmt, detail="guarded by GSC=false after run_metaepoch", construct=n.label))
        if not sites:
            obs.append(ctx.ob("R05.3", f, f.node, detail="run_step does not sprout at all", construct="no-sprout", trivial=True))
    return obs


def _call_effects(ctx, f, call):
    """Effects of one call expression (through the resolver's targets)."""
    out = set()
    for cs in ctx.res.callsites(f):
        if cs.node is call:
            for t in cs.targets:
                out |= set(ctx.eff.of(t))
            if cs.external:
                from ..effects import classify_external

                try:
                    out |= set(classify_external(cs.external) or ())
                except Exception:  # noqa: BLE001
                    pass
    return out


_STOP = ("STOPPING", "STOPPING-E")


def engine_typestate(ctx: Ctx, f, rule="R05.4", between_generations: bool = True, exit_dirty: bool = True):
    """CLEAN -EVAL-> DIRTY -GSC false-> CLEAN; DIRTY -EVAL-> X; GSC true -> STOPPING; STOPPING -EVAL-> X;
    STOPPING at exit requires a preceding `_active = False`."""
    cfg = ctx.cfg(f)
    selfn = f.self_name()
    viol = []
    unknown = []
    n_eval = 0
    eval_nodes = [n for n in cfg.nodes if node_has_effect(ctx, f, n, "EVAL")]

    def single_point(n):
        """The statement's only evaluations are direct single-point calls `<problem>.evaluate(x)` / `<individual>.evaluate()`
        outside any comprehension: one objective call, not an engine iteration of its own."""
        if n.ast is None:
            return False
        calls = [c for c in ast.walk(n.ast) if isinstance(c, ast.Call)]
        in_comp = {id(x) for c in ast.walk(n.ast) if isinstance(c, (ast.ListComp, ast.GeneratorExp, ast.SetComp, ast.DictComp, ast.Lambda)) for x in ast.walk(c)}
        evs = [c for c in calls if isinstance(c.func, ast.Attribute) and c.func.attr == "evaluate"]
        others = [c for c in calls if c not in evs and any(e[0] == "EVAL" for e in _call_effects(ctx, f, c))]
        return bool(evs) and not others and not any(id(c) in in_comp for c in evs)

    single_nodes = {n.id for n in eval_nodes if single_point(n)}

    flags = sc_flag_names(ctx, f, "gsc")

    def stores_flag(n):
        if n.kind != "stmt" or not isinstance(n.ast, (ast.Assign, ast.AnnAssign)) or getattr(n.ast, "value", None) is None:
            return False
        tg = n.ast.targets if isinstance(n.ast, ast.Assign) else [n.ast.target]
        if not any(isinstance(t, ast.Name) and t.id in flags for t in tg):
            return False
        return any(isinstance(c, ast.Call) and stop_call_kind(ctx, f, c) == "gsc" for c in ast.walk(n.ast.value))

    def node_fn(n, s):
        gs, deact = s
        if stores_flag(n):
            # the verdict is stored in a local flag: consulted, outcome pending until the flag is tested
            return [("FLAGGED" if gs in ("DIRTY", "FLAGGED", "CLEAN") else gs, deact)]
        if n in eval_nodes:
            if gs == "FLAGGED":
                if between_generations:
                    viol.append((n, s, "the GSC verdict was stored in a flag but the engine evaluates again before acting on it"))
                return [("DIRTY", deact)]
            if gs == "DIRTY" and n.id in single_nodes:
                return [(gs, deact)]
            if gs == "DIRTY" and between_generations:
                viol.append((n, s, "two evaluation sites on one path with no GSC consult (outcome false) between them"))
            elif gs in _STOP:
                viol.append((n, s, "objective evaluated after the GSC was observed true"))
            gs = "DIRTY" if gs not in _STOP else "STOPPING-E"
        if n.kind == "stmt":
            v = active_store(n.ast, selfn)
            if v is not None and isinstance(v, ast.Constant) and v.value is False:
                deact = True
        return [(gs, deact)]

    def edge_fn(n, lab, s):
        verdict = consult_verdict(ctx, f, n, "gsc", lab)
        if verdict == "?":
            unknown.append(n)
            return s
        if verdict is not None:
            if verdict:
                return ("STOPPING", s[1])
            if s[0] in _STOP and n.kind == "cond" and isinstance(n.ast, ast.Name):
                return KILL  # the name holds the verdict that was observed true on this path: its false edge is infeasible
            if s[0] == "STOPPING":
                # consulted again with nothing evaluated since it was observed true: the condition is a function of the tree's
                # state, which this method has not advanced in between, so the answer is the same - the false edge is infeasible
                return KILL
            return ("CLEAN" if s[0] not in _STOP else s[0], s[1])
        if s[0] == "FLAGGED" and lab is False and cond_consult(ctx, f, n, "gsc") == 3:
            return ("CLEAN", s[1])  # the flag holding the latest verdict is false
        return s

    at, exits, parent = typestate(cfg, [("CLEAN", False)], node_fn, edge_fn)
    obs = []
    if unknown:
        n = unknown[0]
        return [ctx.ob(rule, f, n.stmt, status=INCONCLUSIVE, detail="GSC consulted inside a compound expression; outcome cannot be attributed", construct=n.label)], eval_nodes
    seen_msgs = set()
    def is_consult(x):
        return (x.kind == "cond" and cond_consult(ctx, f, x, "gsc") != 0) or stores_flag(x)

    def consult_before_eval(start):
        """Is a GSC consult reachable from `start` without passing an evaluation site?"""
        seen, todo = set(), [start]
        while todo:
            x = todo.pop()
            if x.id in seen or x in eval_nodes:
                continue
            seen.add(x.id)
            if is_consult(x):
                return True
            todo.extend(m for m, _ in x.succ)
        return False

    def conditionally_skipped(n, s):
        """On the witness path between the previous evaluation site and n, some branch (not itself a consult) leads to a GSC
        consult on its other arm: the consult exists but is skipped under a condition the analyser does not evaluate."""
        cur = parent.get((n.id, s))
        prev_id = n.id
        guard = 0
        while cur is not None and guard < 300:
            guard += 1
            x = cfg.nodes[cur[0]]
            if x in eval_nodes:
                return False
            if x.kind in ("cond", "loophead", "forhead") and not is_consult(x):
                for m, _lab in x.succ:
                    if m.id != prev_id and consult_before_eval(m):
                        return True
            prev_id = x.id
            cur = parent.get(cur)
        return False

    from .common import opaque_step_helpers

    opaque = opaque_step_helpers(ctx, f)
    if opaque and (viol or any((s_[0] in _STOP and not s_[1]) or (exit_dirty and s_[0] in ("DIRTY", "FLAGGED") and not s_[1]) for s_ in exits)):
        return [ctx.ob(rule, f, opaque[0], status=INCONCLUSIVE, detail=f"part of the metaepoch (evaluations, stop-condition consults) runs inside `{norm(opaque[0].func)}`, which this rule does not follow", construct="opaque-helper")], eval_nodes
    for n, s, msg in viol:
        k = (n.id, msg)
        if k in seen_msgs:
            continue
        seen_msgs.add(k)
        status = VIOLATION
        if msg.startswith("two evaluation sites") and conditionally_skipped(n, s):
            status, msg = INCONCLUSIVE, "a GSC consult between two evaluation sites is skipped under a condition the analyser cannot evaluate"
        obs.append(ctx.ob(rule, f, n.stmt, status=status, detail=msg, witness=witness_path(cfg, parent, n.id, s), construct=n.label))
    for s in exits:
        if s[0] in _STOP and not s[1]:
            obs.append(ctx.ob(rule, f, f.node, status=VIOLATION, detail="a path on which the GSC was observed true leaves run_metaepoch without `_active = False`", witness=witness_path(cfg, parent, cfg.exit.id, s), construct="exit-after-gsc-true"))
        if exit_dirty and s[0] in ("DIRTY", "FLAGGED") and not s[1]:
            # one-shot engines deactivate unconditionally; every other engine consults the GSC after its last evaluation
            # an evaluating loop header (`for pop in self._generations():`) also "evaluates" on the call that merely finds the
            # generator exhausted; whether that last call evaluates anything is a fact about the generator's body
            lazy_src = any(n.kind == "forhead" for n in eval_nodes)
            obs.append(ctx.ob(rule, f, f.node, status=INCONCLUSIVE if lazy_src else VIOLATION, detail="a path leaves run_metaepoch after an evaluation without consulting the GSC and without deactivating the deme (the deme would never observe the stop condition)" if not lazy_src else "the generations are produced by a generator consumed in a loop header: cannot tell whether its last, exhausting call evaluates anything", witness=witness_path(cfg, parent, cfg.exit.id, s), construct="exit-dirty"))
    return obs, eval_nodes


def r05_4(ctx: Ctx, between_generations: bool = True, exit_dirty: bool = False):
    """R05.4 engine typestate on every concrete deme's run_metaepoch (evaluation / GSC consult alternation, stop on outcome true)."""
    obs = []
    for ci in ctx.concrete_demes():
        f = __import__("hmslint.rules.common", fromlist=["step_method"]).step_method(ctx, ci)
        if f is None or f.is_abstract:
            raise AnalysisError(f"{ci.name} has no run_metaepoch")
        o, eval_nodes = engine_typestate(ctx, f, between_generations=between_generations, exit_dirty=exit_dirty)
        ctx.count("engine_eval_sites", len(eval_nodes))
        if not eval_nodes:
            obs.append(ctx.ob("R05.4", f, f.node, status=INCONCLUSIVE, detail=f"{ci.name}.run_metaepoch has no statement with an evaluation effect (engine step not resolved)", construct="no-eval"))
            continue
        if o:
            obs.extend(o)
        else:
            obs.append(ctx.ob("R05.4", f, f.node, detail=f"{len(eval_nodes)} evaluation site(s); all paths alternate evaluation / GSC consult and stop on GSC true", construct=f"{ci.name}.run_metaepoch"))
    return obs


def r05_5(ctx: Ctx):
    """R05.5 who may call: deme construction only via init_from_config from DemeTree.__init__/_do_sprout; the step chain has no other callers."""
    obs = []
    P = ctx.prog
    tree = P.cls("DemeTree")
    q = lambda n: P.own_method("DemeTree", n).qualname
    init_fc = P.func("pyhms.demes.initialize", "init_from_config")
    table = [
        (init_fc, {q("__init__"), q("_do_sprout")}),
        (P.own_method("DemeTree", "_do_sprout"), {q("run_sprout")}),
        (P.own_method("DemeTree", "run_sprout"), {q("run_step")}),
        (P.own_method("DemeTree", "run_metaepoch"), {q("run_step")}),
        (P.own_method("DemeTree", "run_step"), {q("run")}),
    ]
    for target, allowed in table:
        sites = ctx.res.callers_of(target)
        # dynamic dispatch over-approximation: deme.run_metaepoch(tree) resolves to AbstractDeme subclasses only
        from .common import private_closure

        allowed_c = private_closure(ctx, set(allowed))
        bad = [cs for cs in sites if cs.caller.qualname not in allowed_c]
        for cs in bad:
            obs.append(ctx.ob("R05.5", cs.caller, cs.node, status=VIOLATION, detail=f"{target.short} called from {cs.caller.short}; allowed callers: {sorted(a.split('.')[-1] for a in allowed)}"))
        if not bad:
            obs.append(ctx.ob("R05.5", target, target.node, detail=f"{len(sites)} call site(s), all in {sorted(a.split('.')[-1] for a in allowed)}", construct=target.short))
    # direct construction of deme classes
    base = P.cls("AbstractDeme")
    deme_inits = set()
    for ci in [base] + P.subclasses(base):
        deme_inits.add(ci.qualname)
    n_ctor = 0
    for f in P.all_functions():
        for cs in ctx.res.callsites(f):
            if cs.kind == "ctor" and any(t.cls is not None and t.cls.qualname in deme_inits for t in cs.targets):
                n_ctor += 1
                if f.qualname != init_fc.qualname:
                    obs.append(ctx.ob("R05.5", f, cs.node, status=VIOLATION, detail="a deme is constructed outside init_from_config"))
    if n_ctor == 0:
        raise AnalysisError("no deme construction site found (init_from_config table call not resolved)")
    obs.append(ctx.ob("R05.5", init_fc, init_fc.node, detail=f"{n_ctor} deme construction site(s), all inside init_from_config", construct="deme-ctor-sites"))
    return obs


def r05_7(ctx: Ctx):
    """R05.7 every GSC consult in pyhms passes the tree that owns the condition (`X._gsc(X)`), every LSC consult the deme itself."""
    obs = []
    tree = ctx.prog.cls("DemeTree")
    deme = ctx.prog.cls("AbstractDeme")
    for f in ctx.prog.all_functions():
        for n in ast.walk(f.node) if f.name != "<module>" else []:
            if not isinstance(n, ast.Call):
                continue
            k = stop_call_kind(ctx, f, n)
            if k is None:
                continue
            if not isinstance(n.func, ast.Attribute):
                obs.append(ctx.ob("R05.7", f, n, status=INCONCLUSIVE, detail="stop condition called through a non-attribute expression"))
                continue
            recv = norm(n.func.value)
            # the condition may be read off the owner's configuration (`self._config.lsc(self)`, `tree.config.gsc(tree)`)
            if isinstance(n.func.value, ast.Attribute) and n.func.value.attr in ("_config", "config") and n.func.attr in ("lsc", "gsc"):
                recv = norm(n.func.value.value)
            args = [norm(a) for a in n.args]
            ok = len(args) == 1 and args[0] == recv and not n.keywords
            if ok:
                at = ctx.res.type_of(n.args[0], f)
                want = tree if k == "gsc" else deme
                if at is not None:
                    ms = [at] if at[0] != "union" else list(at[1])
                    insts = [ctx.prog.classes.get(t[1]) for t in ms if t[0] == "inst"]
                    if insts and not any(c is not None and ctx.prog.is_subclass(c, want) for c in insts):
                        ok = False
            obs.append(ctx.ob("R05.7", f, n, status=OK if ok else VIOLATION, detail=f"{k.upper()} consult passes its owner" if ok else f"{k.upper()} consulted with an argument other than its owner ({recv}): {norm(n)}"))
    return obs


def r05_8(ctx: Ctx):
    """R05.8 no objective evaluation outside the metaepoch protocol: sprout mechanisms, stop conditions and reports are evaluation-free, so nothing evaluates after the GSC was observed."""
    from .common import who_may_evaluate

    return who_may_evaluate(ctx, "R05.8")


def _flip(op):
    return {ast.Lt: ast.Gt, ast.Gt: ast.Lt, ast.LtE: ast.GtE, ast.GtE: ast.LtE}.get(type(op), type(op))


def latched_verdicts(ctx: Ctx, rule: str):
    """Stop-condition classes that keep a boolean verdict in `self` inside `__call__` and answer from it."""
    import copy

    from ..core import _Subst, local_defs
    from ..model import body_walk

    obs = []
    # -- no latched verdicts
    n = 0
    for ci in ctx.prog.classes.values():
        if not ci.module.name.startswith("pyhms.stop_conditions"):
            continue
        m = ci.methods.get("__call__")
        if m is None:
            continue
        sn = m.self_name()
        n += 1
        defs = local_defs(m)
        written = {}
        for x in body_walk(m.node):
            if isinstance(x, (ast.Assign, ast.AugAssign, ast.AnnAssign)) and getattr(x, "value", None) is not None:
                for t in (x.targets if isinstance(x, ast.Assign) else [x.target]):
                    if is_self_attr(t, None, sn):
                        v = _Subst(defs, 3).visit(copy.deepcopy(x.value))
                        boolish = isinstance(v, (ast.Compare, ast.BoolOp)) or (isinstance(v, ast.Constant) and isinstance(v.value, bool)) or (isinstance(v, ast.UnaryOp) and isinstance(v.op, ast.Not)) or (isinstance(v, ast.Call) and norm(v.func) in ("bool", "any", "all"))
                        if boolish:
                            written[t.attr] = x
        used = None
        for x in body_walk(m.node):
            exprs = []
            if isinstance(x, ast.Return) and x.value is not None:
                exprs.append(x.value)
            elif isinstance(x, (ast.If, ast.While)):
                exprs.append(x.test)
            for e in exprs:
                for y in ast.walk(e):
                    if is_self_attr(y, None, sn) and y.attr in written and used is None:
                        used = (x, y.attr)
        if used is not None:
            obs.append(ctx.ob(rule, m, written[used[1]], status=VIOLATION, detail=f"{ci.name} keeps its verdict in the condition object (`{norm(written[used[1]])[:80]}`) and answers from it (`{norm(used[0])[:60]}`): once true it is true for every tree and every later run that shares the object, so run() returns before the condition holds for THAT tree", construct=f"{ci.name}:latched"))
        else:
            obs.append(ctx.ob(rule, m, m.node, detail=f"{ci.name}: the verdict is computed from the argument on every consult", construct=f"{ci.name}:stateless"))
    if n < 8:
        raise AnalysisError(f"only {n} stop-condition classes with __call__ found")
    return obs


def r05_9(ctx: Ctx):
    """R05.9 the shipped stop conditions `run()` consults are what the property names them for: MetaepochLimit(n) is
    `counter >= n` (exactly n metaepochs), DontRun is constantly true, DontStop constantly false, AllStopped is the emptiness of
    the listing of ALL active demes, the evaluation limits read the live counters with `>=` (R03.6); and none of them keeps its
    verdict in the condition object (a latched verdict answers for a tree it was never asked about)."""
    import copy

    from ..core import _Subst, canon, local_defs
    from ..model import body_walk
    from . import c03
    from .common import deme_listing

    obs = []

    def single_return(m):
        rets = [r for r in body_walk(m.node) if isinstance(r, ast.Return)]
        if len(rets) != 1 or rets[0].value is None:
            return None, rets
        return _Subst(local_defs(m), 4).visit(copy.deepcopy(rets[0].value)), rets

    def const_of(m):
        rets = [r for r in body_walk(m.node) if isinstance(r, ast.Return)]
        vals = {r.value.value if isinstance(r.value, ast.Constant) else "?" for r in rets}
        return vals

    # -- constants
    for cname, want in (("DontRun", True), ("DontStop", False)):
        try:
            m = ctx.prog.own_method(cname, "__call__")
        except Exception:
            m = None
        if m is None:
            continue
        vals = const_of(m)
        st = OK if vals == {want} else VIOLATION if vals and "?" not in vals and all(isinstance(v, bool) for v in vals) else INCONCLUSIVE
        obs.append(ctx.ob("R05.9", m, m.node, status=st, detail=f"{cname} is constantly {want}" if st == OK else f"{cname}.__call__ returns {sorted(map(str, vals))}: {'run() performs metaepochs under DontRun' if want else 'run() returns although nothing asked it to stop'}", construct=cname))
    # -- MetaepochLimit
    try:
        m = ctx.prog.own_method("MetaepochLimit", "__call__")
    except Exception:
        m = None
    if m is not None:
        rv, rets = single_return(m)
        sn, tp = m.self_name(), m.params()[1]
        st, why = INCONCLUSIVE, f"MetaepochLimit returns `{norm(rv)[:80] if rv is not None else '?'}`"
        neg = False
        e = rv
        while isinstance(e, ast.UnaryOp) and isinstance(e.op, ast.Not):
            neg, e = not neg, e.operand
        if isinstance(e, ast.Compare) and len(e.ops) == 1:
            l, r, op = canon(e.left), canon(e.comparators[0]), type(e.ops[0])
            cnt, lim = f"{tp}.metaepoch_count", f"{sn}.limit"
            if (l, r) == (lim, cnt):
                l, r, op = r, l, _flip(e.ops[0])
            if neg:
                op = {ast.Lt: ast.GtE, ast.GtE: ast.Lt, ast.Gt: ast.LtE, ast.LtE: ast.Gt, ast.Eq: ast.NotEq, ast.NotEq: ast.Eq}.get(op, op)
            if (l, r) == (cnt, lim):
                if op is ast.GtE:
                    st, why = OK, ""
                elif op in (ast.Gt, ast.Lt, ast.LtE, ast.NotEq):
                    st, why = VIOLATION, f"MetaepochLimit is `{norm(rv)}`: run() does not stop after exactly `limit` metaepochs ({'one more' if op is ast.Gt else 'the sense of the test is reversed'})"
            elif l == cnt or r == cnt:
                other = e.comparators[0] if l == cnt else e.left
                if isinstance(other, ast.BinOp) and lim in canon(other) and any(isinstance(x, ast.Constant) and isinstance(x.value, (int, float)) and x.value != 0 for x in ast.walk(other)):
                    st, why = VIOLATION, f"MetaepochLimit compares the counter with `{norm(other)}` instead of the limit itself: the run stops a fixed number of metaepochs away from n"
        obs.append(ctx.ob("R05.9", m, rets[0] if rets else m.node, status=st, detail="MetaepochLimit(n): metaepoch_count >= n" if st == OK else why, construct="MetaepochLimit"))
    # -- AllStopped / RootStopped
    try:
        m = ctx.prog.own_method("AllStopped", "__call__")
    except Exception:
        m = None
    if m is not None:
        rv, rets = single_return(m)
        tp = m.params()[1]
        acc = None
        empt = None  # True: verdict is `listing empty`
        if rv is not None:
            t = canon(rv)
            import re as _re

            mm = _re.fullmatch(r"(not)?(?:len\()?(?:list\(|tuple\()?" + _re.escape(tp) + r"\.(\w+)\)?\)?(==0|<1|<=0|!=0|>0|>=1)?", t)
            if mm and (mm.group(1) or mm.group(3)):
                acc = mm.group(2)
                empt = (mm.group(1) is not None and mm.group(3) is None) or (mm.group(1) is None and mm.group(3) in ("==0", "<1", "<=0"))
        if acc is None:
            obs.append(ctx.ob("R05.9", m, rets[0] if rets else m.node, status=INCONCLUSIVE, detail=f"AllStopped returns `{norm(rv)[:80] if rv is not None else '?'}`: not read as the emptiness of a listing of demes", construct="AllStopped"))
        elif not empt:
            obs.append(ctx.ob("R05.9", m, rets[0], status=VIOLATION, detail=f"AllStopped returns `{norm(rv)[:80]}`: true while demes are active, false once all stopped", construct="AllStopped"))
        else:
            d = deme_listing(ctx, "DemeTree", acc)
            extra = sorted(x for x in d["filters"] if x not in ("is_active",))
            if d["levels"] is None and not d["filters"]:
                obs.append(ctx.ob("R05.9", m, rets[0], status=INCONCLUSIVE, detail=f"AllStopped is the emptiness of tree.{acc}, which is not understood ({d['why']})", construct="AllStopped"))
            elif d["levels"] is not None and d["levels"] < 0:
                obs.append(ctx.ob("R05.9", m, rets[0], status=VIOLATION, detail=f"AllStopped is the emptiness of tree.{acc}, which leaves out the last {-d['levels']} level(s): run() returns while demes there are still active", construct="AllStopped"))
            elif "is_active" not in d["filters"]:
                obs.append(ctx.ob("R05.9", m, rets[0], status=VIOLATION if not extra else INCONCLUSIVE, detail=f"AllStopped is the emptiness of tree.{acc}, which does not select the active demes (filters: {sorted(d['filters'])})", construct="AllStopped"))
            elif extra:
                hib = [x for x in extra if "_hibernating" in x or "hibernat" in x]
                obs.append(ctx.ob("R05.9", m, rets[0], status=VIOLATION if hib or any(x.startswith("not is_active") for x in extra) else INCONCLUSIVE, detail=f"AllStopped is the emptiness of tree.{acc}, which drops active demes by a further condition ({', '.join(extra)[:120]}): {'a sleeping deme is active, yet run() returns as if every deme had stopped' if hib else 'run() may return while such demes are active'}", construct="AllStopped"))
            elif d["levels"] is None:
                obs.append(ctx.ob("R05.9", m, rets[0], status=INCONCLUSIVE, detail=f"AllStopped: the levels tree.{acc} ranges over are not understood ({d['why']})", construct="AllStopped"))
            else:
                obs.append(ctx.ob("R05.9", m, rets[0], detail=f"AllStopped: no deme of any level is active (tree.{acc} empty)", construct="AllStopped"))
    # -- evaluation limits: R03.6
    try:
        lim = c03.r03_6(ctx)
    except AnalysisError as e:
        lim = [ctx.ob("R05.9", None, None, subject="stop_conditions.gsc", loc="-", status=INCONCLUSIVE, detail=f"the evaluation-limit conditions are not in the form R03.6 reads ({e})", construct="eval-limits")]
    for o in lim:
        if not getattr(o, "trivial", False):
            o.rule = "R05.9"
            obs.append(o)
    # -- minimize() reports nit = the tree's metaepoch counter
    from . import c04

    for o in c04.r04_4(ctx):
        if o.construct == "nit":
            o.rule = "R05.9"
            obs.append(o)
    # -- the precision condition: SingularProblemPrecisionReached reads the wrapper's flag, which must be sticky (once the
    # precision was hit the condition holds at every later boundary; a flag recomputed per evaluation lets run() go on)
    from . import c16

    for o in c16.r16_7(ctx):
        o.rule = "R05.9"
        obs.append(o)
    try:
        for o in c16.r16_4(ctx):
            if o.detail.startswith(("flag ", "hit_precision can")) or getattr(o, "construct", "") == "eta-precision-guard":
                o.rule = "R05.9"
                obs.append(o)
    except AnalysisError as e:
        obs.append(ctx.ob("R05.9", None, None, subject="core.problem.PrecisionCutoffProblem", loc="-", status=INCONCLUSIVE, detail=f"the precision flag is not in the form R16.4 reads ({e})", construct="precision-flag"))
    # -- the condition the tree consults is the configured object, not a copy (a copied precision condition watches a copy of
    # the problem that nothing evaluates: run() never sees the condition hold)
    from . import c06

    for o in c06.r06_13(ctx):
        if "_gsc" in (o.construct or ""):
            o.rule = "R05.9"
            obs.append(o)
    # -- no latched verdicts
    obs.extend(latched_verdicts(ctx, "R05.9"))
    return obs



RULES = [
    ("R05.1", r05_1, 1),
    ("R05.2", r05_2, 2),
    ("R05.3", r05_3, 1),
    ("R05.4", r05_4, 7),
    ("R05.5", r05_5, 6),
    ("R05.7", r05_7, 9),
    ("R05.8", r05_8, 1),
    ("R05.9", r05_9, 12),
]
