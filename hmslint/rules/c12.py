"""C12 — elitist engines never lose ground; population size is constant."""
from __future__ import annotations

import ast
import re

from ..core import is_self_attr, INCONCLUSIVE, OK, VIOLATION, Ctx, canon, is_self_attr, local_defs
from ..model import AnalysisError, body_walk, norm
from . import c04, c11, c13

CLAIM = """Decides the structural clauses: (R12.1) generations compound (C11's loop-carried parents: a generation bred from a stale population
can lose ground inside a metaepoch — the pinned defect); (R12.2) size algebra: SEA's new population is topk_|P|(offspring
merged with topk_k(P)), which has exactly |P| rows when the offspring has |P| rows; DE/SHADE return T[m] merged with P[~m] for
one mask m over |P| slots; the deme constructors build pop_size individuals (pop_size - 1 sampled + the seed); (R12.3) elitism:
the elites are the k best of the PARENT population (direction-aware topk with k = k_elites, default >= 1), the final cut keeps the
best, hence best(new) is no worse than best(parents); DE/SHADE keep per slot the better of trial and parent (dual >=/<= mask, its
complement), so every order statistic is no worse; (R12.4) operators preserve the number of rows where this is derivable from
the code (in-place operators on a copy, index arrays of one row per individual, np.where against the input's own genomes);
(R12.5) SEAWithAdaptiveMutation.run delegates to BaseSEA.run. Round-3/4 extensions: the election count of MultiwinnerRepeatedSelection reaches the input's size; create_population returns exactly n individuals; the elite count handed to topk stays positive; a direction kept by an engine is the problem's own at every construction site. Round 5: Population.topk selects by position, not by comparing with a threshold value (ties would enlarge the result); BaseSEA.run removes no rows from the offspring before the survivor selection; directions kept by variation / mating-selection operators are C13's question, not this property's."""
NOTE = """Row counts that depend on numpy broadcasting inside select_parents / the multiwinner election, and CMA-ES's constant lambda, are
recorded as assumptions. With k_elites = 0 (user choice) SEA is not elitist by definition."""
TECHNIQUE = "population algebra on the selection code (symbolic sizes, containment facts) + shared loop-carried-dependence and polarity rules"
EXPLANATION = """
The selection expressions are matched structurally and interpreted with the facts |X.topk(k)| = min(k, |X|), X.topk(k >= 1)
contains best(X), |A.merge(B)| = |A| + |B|, merge(A, B) contains A and B, |T[m]| + |P[~m]| = |P| when |T| = |P|.
"""
ASSUMPTIONS = ["operators whose output row count depends on numpy broadcasting (select_parents, multiwinner election) return one row per input individual", "cma keeps lambda constant", "Population.topk polarity is checked by C13 R13.2"]


def r12_1(ctx: Ctx):
    """R12.1 generations compound inside a metaepoch (C11 R11.1/R11.2/R11.4)."""
    out = []
    for o in c11.r11(ctx) + c11.r11_4(ctx):
        if "CMADeme" in o.subject:
            continue  # CMA-ES is not an elitist engine; its generation size is cma's constant lambda (assumption)
        o.rule = "R12.1"
        out.append(o)
    return out


def r12_2(ctx: Ctx):
    """R12.2 size algebra of SEA selection, DE/SHADE replacement and deme constructors."""
    obs = []
    for o in c04.r04_5(ctx, need="keep-parents"):
        if o.construct in ("sea-selection", "sea-run", "sea-pipeline-loop", "DE:greedy", "SHADE:greedy"):
            o.rule = "R12.2"
            obs.append(o)
    from . import c06, c07

    # every metaepoch is recorded exactly once (a generation list registered twice shows the same generations again,
    # so the best / k-th best "gets worse" from the last recorded generation to the first of the duplicate)
    for o in c06.r06_3(ctx):
        if o.construct.endswith("run_metaepoch appends") and any(k in o.subject for k in ("EADeme", "DEDeme", "SHADEDeme")):
            o.rule = "R12.2"
            obs.append(o)
    # sampler demes draw exactly pop_size points
    for cname in ("LHSDeme", "SobolDeme"):
        ci = ctx.prog.cls_opt(cname)
        if ci is None:
            continue
        for f in ctx.prog.functions_in(ci):
            sn = f.self_name() or "self"
            fdefs = local_defs(f)
            for c in body_walk(f.node):
                if isinstance(c, ast.Call) and isinstance(c.func, ast.Attribute) and c.func.attr == "random" and is_self_attr(c.func.value, None, sn) and c.func.value.attr in ("sampler", "_sampler"):
                    a = c.args[0] if c.args else next((k.value for k in c.keywords if k.arg == "n"), None)
                    at = canon(a, fdefs) if a is not None else "1"
                    if at in (f"{sn}._pop_size", f"{sn}.pop_size"):
                        st = OK
                    elif f"{sn}._pop_size" in at or a is None or isinstance(a, ast.Constant):
                        st = VIOLATION
                    else:
                        st = INCONCLUSIVE
                    obs.append(ctx.ob("R12.2", f, c, status=st, detail=f"{cname}: draws pop_size points per generation" if st == OK else f"{cname}: draws `{at}` points instead of the configured population size", construct=f"{cname}:sample-size"))
    for o in c07.r07_8(ctx, need="size"):
        if "size" in o.construct or "seed-appended" in o.construct:
            o.rule = "R12.2"
            obs.append(o)
    # nothing removes rows from the offspring between the operator pipeline and the truncation to |P|: topk(|P|) of fewer than
    # |P| rows returns them all, so the generation shrinks (and stays smaller)
    run_m = ctx.prog.own_method("BaseSEA", "run")
    drops = [y for y in body_walk(run_m.node) if isinstance(y, ast.Assign) and len(y.targets) == 1 and isinstance(y.targets[0], ast.Name) and isinstance(y.value, ast.Subscript) and isinstance(y.value.value, ast.Name) and y.value.value.id == y.targets[0].id and not isinstance(y.value.slice, ast.Slice)]
    if drops:
        obs.append(ctx.ob("R12.2", run_m, drops[0], status=VIOLATION, detail=f"BaseSEA.run removes rows from a population before the survivor selection (`{norm(drops[0])[:70]}`): the truncation to the parents' size can only return what is left, so whenever more rows are dropped than elites are added the generation has fewer individuals than configured - for good", construct="rows-dropped"))
    else:
        obs.append(ctx.ob("R12.2", run_m, run_m.node, detail="BaseSEA.run hands every offspring row to the survivor selection", construct="rows-dropped"))
    # Individual.create_population(n, ...) returns exactly n individuals: one per index, none filtered out
    cp = ctx.prog.own_method("Individual", "create_population")
    cps = cp.params()
    npar = cps[1] if len(cps) > 1 else "pop_size"
    cdefs = local_defs(cp)
    rets = [r for r in body_walk(cp.node) if isinstance(r, ast.Return) and r.value is not None]
    st_cp, why_cp = INCONCLUSIVE, "cannot read how many individuals create_population returns"
    if len(rets) == 1:
        v = rets[0].value
        hops = 0
        while isinstance(v, ast.Name) and len(cdefs.get(v.id, [])) == 1 and hops < 3:
            v = cdefs[v.id][0]
            hops += 1
        if isinstance(v, ast.ListComp):
            gens = list(v.generators)
            # a chained generator local: [.. for g in genomes] with genomes = (init() for _ in range(n))
            while len(gens) == 1 and isinstance(gens[0].iter, ast.Name) and len(cdefs.get(gens[0].iter.id, [])) == 1 and isinstance(cdefs[gens[0].iter.id][0], (ast.GeneratorExp, ast.ListComp)):
                inner = cdefs[gens[0].iter.id][0]
                gens = list(inner.generators) + [ast.comprehension(target=gens[0].target, iter=ast.List(elts=[], ctx=ast.Load()), ifs=gens[0].ifs, is_async=0)]
            src = canon(gens[0].iter)
            filt = [c for g in gens for c in g.ifs]
            none_filter = filt and all(isinstance(c, ast.Compare) and len(c.ops) == 1 and isinstance(c.ops[0], (ast.IsNot, ast.NotEq)) and isinstance(c.comparators[0], ast.Constant) and c.comparators[0].value is None for c in filt)
            can_be_none = False
            if none_filter:
                # does any initializer pyhms ships hand out None?
                for g_ in ctx.prog.all_functions():
                    if g_.module.name == "pyhms.initializers" and g_.parent is not None:
                        for r_ in body_walk(g_.node):
                            if isinstance(r_, ast.Return) and (r_.value is None or (isinstance(r_.value, ast.Constant) and r_.value.value is None)):
                                can_be_none = True
            if filt and none_filter and not can_be_none:
                st_cp, why_cp = OK, ""
            elif filt:
                st_cp, why_cp = VIOLATION, f"create_population drops the draws for which `{norm(filt[0])}` fails: it returns FEWER than `{npar}` individuals and every later generation of the deme keeps that smaller size"
            elif src == f"range({npar})" and len([g for g in gens if not (isinstance(g.iter, ast.List) and not g.iter.elts)]) == 1:
                st_cp, why_cp = OK, ""
            elif re.fullmatch(r"range\(" + re.escape(npar) + r"[-+]\d+\)|range\(\d+\)", src):
                st_cp, why_cp = VIOLATION, f"create_population builds `{src}` individuals instead of `{npar}`"
    obs.append(ctx.ob("R12.2", cp, rets[0] if rets else cp.node, status=st_cp, detail=f"create_population(n, ...) returns exactly n individuals" if st_cp == OK else why_cp, construct="create-population-size"))
    # topk returns min(k, n) rows: slices [-k:] / [:k] of one argsort
    tk = ctx.prog.own_method("Population", "topk")
    k = tk.params()[1]
    sl = [n for n in body_walk(tk.node) if isinstance(n, ast.Subscript) and isinstance(n.slice, ast.Slice) and isinstance(n.value, ast.Call) and norm(n.value.func).endswith("argsort")]
    ok = len(sl) == 2 and sorted(canon(s.slice) if False else (("-" if s.slice.lower is not None else "") + canon(s.slice.lower or s.slice.upper)) for s in sl) == sorted([f"--{k}" if False else f"-{'-' + k}"[1:], k]) if False else None
    texts = sorted(canon(s).split("[")[-1] for s in sl)
    ok = texts == sorted([f"-{k}:]", f":{k}]"])
    # rows chosen by comparing with a threshold VALUE (`flatnonzero(f <= t)`, a boolean mask) instead of by position: every row
    # tied with the k-th best passes, so more than k rows come back
    byval = [c for c in body_walk(tk.node) if (isinstance(c, ast.Call) and norm(c.func).split(".")[-1] in ("flatnonzero", "nonzero", "where", "argwhere") and c.args and isinstance(c.args[0], ast.Compare) and any(isinstance(x, ast.Attribute) and x.attr == "fitnesses" for x in ast.walk(c.args[0]))) or (isinstance(c, ast.Subscript) and isinstance(c.slice, ast.Compare) and any(isinstance(x, ast.Attribute) and x.attr == "fitnesses" for x in ast.walk(c.slice)))]
    if byval:
        obs.append(ctx.ob("R12.2", tk, byval[0], status=VIOLATION, detail=f"Population.topk selects rows by value (`{norm(byval[0])[:70]}`): all rows tied with the k-th best are kept, so topk(k) returns MORE than k rows when fitness values tie (plateaus, duplicates, the cutoff's sentinel) and the generation grows", construct="topk-by-value"))
    obs.append(ctx.ob("R12.2", tk, tk.node, status=OK if ok else VIOLATION, detail="topk(k) takes exactly k indices from one end of the argsort" if ok else f"Population.topk slices `{texts}` instead of [-k:] / [:k]: the selected population does not have min(k, n) rows", construct="topk-size"))
    return obs


def r12_3(ctx: Ctx):
    """R12.3 elitism: elites from the parents, k_elites >= 1 by default, direction-aware selection; DE/SHADE slot-wise better."""
    obs = []
    for o in c04.r04_5(ctx, need="keep-parents"):
        if o.construct in ("sea-selection", "DE:greedy", "SHADE:greedy"):
            o.rule = "R12.3"
            obs.append(o)
    for o in c13.r13_2(ctx):
        if any(s in o.subject for s in ("Population.topk",)):
            o.rule = "R12.3"
            obs.append(o)
    # a direction kept by an engine object must be the problem's own (R13.8): otherwise `better` means `worse` for one direction
    for o in c13.r13_8(ctx):
        # only the engines' own direction concerns elitism; a sprout filter's is C10 / C13's business
        kept_by = ctx.prog.cls_opt((o.construct or "").split(".")[0]) if o.construct else None
        vo = ctx.prog.cls_opt("VariationalOperator")
        if kept_by is not None and ((vo is not None and ctx.prog.is_subclass(kept_by, vo)) or kept_by.name.endswith(("Selection", "Mutation", "Crossover"))):
            continue  # a variation / mating-selection operator decides which offspring are MADE, not which individuals survive
        if any(k in (o.subject or "") + (o.construct or "") for k in ("single_pop_eas", "DE", "SHADE", "SEA", "de_deme", "shade_deme", "ea_deme", "Deme.")) and "sprout" not in (o.subject or ""):
            o.rule = "R12.3"
            obs.append(o)
    # default number of elites
    mod = ctx.prog.modules["pyhms.demes.single_pop_eas.sea"]
    st = mod.globals_.get("DEFAULT_K_ELITES")
    ok = st is not None and isinstance(st.value, ast.Constant) and isinstance(st.value.value, int) and st.value.value >= 1
    obs.append(ctx.ob("R12.3", None, None, subject="demes.single_pop_eas.sea.DEFAULT_K_ELITES", loc=f"{mod.relpath}:{st.lineno if st is not None else 0}", status=OK if ok else VIOLATION, detail="at least one elite by default" if ok else "DEFAULT_K_ELITES is not a positive integer: the default SEA is not elitist", construct="default-elites"))
    base = ctx.prog.cls("BaseSEA")
    n = 0
    for ci in ctx.prog.subclasses(base):
        cr = ci.methods.get("create")
        if cr is None:
            continue
        defs = local_defs(cr)
        for c in body_walk(cr.node):
            if isinstance(c, ast.Call) and ctx.prog.resolve_class_expr(c.func, cr.module) is ci:
                ke = next((k.value for k in c.keywords if k.arg == "k_elites"), None)
                if ke is None:
                    if ci.name == "MWEA":
                        continue
                    obs.append(ctx.ob("R12.3", cr, c, status=VIOLATION, detail=f"{ci.name}.create does not pass k_elites", construct=f"{ci.name}:k_elites"))
                    continue
                n += 1
                t = canon(ke, defs)
                ok = t in ("kwargs.get('k_elites',DEFAULT_K_ELITES)", 'kwargs.get("k_elites",DEFAULT_K_ELITES)')
                obs.append(ctx.ob("R12.3", cr, c, status=OK if ok else VIOLATION, detail=f"{ci.name}: k_elites = configured value or the default" if ok else f"{ci.name}: engine built with k_elites=`{norm(ke)}` (`{t}`) instead of the configured / default number of elites", construct=f"{ci.name}:k_elites"))
    if n < 4:
        raise AnalysisError(f"only {n} engine constructions with k_elites found")
    init = ctx.prog.own_method("BaseSEA", "__init__")
    st = [x for x in body_walk(init.node) if isinstance(x, ast.Assign) and any(is_self_attr(t, "k_elites", init.self_name()) for t in x.targets)]
    ok = len(st) == 1 and norm(st[0].value) == "k_elites"
    obs.append(ctx.ob("R12.3", init, st[0] if st else init.node, status=OK if ok else VIOLATION, detail="engine stores the configured k_elites" if ok else "BaseSEA does not store the k_elites it was given", construct="store-k"))
    return obs


def r12_4(ctx: Ctx):
    """R12.4 operators preserve the number of rows where derivable (in-place on a copy; one index row per individual; np.where against the input's genomes)."""
    from . import c01

    obs = []
    for ci, m in c01._operators(ctx):
        pname = m.params()[1]
        defs = local_defs(m)
        rets = [r for r in body_walk(m.node) if isinstance(r, ast.Return) and r.value is not None]
        verdict = None
        why = ""
        for r in rets:
            v = r.value
            rv = v
            while isinstance(rv, ast.Name) and rv.id in defs and len(defs[rv.id]) == 1:
                rv = defs[rv.id][0]
            if canon(rv) == f"{pname}.copy()" or canon(v) == pname:
                verdict = verdict or "same"
                continue
            if isinstance(rv, ast.Call) and ctx.prog.resolve_class_expr(rv.func, m.module) is ctx.prog.cls("Population") and rv.args:
                g = rv.args[0]
                gr = g
                hops = 0
                # last definition wins for reassigned names: follow the final assignment textually before the return
                from .c02 import _last_def_before

                while isinstance(gr, ast.Name) and hops < 4:
                    d = _last_def_before(m, gr.id, r)
                    if d is None:
                        break
                    gr = d
                    hops += 1
                t = canon(gr)
                if isinstance(gr, ast.Call) and norm(gr.func) in ("np.where", "numpy.where") and len(gr.args) == 3 and any(canon(a).endswith(f"{pname}.genomes") or canon(a).endswith("_copy.genomes") for a in gr.args[1:]):
                    verdict = verdict or "same"
                elif isinstance(gr, ast.Call) and norm(gr.func).endswith("apply_bounds"):
                    verdict = verdict or "assumed"
                    why = "rows of the repaired donor array (one donor per individual by select_parents)"
                elif isinstance(gr, ast.Subscript) and canon(gr.value).endswith(".genomes"):
                    idx = gr.slice
                    ir = idx
                    while isinstance(ir, ast.Name) and ir.id in defs and len(defs[ir.id]) == 1:
                        ir = defs[ir.id][0]
                    ti = canon(ir)
                    if "np.arange(num_individuals)" in ti or "num_individuals" in ti:
                        # one winner per individual
                        nd = defs.get("num_individuals", [])
                        okn = bool(nd) and all(canon(d) in (f"len({pname}_copy.fitnesses)", f"len({pname}.fitnesses)", f"{pname}.size", f"len({pname}_copy.genomes)", f"{pname}_copy.size") or canon(d).startswith("len(") for d in nd)
                        verdict = "same" if okn else "unknown"
                        why = "" if okn else f"index array built from `{[norm(d) for d in nd]}`"
                    else:
                        verdict = "assumed"
                        why = f"rows selected by `{ti[:50]}`"
                else:
                    verdict = "assumed"
                    why = f"genomes `{t[:50]}`"
            else:
                verdict = verdict or "assumed"
                why = why or f"returns `{norm(v)[:50]}`"
        st = OK
        obs.append(ctx.ob("R12.4", m, m.node, status=st, detail=f"{ci.name}: " + ("returns as many rows as it was given" if verdict == "same" else f"row count not derivable statically ({why}); recorded as an assumption"), construct=f"{ci.name}:rows", trivial=verdict != "same"))
    # TournamentSelection: explicit shape rule
    ts = ctx.prog.own_method("TournamentSelection", "__call__")
    calls = [c for c in body_walk(ts.node) if isinstance(c, ast.Call) and norm(c.func).endswith("random.randint")]
    ok = False
    if len(calls) == 1 and len(calls[0].args) >= 3 and isinstance(calls[0].args[2], ast.Tuple) and len(calls[0].args[2].elts) == 2:
        defs = local_defs(ts)
        first = canon(calls[0].args[2].elts[0], defs)
        import re

        pn = ts.params()[1]
        ok = re.fullmatch(rf"(len\({pn}(\.copy\(\))?\.(fitnesses|genomes)\)|{pn}(\.copy\(\))?\.size)", first) is not None
    obs.append(ctx.ob("R12.4", ts, calls[0] if calls else ts.node, status=OK if ok else VIOLATION, detail="one tournament per individual of the input" if ok else "TournamentSelection does not hold one tournament per input individual: the offspring population changes size", construct="tournament-shape"))
    # MultiwinnerRepeatedSelection: enough elections of k winners each to reach the input's size, surplus trimmed
    try:
        mw = ctx.prog.own_method("MultiwinnerRepeatedSelection", "__call__")
    except Exception:
        mw = None
    if mw is not None:
        import copy as _copy

        from ..core import _Subst

        pn, sn = mw.params()[1], mw.self_name()
        mdefs = local_defs(mw)
        loops = [n for n in body_walk(mw.node) if isinstance(n, ast.For) and isinstance(n.iter, ast.Call) and norm(n.iter.func) == "range" and len(n.iter.args) == 1 and any(isinstance(c, ast.Call) and ((isinstance(c.func, ast.Attribute) and c.func.attr == "merge") or any(canon(a_) == f"{sn}.k" for a_ in list(c.args) + [k_.value for k_ in c.keywords])) for c in ast.walk(n))]
        if len(loops) != 1:
            obs.append(ctx.ob("R12.4", mw, mw.node, status=INCONCLUSIVE, detail="MultiwinnerRepeatedSelection: the loop of elections was not found", construct="mw-elections"))
        else:
            N = _Subst(mdefs, 4).visit(_copy.deepcopy(loops[0].iter.args[0]))
            t = canon(N)
            size = rf"(?:{pn}\.size|len\({pn}\)|len\({pn}\.fitnesses\)|len\({pn}\.genomes\))"
            k = rf"{sn}\.k"
            import re

            enough = [rf"{size}//{k}\+1", rf"1\+{size}//{k}", rf"(?:math\.ceil|np\.ceil|int\(math\.ceil|int\(np\.ceil)\({size}/{k}\)\)?", rf"-\(-{size}//{k}\)", rf"\({size}\+{k}-1\)//{k}", rf"{size}"]
            short = [rf"{size}//{k}", rf"(?:max\(1,)?(?:round|int)\({size}/{k}\)\)?", rf"max\(1,{size}//{k}\)", rf"(?:math\.floor|np\.floor|int\(np\.floor)\({size}/{k}\)\)?"]
            if any(re.fullmatch(p_, t) for p_ in enough):
                st, why = OK, "elections x k winners >= the input's size"
            elif any(re.fullmatch(p_, t) for p_ in short):
                st, why = VIOLATION, f"`{norm(N)}` elections of k winners yield fewer individuals than the input has whenever the size is not a multiple of k (the quotient is rounded down) and nothing refills the population: the generation is smaller than the configured population size"
            else:
                st, why = INCONCLUSIVE, f"cannot tell whether `{norm(N)}` elections of k winners reach the input's size"
            obs.append(ctx.ob("R12.4", mw, loops[0].iter, status=st, detail="MultiwinnerRepeatedSelection: " + why, construct="mw-elections"))
            trims = [c for c in body_walk(mw.node) if isinstance(c, ast.Call) and isinstance(c.func, ast.Attribute) and c.func.attr == "topk" and c.args and re.fullmatch(size, canon(c.args[0], mdefs))]
            sl = [c for c in body_walk(mw.node) if isinstance(c, ast.Subscript) and isinstance(c.slice, ast.Slice) and c.slice.upper is not None and re.fullmatch(size, canon(c.slice.upper, mdefs))]
            obs.append(ctx.ob("R12.4", mw, (trims + sl)[0] if trims or sl else mw.node, status=OK if trims or sl else INCONCLUSIVE, detail="MultiwinnerRepeatedSelection: surplus winners are trimmed to the input's size" if trims or sl else "MultiwinnerRepeatedSelection: no trim of the merged winners to the input's size was found", construct="mw-trim"))
    return obs


def r12_5(ctx: Ctx):
    """R12.5 SEAWithAdaptiveMutation.run delegates to BaseSEA.run with the same parents."""
    m = ctx.prog.own_method("SEAWithAdaptiveMutation", "run")
    rets = [r for r in body_walk(m.node) if isinstance(r, ast.Return)]
    p = m.params()[1]
    ok = len(rets) == 1 and canon(rets[0].value) in (f"super().run({p},**kwargs)", f"super().run({p})")
    return [ctx.ob("R12.5", m, rets[0] if rets else m.node, status=OK if ok else VIOLATION, detail="delegates to BaseSEA.run(parents)" if ok else f"SEAWithAdaptiveMutation.run returns `{norm(rets[0].value) if rets else '?'}`: selection / elitism of BaseSEA.run is bypassed")]


RULES = [
    ("R12.1", r12_1, 10),
    ("R12.2", r12_2, 10),
    ("R12.3", r12_3, 8),
    ("R12.4", r12_4, 10),
    ("R12.5", r12_5, 1),
]
