"""C18 — hibernation suspends exactly the demes that did not sprout (structural clauses)."""
from __future__ import annotations

import ast

from ..cfg import typestate, witness_path
from ..core import INCONCLUSIVE, OK, VIOLATION, Ctx, is_self_attr, local_defs
from ..model import AnalysisError, body_walk, norm
from .common import calls_method

CLAIM = """Decides the structural clauses of the property for every path: (R18.1) in DemeTree.run_metaepoch a deme's step is
skipped exactly when the option is on and the deme's flag is set — never otherwise, and always then; (R18.2) the flag is
False at construction and is written only inside run_sprout under the option test, so with hibernation off no deme ever
hibernates; (R18.3) polarity: awake iff the deme is a key of this round's seeds, asleep otherwise, and the flagged demes are
the active non-leaf ones; (R18.4) the round only flags demes that took part in it: the collection it iterates is taken
before the sprouting call creates new demes (a deme created by the round starts awake); (R18.5) a hibernating deme cannot
evaluate or change its history because the only caller of its evaluating methods is the skipped step (with C06's R06.6). (R18.9) the options dictionary is never written while it can be the module-level default; (R18.10) only the deme itself writes its history; R18.1 / R18.6 concern hibernation only (a skip under GSC-true, a filter reading the flag are other properties' business). (R18.11) progress: run_metaepoch / run_step have a provision for the state in which every active deme hibernates - on the pinned tree they have none (known finding: metaepochs pass without an evaluation, findings/C18-hibernation-stall)."""
NOTE = """The liveness clause ('a metaepoch never passes without at least one evaluation') quantifies over run histories and is
not decided statically; it is left open (DESIGN.md §5 C18)."""
TECHNIQUE = "path-sensitive typestate over the CFGs of run_metaepoch/run_sprout + who-may-write + dominance (snapshot-before-mutation) check"
EXPLANATION = """
R18.1 classifies the atomic decision nodes of the stepping loop (option test: mentions the literal "hibernation"; flag test:
reads `_hibernating`) and propagates their outcomes; a step reached with (option on, flag set) or an iteration ending without
a step unless (option on, flag set) is a witnessed violation. R18.2 enumerates every store to `_hibernating` in pyhms.
R18.3 checks, in run_sprout, the outcome of the membership test `deme in <seeds>` at each store and the provenance of the
iterated collection (active_non_leaves) and of <seeds> (the value returned by get_seeds and passed unchanged to _do_sprout).
R18.4 requires the iterated collection to be a local bound, on every path, before the _do_sprout call (dominance) to a
snapshot of active_non_leaves; re-reading the accessor after the mutation is the pinned defect.
"""
ASSUMPTIONS = ["demes are created only by _do_sprout (C05 R05.5)"]


def _mentions_option(e: ast.AST) -> bool:
    """the option key as a literal, or through a constant / helper named after it (HIBERNATION_OPTION, hibernation_enabled())"""
    return any((isinstance(n, ast.Constant) and n.value == "hibernation") or (isinstance(n, ast.Name) and "hibernation" in n.id.lower() and n.id.isupper()) or (isinstance(n, ast.Attribute) and "hibernation" in n.attr.lower() and n.attr != "_hibernating" and not n.attr.lower().startswith(("_hibernating", "is_hibernating"))) for n in ast.walk(e))


def _mentions_flag(e: ast.AST) -> bool:
    return any(isinstance(n, ast.Attribute) and n.attr == "_hibernating" for n in ast.walk(e))


def _option_outcome(n, lab):
    """For an option-test cond node: does this outcome establish 'option on' (True), 'option off' (False), or nothing (None)?"""
    e = n.ast
    if isinstance(e, ast.Compare) and len(e.ops) == 1 and isinstance(e.ops[0], (ast.In, ast.NotIn)):
        present = lab if isinstance(e.ops[0], ast.In) else (not lab)
        return None if present else False  # key present says nothing yet; key absent = off
    # value test: options["hibernation"] / options.get("hibernation") / == True
    if isinstance(e, ast.Compare) and len(e.ops) == 1 and isinstance(e.comparators[0], ast.Constant) and isinstance(e.comparators[0].value, bool):
        v = e.comparators[0].value
        pos = isinstance(e.ops[0], (ast.Eq, ast.Is))
        return lab == (v == pos) if True else None
    return bool(lab)


def r18_1(ctx: Ctx):
    """R18.1 the step is skipped exactly under (option on AND deme._hibernating)."""
    f = ctx.prog.own_method("DemeTree", "run_metaepoch")
    cfg = ctx.cfg(f)
    step = ctx.prog.cls("AbstractDeme").methods["run_metaepoch"]
    step_nodes = [n for n in cfg.nodes if n.ast is not None and n.kind != "forhead" and calls_method(n.ast, ctx, f, step)]
    if not step_nodes:
        raise AnalysisError("DemeTree.run_metaepoch no longer steps demes")
    opt_defs = {name for name, ds in local_defs(f).items() if ds and all(_mentions_option(d) for d in ds if not isinstance(d, ast.AugAssign))}
    # the demes to step are produced by a helper of the tree (a generator, a pre-filtered list built elsewhere): the skip
    # condition lives there, in a form this rule does not follow
    for n in step_nodes:
        L = cfg.loop_of(n)
        it = L["stmt"].iter if L is not None and isinstance(L["stmt"], ast.For) else None
        it = _core_iter(it) if it is not None else None
        if isinstance(it, ast.Call) and isinstance(it.func, ast.Attribute) and isinstance(it.func.value, ast.Name) and it.func.value.id == f.self_name():
            return [ctx.ob("R18.1", f, L["stmt"], status=INCONCLUSIVE, detail=f"the demes to step are chosen by `{norm(it)[:60]}`, which this rule does not follow", construct="opaque-source")]
    # the demes to step come from a listing accessor of the tree that already tests the flag (`running_demes`): the skip
    # condition lives in the listing's filter
    from .common import deme_listing

    for n in step_nodes:
        L = cfg.loop_of(n)
        it = L["stmt"].iter if L is not None and isinstance(L["stmt"], ast.For) else None
        it = _core_iter(it) if it is not None else None
        if isinstance(it, ast.Attribute) and isinstance(it.value, ast.Name) and it.value.id == f.self_name():
            dl = deme_listing(ctx, "DemeTree", it.attr)
            hib = [x for x in dl["filters"] if "_hibernating" in x]
            if hib:
                return [ctx.ob("R18.1", f, L["stmt"], status=INCONCLUSIVE, detail=f"the demes to step come from `{norm(it)}`, whose filter `{hib[0][:80]}` already tests the hibernation flag: the skip condition is not in the loop this rule follows", construct="listing-tests-flag")]
    # the flag is read to PRE-SELECT the demes (a mask / index set built before the loop) instead of being tested per iteration
    flag_reads = [x for x in body_walk(f.node) if isinstance(x, ast.Attribute) and x.attr == "_hibernating" and isinstance(x.ctx, ast.Load)]
    if flag_reads and not any(_mentions_flag(n.ast) for n in cfg.nodes if n.kind == "cond" and n.ast is not None):
        return [ctx.ob("R18.1", f, flag_reads[0], status=INCONCLUSIVE, detail="the hibernation flags are read into a selection (mask / index set) computed outside the stepping loop's tests: which demes it leaves out is not followed", construct="preselection")]
    # ... or tested in ANOTHER loop that builds the list the stepping loop then walks (`for d in ..: if skip and d._hibernating:
    # continue; selected.append(d)`): a pre-selection as well
    step_bodies = set()
    for n in step_nodes:
        L = cfg.loop_of(n)
        if L is not None:
            step_bodies |= set(L["body_ids"])
    flag_conds = [n for n in cfg.nodes if n.kind == "cond" and n.ast is not None and _mentions_flag(n.ast)]
    if flag_conds and step_bodies and not any(n.id in step_bodies for n in flag_conds):
        return [ctx.ob("R18.1", f, flag_conds[0].stmt, status=INCONCLUSIVE, detail="the hibernation flag is tested while the list of demes to step is built, not in the stepping loop: which demes that list leaves out is not followed", construct="preselection-loop")]
    from .common import opaque_deme_calls

    oc = opaque_deme_calls(ctx, f, f.node, "_hibernating")
    if oc and not any(_mentions_flag(n.ast) for n in cfg.nodes if n.kind == "cond" and n.ast is not None):
        return [ctx.ob("R18.1", f, oc[0], status=INCONCLUSIVE, detail=f"the hibernation test is made inside `{norm(oc[0].func)}`, which this rule does not follow", construct="opaque-test")]
    viol = []
    unknown = []

    step_heads = {cfg.loop_of(n)["head"].id for n in step_nodes if cfg.loop_of(n) is not None}

    # state: ("OUT", amb) | (opt, flag, stepped, amb)  opt/flag/amb in {None, True, False}; amb = what is known about the
    # option OUTSIDE the stepping loop (a test hoisted out of it: `if option: for d: if not d._hibernating: step` / `else: for d: step`)
    def is_out(s):
        return isinstance(s, tuple) and len(s) == 2 and s[0] == "OUT"

    def node_fn(n, s):
        if n.kind == "forhead" and n.id not in step_heads:
            return [s]  # an enclosing loop over the levels
        if n.kind == "forhead":
            if not is_out(s):
                opt, flag, stepped, amb = s
                if not stepped and not (opt is True and flag is True):
                    viol.append((n, s, "an iteration skips its deme without (hibernation option on and deme._hibernating)"))
                return [("OUT", amb)]
            return [s]
        if is_out(s):
            return [s]
        opt, flag, stepped, amb = s
        if n in step_nodes:
            if flag is True and opt is not False:
                viol.append((n, s, "a deme whose _hibernating flag is set is stepped while the option is on"))
            if flag is None and opt is not False:
                # stepping without having looked at the flag while the option may be on
                viol.append((n, s, "a deme is stepped without testing its _hibernating flag although the option may be on"))
            stepped = True
        return [(opt, flag, stepped, amb)]

    def edge_fn(n, lab, s):
        if n.kind == "forhead" and n.id not in step_heads:
            return s
        if n.kind == "forhead":
            amb0 = s[1] if is_out(s) else s[3]
            return (amb0, None, False, amb0) if lab == "iter" else ("OUT", amb0)
        if n.kind != "cond" or lab not in (True, False):
            return s
        if is_out(s):
            e0 = n.ast
            if e0 is not None and (_mentions_option(e0) or (isinstance(e0, ast.Name) and e0.id in opt_defs)) and not _mentions_flag(e0):
                o0 = _option_outcome(n, lab) if _mentions_option(e0) else bool(lab)
                if o0 is not None and s[1] is not False:
                    return ("OUT", o0)
            return s
        if lab is False and isinstance(n.ast, ast.Attribute) and n.ast.attr in ("is_active", "_active"):
            return ("OUT", s[3])  # the loop itself filters out inactive demes: not one of the iterations this rule is about
        from .common import consult_verdict

        if consult_verdict(ctx, f, n, "gsc", lab) is True:
            # the global stop condition holds: SKIPPING a deme from here on is C05 / C06's business, not hibernation's
            # (stepping a sleeping deme still is)
            return (s[0], s[1], True, s[3])
        opt, flag, stepped, amb = s
        e = n.ast
        is_opt = _mentions_option(e) or (isinstance(e, ast.Name) and e.id in opt_defs)
        is_flag = _mentions_flag(e)
        if is_opt and is_flag:
            unknown.append(n)
            return s
        if is_opt:
            o = _option_outcome(n, lab) if _mentions_option(e) else bool(lab)
            if o is not None and opt is not False:
                opt = o
        elif is_flag:
            core = e
            if isinstance(core, ast.Attribute) and core.attr == "_hibernating":
                flag = bool(lab)
            elif isinstance(core, ast.Compare) and len(core.ops) == 1 and isinstance(core.comparators[0], ast.Constant) and isinstance(core.comparators[0].value, bool):
                v = core.comparators[0].value
                pos = isinstance(core.ops[0], (ast.Eq, ast.Is))
                flag = lab == (v == pos)
            else:
                unknown.append(n)
        return (opt, flag, stepped, amb)

    at, exits, parent = typestate(cfg, [("OUT", None)], node_fn, edge_fn)
    obs = []
    if unknown:
        n = unknown[0]
        return [ctx.ob("R18.1", f, n.stmt, status=INCONCLUSIVE, detail="hibernation test in a form the analyser cannot attribute", construct=n.label)]
    seen = set()
    for n, s, msg in viol:
        if msg in seen:
            continue
        seen.add(msg)
        obs.append(ctx.ob("R18.1", f, n.stmt, status=VIOLATION, detail=msg, witness=witness_path(cfg, parent, n.id, s), construct=msg[:60]))
    flag_tests = [n for n in cfg.nodes if n.kind == "cond" and _mentions_flag(n.ast)]
    opt_tests = [n for n in cfg.nodes if n.kind == "cond" and (_mentions_option(n.ast) or (isinstance(n.ast, ast.Name) and n.ast.id in opt_defs))]
    if not flag_tests:
        obs.append(ctx.ob("R18.1", f, f.node, status=VIOLATION, detail="the stepping loop never tests deme._hibernating: hibernating demes are not skipped", construct="no-flag-test"))
    elif not opt_tests:
        obs.append(ctx.ob("R18.1", f, flag_tests[0].stmt, status=VIOLATION, detail="the hibernation skip does not depend on the option", construct="no-option-test"))
    if not obs:
        obs.append(ctx.ob("R18.1", f, flag_tests[0].stmt, detail="step skipped exactly under option on AND _hibernating (all loop paths)", construct="skip-paths"))
    return obs


def _flag_stores(ctx):
    out = []
    for f in ctx.prog.all_functions():
        if f.name == "<module>":
            continue
        for n in body_walk(f.node):
            tg = n.targets if isinstance(n, ast.Assign) else [n.target] if isinstance(n, (ast.AugAssign, ast.AnnAssign)) else []
            for t in tg:
                for sub in ast.walk(t):
                    if isinstance(sub, ast.Attribute) and sub.attr == "_hibernating" and isinstance(sub.ctx, ast.Store):
                        out.append((f, n, sub))
            if isinstance(n, ast.Call) and norm(n.func) == "setattr" and len(n.args) >= 2 and isinstance(n.args[1], ast.Constant) and n.args[1].value == "_hibernating":
                out.append((f, n, None))
    return out


def r18_2(ctx: Ctx):
    """R18.2 `_hibernating`: False at construction; otherwise written only in run_sprout under the option test."""
    obs = []
    rs = ctx.prog.own_method("DemeTree", "run_sprout")
    base_init = ctx.prog.own_method("AbstractDeme", "__init__")
    cfg = ctx.cfg(rs)
    dom = cfg.dominators()
    stores = _flag_stores(ctx)
    if not any(f is base_init for f, _, _ in stores):
        raise AnalysisError("AbstractDeme.__init__ no longer initialises _hibernating")
    opt_defs = {name for name, ds in local_defs(rs).items() if ds and all(_mentions_option(d) for d in ds if not isinstance(d, ast.AugAssign))}
    for f, n, sub in stores:
        if f is base_init:
            from ..core import resolve_constant

            v0 = resolve_constant(ctx, f, n.value) if getattr(n, "value", None) is not None else None
            ok = isinstance(v0, ast.Constant) and v0.value is False and sub is not None and is_self_attr(sub, None, f.self_name())
            obs.append(ctx.ob("R18.2", f, n, status=OK if ok else VIOLATION if isinstance(v0, ast.Constant) else INCONCLUSIVE, detail="demes are constructed awake" if ok else f"a deme is constructed with `{norm(n)}`"))
        elif f is rs:
            node = next((x for x in cfg.nodes if x.kind == "stmt" and x.ast is n), None)
            if node is None:
                obs.append(ctx.ob("R18.2", f, n, status=INCONCLUSIVE, detail="flag store not found in the CFG"))
                continue
            # dominated by option tests with outcome 'on': propagate facts
            ok = _dominated_by_option_on(cfg, node, opt_defs)
            obs.append(ctx.ob("R18.2", f, n, status=OK if ok else VIOLATION, detail="flag written only with the hibernation option on" if ok else "the hibernation flag is written on a path on which the option is not known to be on (a deme can hibernate with hibernation disabled)"))
        else:
            from .common import private_closure

            behind = f.qualname in private_closure(ctx, {rs.qualname})
            obs.append(ctx.ob("R18.2", f, n, status=INCONCLUSIVE if behind else VIOLATION, detail=f"`_hibernating` is written by {f.short}, a private helper reached only from run_sprout: under which option state is not followed" if behind else f"`_hibernating` is written by {f.short}; only AbstractDeme.__init__ and DemeTree.run_sprout may"))
    return obs


def _dominated_by_option_on(cfg, target, opt_defs) -> bool:
    """Every path entry -> target passes option tests establishing 'on'."""
    bad = []

    def node_fn(n, s):
        if n is target and s is not True:
            bad.append(s)
        return [s]

    def edge_fn(n, lab, s):
        if n.kind == "cond" and lab in (True, False):
            e = n.ast
            if _mentions_option(e):
                o = _option_outcome(n, lab)
                if o is False:
                    return False
                if o is True and s is not False:
                    return True
            elif isinstance(e, ast.Name) and e.id in opt_defs:
                return bool(lab) if s is not False else s
        return s

    typestate(cfg, ["U"], node_fn, edge_fn)
    return not bad


def r18_3(ctx: Ctx):
    """R18.3 polarity and range: awake iff a key of this round's seeds; flagged demes are the active non-leaves; seeds are what get_seeds returned and _do_sprout consumed."""
    f = ctx.prog.own_method("DemeTree", "run_sprout")
    selfn = f.self_name()
    cfg = ctx.cfg(f)
    obs = []
    defs = local_defs(f)
    # the seeds variable
    do_sprout = ctx.prog.own_method("DemeTree", "_do_sprout")
    seeds_name = None
    for n in cfg.nodes:
        if n.ast is not None and calls_method(n.ast, ctx, f, do_sprout):
            for c in ast.walk(n.ast):
                if isinstance(c, ast.Call) and isinstance(c.func, ast.Attribute) and c.func.attr == "_do_sprout" and c.args and isinstance(c.args[0], ast.Name):
                    seeds_name = c.args[0].id
    if seeds_name is None:
        raise AnalysisError("run_sprout no longer passes a named seeds mapping to _do_sprout")
    sdefs = defs.get(seeds_name, [])
    ok_src = len(sdefs) == 1 and isinstance(sdefs[0], ast.Call) and isinstance(sdefs[0].func, ast.Attribute) and sdefs[0].func.attr == "get_seeds" and [norm(a) for a in sdefs[0].args] == [selfn]
    obs.append(ctx.ob("R18.3", f, sdefs[0] if sdefs else f.node, status=OK if ok_src else VIOLATION if (len(sdefs) != 1 or isinstance(sdefs[0], (ast.Dict, ast.DictComp))) else INCONCLUSIVE, detail=f"`{seeds_name}` = sprout_mechanism.get_seeds(tree), passed unchanged to _do_sprout" if ok_src else f"the seeds mapping `{seeds_name}` is not exactly what get_seeds(tree) returned", construct="seeds-provenance"))
    stores = [(n, n.ast) for n in cfg.nodes if n.kind == "stmt" and any(isinstance(t, ast.Attribute) and t.attr == "_hibernating" for t in (n.ast.targets if isinstance(n.ast, ast.Assign) else []))]
    if not stores:
        from .common import opaque_deme_calls

        oc = opaque_deme_calls(ctx, f, f.node, "_hibernating")
        obs.append(ctx.ob("R18.3", f, oc[0] if oc else f.node, status=INCONCLUSIVE if oc else VIOLATION, detail=f"the hibernation flag is handled inside `{norm(oc[0].func)}`, which this rule does not follow" if oc else "run_sprout never writes the hibernation flag: demes neither fall asleep nor wake up", construct="no-flag-store"))
        return obs
    for node, st in stores:
        val = st.value.value if isinstance(st.value, ast.Constant) else None
        tgt = st.targets[0]
        recv = tgt.value
        # membership facts on all paths to the store
        facts = set()

        def node_fn(n, s):
            if n is node:
                facts.add(s)
            return [s]

        def edge_fn(n, lab, s):
            if n.kind == "cond" and lab in (True, False) and isinstance(n.ast, ast.Compare) and len(n.ast.ops) == 1 and isinstance(n.ast.ops[0], (ast.In, ast.NotIn)):
                l, r = n.ast.left, n.ast.comparators[0]
                if norm(l) == norm(recv) and _is_seed_keys(r, seeds_name, defs):
                    member = lab if isinstance(n.ast.ops[0], ast.In) else (not lab)
                    return member
                if norm(l) == norm(recv) or seeds_name in {x.id for x in ast.walk(r) if isinstance(x, ast.Name)}:
                    return "?"  # a membership test the analyser cannot relate to the keys of the seeds mapping
            return s

        typestate(cfg, ["U"], node_fn, edge_fn)
        want = {False: True, True: False}.get(val)  # store False (awake) needs member True
        if val not in (True, False):
            verdict = _nonconst_store_verdict(st.value, defs, recv, seeds_name, facts)
            if verdict == "ok":
                obs.append(ctx.ob("R18.3", f, st, detail=f"`{norm(st)}`: the flag is the negation of membership in this round's seeds"))
            elif verdict == "swapped":
                obs.append(ctx.ob("R18.3", f, st, status=VIOLATION, detail=f"`{norm(st)}` sets the flag exactly when the deme IS a key of `{seeds_name}`: demes that sprouted fall asleep and idle ones stay awake"))
            else:
                obs.append(ctx.ob("R18.3", f, st, status=INCONCLUSIVE, detail="flag stored from a non-constant the analyser cannot relate to membership in the seeds"))
        elif "?" in facts:
            obs.append(ctx.ob("R18.3", f, st, status=INCONCLUSIVE, detail=f"`_hibernating = {val}` is guarded by a membership test the analyser cannot relate to the keys of `{seeds_name}`"))
        elif facts == {"U"} and any(isinstance(x, ast.Match) for x in body_walk(f.node)):
            obs.append(ctx.ob("R18.3", f, st, status=INCONCLUSIVE, detail=f"`_hibernating = {val}` stands in an arm of a `match` statement: what that arm says about membership in `{seeds_name}` is not followed"))
        elif facts == {want}:
            obs.append(ctx.ob("R18.3", f, st, detail=f"`_hibernating = {val}` exactly when the deme is {'not ' if val else ''}among this round's seeds"))
        else:
            obs.append(ctx.ob("R18.3", f, st, status=VIOLATION, detail=f"`_hibernating = {val}` is reached with membership-in-seeds = {sorted(map(str, facts))}; it must be reached only when the deme is {'not ' if val else ''}a key of `{seeds_name}`"))
        # loop range
        L = cfg.loop_of(node)
        if L is None or not isinstance(L["stmt"], ast.For):
            obs.append(ctx.ob("R18.3", f, st, status=INCONCLUSIVE, detail="flag store outside a for loop", construct="range"))
            continue
    loops = {id(cfg.loop_of(n)["stmt"]): cfg.loop_of(n)["stmt"] for n, _ in stores if cfg.loop_of(n) is not None}
    for loop in loops.values():
        if not isinstance(loop, ast.For):
            obs.append(ctx.ob("R18.3", f, loop, status=INCONCLUSIVE, detail="the hibernation flags are rewritten in a `while` loop: which demes it ranges over is not followed", construct="range:while"))
            continue
        src = _core_iter(loop.iter)
        srcs = [src]
        if isinstance(src, ast.Name) and src.id in defs:
            srcs = [_core_iter(d) for d in defs[src.id]]
        ok = all(is_self_attr(s, "active_non_leaves", selfn) for s in srcs)
        st_rng = OK if ok else VIOLATION
        if not ok:
            # the collection may be built from the level lists directly: read it as a deme listing
            from .common import iteration_source

            isrc = iteration_source(ctx, "DemeTree", f, loop)
            unknown_f = [x for x in isrc["filters"] if x.startswith("?")]
            if isrc["levels"] == -1 and isrc["filters"] == {"is_active"}:
                st_rng, ok = OK, True
            elif isrc["levels"] is None or unknown_f:
                st_rng = INCONCLUSIVE
        obs.append(ctx.ob("R18.3", f, loop, status=st_rng, detail="flags recomputed over the active non-leaf demes" if ok else f"the flag loop ranges over `{', '.join(norm(s) for s in srcs)}`, not over the active non-leaf demes", construct="range:" + norm(loop.iter)))
    anl = ctx.prog.own_method("DemeTree", "active_non_leaves")
    from .common import deme_listing

    dl = deme_listing(ctx, "DemeTree", "active_non_leaves")
    unknown_f = [x for x in dl["filters"] if x.startswith("?")]
    if dl["levels"] == 0 and unknown_f and not any(k in x for x in unknown_f for k in ("level", "height", "leaves")):
        # every level is enumerated and nothing in the extra conditions looks at the level: leaf demes are not excluded by
        # their level, and demes of non-leaf levels are dropped by a condition on something else
        st_anl = VIOLATION
    elif dl["levels"] is None or unknown_f:
        st_anl = INCONCLUSIVE
    elif dl["levels"] == -1 and dl["filters"] == {"is_active"}:
        st_anl = OK
    elif dl["levels"] != -1 or "is_active" not in dl["filters"] or "not is_active" in dl["filters"]:
        st_anl = VIOLATION
    else:
        st_anl = INCONCLUSIVE
    obs.append(ctx.ob("R18.3", anl, anl.node, status=st_anl, detail="active_non_leaves = active demes of all levels but the last" if st_anl == OK else "active_non_leaves no longer selects the active demes of the non-leaf levels" if st_anl == VIOLATION else "cannot tell which demes active_non_leaves selects", construct="active_non_leaves"))
    return obs


def _nonconst_store_verdict(value, defs, recv, seeds_name, facts) -> str:
    """`deme._hibernating = <expr>`: 'ok' if on every path fact the expression equals `deme not in seeds`,
    'swapped' if it equals `deme in seeds`, else 'unknown'."""
    import copy

    from ..core import _Subst, bool_equiv, parse_cond

    e = _Subst({k: v for k, v in defs.items() if k != seeds_name}, 4).visit(copy.deepcopy(value))
    r = norm(recv)

    class K(ast.NodeTransformer):
        def visit_Call(self, node):
            self.generic_visit(node)
            if isinstance(node.func, ast.Attribute) and node.func.attr == "keys" and not node.args and norm(node.func.value) == seeds_name:
                return node.func.value
            if isinstance(node.func, ast.Name) and node.func.id in ("list", "set", "tuple", "frozenset") and len(node.args) == 1 and norm(node.args[0]) == seeds_name:
                return node.args[0]
            return node

    e = K().visit(e)
    results = set()
    for fact in facts:
        if fact in (True, False):
            class F(ast.NodeTransformer):
                def visit_Compare(self, node):
                    if len(node.ops) == 1 and isinstance(node.ops[0], (ast.In, ast.NotIn)) and norm(node.left) == r and norm(node.comparators[0]) == seeds_name:
                        return ast.Constant(value=fact if isinstance(node.ops[0], ast.In) else (not fact))
                    return node

            e2 = F().visit(copy.deepcopy(e))
            good, bad = ast.Constant(value=not fact), ast.Constant(value=fact)
        else:
            e2 = e
            good, bad = parse_cond(f"{r} not in {seeds_name}"), parse_cond(f"{r} in {seeds_name}")
        if bool_equiv(e2, good) is True:
            results.add("ok")
        elif bool_equiv(e2, bad) is True:
            results.add("swapped")
        else:
            results.add("unknown")
    if results == {"ok"}:
        return "ok"
    if "swapped" in results and "unknown" not in results:
        return "swapped"
    return "unknown"



def _is_seed_keys(r, seeds_name, defs, depth=0):
    """r denotes the key set of the seeds mapping: the mapping itself, .keys(), or set / frozenset / list / tuple of those,
    possibly bound once to a local."""
    if depth > 4:
        return False
    if isinstance(r, ast.Name) and r.id != seeds_name and r.id in defs and len(defs[r.id]) == 1:
        return _is_seed_keys(defs[r.id][0], seeds_name, defs, depth + 1)
    if norm(r) in (seeds_name, f"{seeds_name}.keys()"):
        return True
    if isinstance(r, ast.Call) and isinstance(r.func, ast.Name) and r.func.id in ("set", "frozenset", "list", "tuple") and len(r.args) == 1 and not r.keywords:
        return _is_seed_keys(r.args[0], seeds_name, defs, depth + 1)
    return False


def _core_iter(e):
    while True:
        if isinstance(e, ast.Call) and isinstance(e.func, ast.Name) and e.func.id in ("reversed", "list", "tuple", "sorted", "iter") and e.args:
            e = e.args[0]
        elif isinstance(e, ast.Subscript) and isinstance(e.slice, ast.Slice) and e.slice.lower is None and e.slice.upper is None:
            e = e.value  # x[::-1] / x[:] : the same elements
        elif isinstance(e, (ast.ListComp, ast.GeneratorExp)) and len(e.generators) == 1 and not e.generators[0].ifs and isinstance(e.elt, ast.Name) and e.elt.id in {x.id for x in ast.walk(e.generators[0].target) if isinstance(x, ast.Name)}:
            e = e.generators[0].iter  # [d for _, d in X]: one element per element of X (a projection of the same collection)
        elif isinstance(e, (ast.ListComp, ast.GeneratorExp)) and len(e.generators) == 1 and not e.generators[0].ifs and isinstance(e.elt, ast.Tuple) and isinstance(e.generators[0].target, ast.Tuple) and [norm(x) for x in e.elt.elts] == [norm(x) for x in e.generators[0].target.elts]:
            e = e.generators[0].iter
        else:
            return e


def r18_4(ctx: Ctx):
    """R18.4 the round flags only demes that existed before it sprouted: the iterated collection is a snapshot taken before _do_sprout."""
    f = ctx.prog.own_method("DemeTree", "run_sprout")
    selfn = f.self_name()
    cfg = ctx.cfg(f)
    dom = cfg.dominators()
    do_sprout = ctx.prog.own_method("DemeTree", "_do_sprout")
    sprout_nodes = [n for n in cfg.nodes if n.ast is not None and calls_method(n.ast, ctx, f, do_sprout)]
    if not sprout_nodes:
        raise AnalysisError("run_sprout no longer calls _do_sprout")
    obs = []
    flag_loops = []
    for n in cfg.nodes:
        if n.kind == "stmt" and isinstance(n.ast, ast.Assign) and any(isinstance(t, ast.Attribute) and t.attr == "_hibernating" for t in n.ast.targets):
            L = cfg.loop_of(n)
            if L is not None and L not in flag_loops:
                flag_loops.append(L)
    if not flag_loops:
        return [ctx.ob("R18.4", f, f.node, status=INCONCLUSIVE, detail="no loop writing the hibernation flag", construct="no-loop")]
    for L in flag_loops:
        loop = L["stmt"]
        head = L["head"]
        if not isinstance(loop, ast.For):
            obs.append(ctx.ob("R18.4", f, loop, status=INCONCLUSIVE, detail="the hibernation flags are rewritten in a `while` loop: whether its demes are a snapshot taken before sprouting is not followed", construct="snapshot:while"))
            continue
        it = loop.iter
        reads_accessor_now = any(is_self_attr(x, None, selfn) and x.attr in ("active_non_leaves", "active_demes", "all_demes", "levels", "_levels", "leaves") for x in ast.walk(it))
        after_sprout = any(cfg.can_reach(sn, head) for sn in sprout_nodes)
        if reads_accessor_now and after_sprout:
            # accepted alternative: the loop body excludes demes created in this round
            guards = [x for x in ast.walk(loop) if isinstance(x, ast.Compare) and "started_at" in norm(x) and "metaepoch_count" in norm(x)]
            if guards:
                obs.append(ctx.ob("R18.4", f, loop, status=INCONCLUSIVE, detail="accessor re-read after sprouting with a started_at guard: the analyser does not evaluate the guard", construct=norm(it)))
            else:
                p = cfg.find_path(sprout_nodes[0], head) or []
                obs.append(ctx.ob("R18.4", f, loop, status=VIOLATION, detail=f"the hibernation flags are recomputed over `{norm(it)}`, read after _do_sprout has created new demes: a deme created by this round (never among its seeds) is put to sleep before it ever ran", witness=[f"L{x.lineno}: {x.label[:70]}" for x in p], construct=norm(it)))
            continue
        src = _core_iter(it)
        if isinstance(src, ast.Name):
            # every definition of the snapshot local must be placed before the sprouting call (dominance)
            defnodes = [n for n in cfg.nodes if n.kind == "stmt" and isinstance(n.ast, (ast.Assign, ast.AnnAssign)) and any(isinstance(t, ast.Name) and t.id == src.id for t in (n.ast.targets if isinstance(n.ast, ast.Assign) else [n.ast.target]))]
            ok = bool(defnodes)
            why = ""
            for d in defnodes:
                for sn in sprout_nodes:
                    if not cfg.can_reach(sn, head):
                        continue  # a sprouting call on a path that never reaches this flag loop (e.g. the option-off branch)
                    if d.id not in dom.get(sn.id, set()):
                        ok = False
                        why = f"`{d.label}` does not precede the _do_sprout call on every path"
                v = d.ast.value
                # must materialise the accessor's result now (the accessor returns a fresh list; generators/lazy views do not)
                lazy = isinstance(v, ast.GeneratorExp) or (isinstance(v, ast.Call) and norm(v.func) in ("iter", "filter", "map"))
                if lazy:
                    ok = False
                    why = f"`{d.label}` is lazy: it is evaluated after the sprouting call"
                if isinstance(v, ast.Call) and norm(v.func) == "reversed" and not (isinstance(v.args[0], ast.Call) or is_self_attr(v.args[0], "active_non_leaves", selfn)):
                    ok = False
                    why = f"`{d.label}` is a live reversed view"
                if isinstance(v, ast.Attribute) and v.attr in ("levels", "_levels", "leaves"):
                    ok = False
                    why = f"`{d.label}` aliases the live level lists"
            obs.append(ctx.ob("R18.4", f, loop, status=OK if ok else VIOLATION, detail=f"flag loop iterates `{src.id}`, a snapshot bound before _do_sprout" if ok else f"the collection whose demes are flagged is not a snapshot taken before sprouting: {why}", construct="snapshot:" + src.id))
        else:
            obs.append(ctx.ob("R18.4", f, loop, status=INCONCLUSIVE, detail=f"cannot determine when `{norm(it)}` is evaluated relative to _do_sprout", construct=norm(it)))
    return obs


def r18_5(ctx: Ctx):
    """R18.5 a deme's evaluating / history-changing methods are reachable only through the (skippable) step in DemeTree.run_metaepoch."""
    from . import c06

    out = []
    from . import c03

    # a child that evaluates through its (possibly hibernating) parent's wrapper makes the sleeping parent's counter grow
    for o in c03.r03_11(ctx):
        o.rule = "R18.5"
        out.append(o)
    for o in c06.r06_6(ctx):
        o.rule = "R18.5"
        out.append(o)
    return out


def r18_10(ctx: Ctx):
    """R18.10 a sleeping deme's history changes through nobody: only the deme's own methods write `_history`, and those are
    reachable only through the skippable step (R18.5)."""
    from .common import foreign_history_writes

    return foreign_history_writes(ctx, "R18.10", "the history of a deme that sleeps (or has stopped) changes although it ran no metaepoch", own_step_edits=False)


def r18_6(ctx: Ctx):
    """R18.6 the flag is read only by the stepping loop and the flag round: sleeping demes stay candidates for sprouting (which is what wakes them)."""
    obs = []
    allowed = {ctx.prog.own_method("DemeTree", "run_metaepoch").qualname, ctx.prog.own_method("DemeTree", "run_sprout").qualname}
    # who decides which demes are OFFERED as sprout parents: the candidate generators, and every accessor / property of the tree
    # and of the demes that they read (transitively through `self.<accessor>`). A filter that looks at the flag only removes
    # candidates - the parent then "took no sprout" and stays asleep, which is what the property says - so filters are not
    # part of this set.
    gen_base = ctx.prog.cls("SproutCandidatesGenerator")
    offering = set()
    read_attrs = set()
    for ci in ctx.prog.classes.values():
        if ci is gen_base or ctx.prog.is_subclass(ci, gen_base):
            for m in ctx.prog.functions_in(ci):
                offering.add(m.qualname)
                read_attrs |= {x.attr for x in body_walk(m.node) if isinstance(x, ast.Attribute) and isinstance(x.ctx, ast.Load)}
    tree_ci, deme_ci = ctx.prog.cls("DemeTree"), ctx.prog.cls("AbstractDeme")
    grew = True
    while grew:
        grew = False
        for ci in [tree_ci] + [c for c in ctx.prog.classes.values() if c is deme_ci or ctx.prog.is_subclass(c, deme_ci)]:
            for m in ci.methods.values():
                if m.name in read_attrs and m.qualname not in offering and m.name not in ("run_metaepoch", "run_sprout", "run", "run_step"):
                    offering.add(m.qualname)
                    sn_ = m.self_name()
                    more = {x.attr for x in body_walk(m.node) if isinstance(x, ast.Attribute) and isinstance(x.ctx, ast.Load) and isinstance(x.value, ast.Name) and x.value.id == sn_}
                    if more - read_attrs:
                        read_attrs |= more
                    grew = True
    n = 0
    for f in ctx.prog.all_functions():
        if f.name == "<module>":
            continue
        for x in body_walk(f.node):
            if isinstance(x, ast.Attribute) and x.attr == "_hibernating" and isinstance(x.ctx, ast.Load):
                n += 1
                ok = f.qualname in allowed
                # a read matters where it can keep a sleeping deme from being offered as a sprout parent (the only thing that
                # wakes it): the sprouting machinery and the accessors it iterates; reporting / counting code may look at the flag
                in_sprout_path = f.qualname in offering
                if not ok and not in_sprout_path:
                    obs.append(ctx.ob("R18.6", f, x, detail=f"{f.short} looks at the flag, but does not decide which demes are offered as sprout parents (a filter, a report, an accessor the candidate generators do not read)"))
                    continue
                obs.append(ctx.ob("R18.6", f, x, status=OK if ok else VIOLATION, detail="flag read by the tree's stepping / flag round" if ok else f"{f.short} reads `_hibernating` and the candidate generators go through it: a sleeping deme is no longer offered as a sprout parent, so no round can take a sprout from it - nothing wakes it, and with every non-leaf asleep metaepochs pass without a single evaluation"))
            if isinstance(x, ast.Call) and norm(x.func) == "getattr" and len(x.args) >= 2 and isinstance(x.args[1], ast.Constant) and x.args[1].value == "_hibernating":
                obs.append(ctx.ob("R18.6", f, x, status=VIOLATION, detail=f"{f.short} reads the hibernation flag through getattr"))
    if n == 0:
        raise AnalysisError("no read of _hibernating found")
    return obs


def r18_7(ctx: Ctx):
    """R18.7 being a key of the round's seeds means a sprout was taken: get_seeds returns only parents left with at least one candidate."""
    from ..core import canon, cond_is

    gs = ctx.prog.own_method("SproutMechanism", "get_seeds")
    rets = [r for r in body_walk(gs.node) if isinstance(r, ast.Return)]
    if len(rets) != 1 or rets[0].value is None:
        return [ctx.ob("R18.7", gs, gs.node, status=INCONCLUSIVE, detail="get_seeds has no single value-returning exit", construct="drop-empty")]
    defs = local_defs(gs)
    e = rets[0].value
    hops = 0
    while isinstance(e, ast.Name) and hops < 3:
        ds = defs.get(e.id, [])
        dc = [d for d in ds if isinstance(d, ast.DictComp)]
        if len(dc) == 1 and ds[-1] is dc[0]:
            e = dc[0]
            break
        break
    st, why = INCONCLUSIVE, f"cannot tell whether `{norm(rets[0].value)[:70]}` contains only parents with candidates"
    if isinstance(e, ast.DictComp) and len(e.generators) == 1 and isinstance(e.generators[0].target, ast.Name):
        g = e.generators[0]
        k = g.target.id
        src = canon(g.iter).removesuffix(".keys()")
        lst = f"{src}[{k}].individuals"
        nonempty = [c for c in g.ifs if any(cond_is(c, w) for w in (lst, f"len({lst}) > 0", f"len({lst}) != 0", f"{lst} != []", f"len({lst}) >= 1"))]
        if nonempty and canon(e.value) == f"{src}[{k}]" and norm(e.key) == k:
            st = OK
        elif not g.ifs:
            # the keys may come from a pre-filtered collection of the parents that still have candidates
            srcs = defs.get(norm(g.iter), []) if isinstance(g.iter, ast.Name) else []
            if isinstance(g.iter, (ast.SetComp, ast.ListComp, ast.GeneratorExp)):
                srcs = [g.iter]
            elif isinstance(g.iter, ast.Call) and norm(g.iter.func) in ("sorted", "list", "tuple") and g.iter.args and isinstance(g.iter.args[0], (ast.SetComp, ast.ListComp, ast.GeneratorExp)):
                srcs = [g.iter.args[0]]
            prefiltered = any(isinstance(d, (ast.SetComp, ast.ListComp, ast.GeneratorExp)) and any(".individuals" in norm(c) for gg in d.generators for c in gg.ifs) for d in srcs)
            if prefiltered:
                st = OK
            elif canon(g.iter).removesuffix(".keys()") in defs or isinstance(g.iter, ast.Call):
                st, why = VIOLATION, "get_seeds returns parents whose candidates were all filtered out: such a deme counts as having sprouted and stays awake"
    elif isinstance(e, ast.Name) or (isinstance(e, ast.Call) and norm(e.func) == "dict" and len(e.args) == 1 and isinstance(e.args[0], ast.Name)):
        nm = e.id if isinstance(e, ast.Name) else e.args[0].id
        last = defs.get(nm, [])
        if last and isinstance(last[-1], ast.Call) and norm(last[-1].func).endswith(("apply_tree_filters", "apply_deme_filters", "candidates_generator")):
            st, why = VIOLATION, "get_seeds returns the filtered mapping as it is: parents whose candidates were all filtered out remain keys, count as having sprouted and never hibernate"
    return [ctx.ob("R18.7", gs, rets[0], status=st, detail="only parents with at least one remaining candidate are returned" if st == OK else why, construct="drop-empty")]


def r18_8(ctx: Ctx):
    """R18.8 with the option on, every sprouting round ends with the flag round: no path leaves run_sprout between _do_sprout and the loop that rewrites the flags."""
    f = ctx.prog.own_method("DemeTree", "run_sprout")
    cfg = ctx.cfg(f)
    do_sprout = ctx.prog.own_method("DemeTree", "_do_sprout")
    sprout_nodes = [n for n in cfg.nodes if n.ast is not None and calls_method(n.ast, ctx, f, do_sprout)]
    if not sprout_nodes:
        raise AnalysisError("run_sprout no longer calls _do_sprout")
    stores = [n for n in cfg.nodes if n.kind == "stmt" and isinstance(n.ast, ast.Assign) and any(isinstance(t, ast.Attribute) and t.attr == "_hibernating" for t in n.ast.targets)]
    loops = []
    for n in stores:
        L = cfg.loop_of(n)
        if L is not None and L["head"] not in loops:
            loops.append(L["head"])
    if not loops:
        return [ctx.ob("R18.8", f, f.node, status=INCONCLUSIVE, detail="no loop writing the hibernation flag", construct="flag-round")]
    opt_defs = {name for name, ds in local_defs(f).items() if ds and all(_mentions_option(d) for d in ds if not isinstance(d, ast.AugAssign))}
    bad = []

    # state: "PRE" (before sprouting) | "PENDING" (sprouted, flags not yet rewritten) | "DONE" | "OFF" (option known off)
    def node_fn(n, s):
        if n in sprout_nodes:
            return ["OFF" if s in ("OFF", "OFF-PRE") else "PENDING"]
        if n in loops and s == "PENDING":
            return ["DONE"]
        return [s]

    def edge_fn(n, lab, s):
        if n.kind == "cond" and lab in (True, False) and s == "PRE":
            # the option tested BEFORE the round sprouts (`if not hibernation: self._do_sprout(seeds); return`)
            e = n.ast
            if (_mentions_option(e) and _option_outcome(n, lab) is False) or (isinstance(e, ast.Name) and e.id in opt_defs and lab is False):
                return "OFF-PRE"
        if n.kind == "cond" and lab in (True, False) and s == "PENDING":
            e = n.ast
            if _mentions_option(e):
                o = _option_outcome(n, lab)
                if o is False:
                    return "OFF"
            elif isinstance(e, ast.Name) and e.id in opt_defs and lab is False:
                return "OFF"
        return s

    at, exits, parent = typestate(cfg, ["PRE"], node_fn, edge_fn)
    if "PENDING" in exits:
        return [ctx.ob("R18.8", f, f.node, status=VIOLATION, detail="a path leaves run_sprout after _do_sprout without rewriting the hibernation flags although the option is not known to be off: a deme the round sprouted from stays asleep (or an idle one stays awake)", witness=witness_path(cfg, parent, cfg.exit.id, "PENDING"), construct="flag-round")]
    return [ctx.ob("R18.8", f, f.node, detail="every path after _do_sprout rewrites the flags unless the option is off", construct="flag-round")]


def r18_9(ctx: Ctx):
    """R18.9 the `hibernation` option a tree reads is its own configuration's: the options dictionary of a TreeConfig is never
    written by pyhms while it can be the module-level default dictionary (an earlier configuration's `hibernation: True` would
    otherwise switch hibernation on for every later tree that leaves the key out)."""
    from .c02 import shared_module_state

    obs = shared_module_state(ctx, "R18.9", attrs=("options",))
    if not obs:
        obs.append(ctx.ob("R18.9", None, None, subject="config.TreeConfig", loc="-", detail="TreeConfig.options never aliases a module-level dictionary", construct="options-own"))
    return obs


def r18_11(ctx: Ctx):
    """R18.11 progress under hibernation: whenever some deme is active and the global stop condition is false, a metaepoch
    evaluates. In `DemeTree.run_metaepoch` every evaluating statement stands behind the hibernation skip; unless the method (or
    run_step) has a provision for the state "every active deme sleeps" - a fallback that steps or wakes a deme when nothing was
    stepped - that state, which only a sprout can leave and which the filters can make permanent, passes metaepochs with no
    evaluation."""
    f = ctx.prog.own_method("DemeTree", "run_metaepoch")
    cfg = ctx.cfg(f)
    step = ctx.prog.cls("AbstractDeme").methods["run_metaepoch"]
    step_nodes = [n for n in cfg.nodes if n.ast is not None and n.kind != "forhead" and calls_method(n.ast, ctx, f, step)]
    if not step_nodes:
        raise AnalysisError("DemeTree.run_metaepoch no longer steps demes")
    flag_conds = [n for n in cfg.nodes if n.kind == "cond" and n.ast is not None and _mentions_flag(n.ast)]
    obs = []
    if not flag_conds:
        obs.append(ctx.ob("R18.11", f, f.node, status=INCONCLUSIVE if any(isinstance(x, ast.Attribute) and x.attr == "_hibernating" for x in body_walk(f.node)) else OK, detail="run_metaepoch does not test the hibernation flag in a condition" , construct="progress"))
        return obs
    # a provision: a store to `_hibernating` / a second stepping site / a raise in run_metaepoch or run_step that is NOT the skip itself
    rs = ctx.prog.own_method("DemeTree", "run_step")
    wakes = [x for g in (f, rs) for x in body_walk(g.node) if isinstance(x, (ast.Assign, ast.AugAssign)) and any(isinstance(t, ast.Attribute) and t.attr == "_hibernating" for t in (x.targets if isinstance(x, ast.Assign) else [x.target]))]
    guarded_all = all(any(cfg.can_reach(c, n) for c in flag_conds) for n in step_nodes)
    unguarded = [n for n in step_nodes if not any(cfg.can_reach(c, n) for c in flag_conds)]
    if wakes or unguarded or len(step_nodes) > 1:
        obs.append(ctx.ob("R18.11", f, (wakes[0] if wakes else (unguarded or step_nodes)[0].stmt), status=INCONCLUSIVE, detail="run_metaepoch / run_step contain a further stepping site or a write of the hibernation flag: whether it covers the state in which every active deme sleeps is not followed", construct="progress"))
        return obs
    obs.append(ctx.ob("R18.11", f, flag_conds[0].stmt, status=VIOLATION if guarded_all else INCONCLUSIVE, detail="every evaluating statement of DemeTree.run_metaepoch stands behind the hibernation skip and nothing steps or wakes a deme when all active demes sleep: a tree whose only active demes hibernate (root asleep after a round that took no sprout from it, all children stopped, filters rejecting the same candidates again) passes metaepoch after metaepoch without a single evaluation while the global stop condition stays false - run() never returns under an evaluation-limit condition", construct="progress"))
    return obs


RULES = [
    ("R18.1", r18_1, 1),
    ("R18.2", r18_2, 2),
    ("R18.3", r18_3, 4),
    ("R18.4", r18_4, 1),
    ("R18.5", r18_5, 10),
    ("R18.6", r18_6, 2),
    ("R18.7", r18_7, 1),
    ("R18.8", r18_8, 1),
    ("R18.9", r18_9, 1),
    ("R18.10", r18_10, 1),
    ("R18.11", r18_11, 1),
]
