"""C06 — deme lifecycle: one metaepoch per step while active; stopping is final."""
from __future__ import annotations

import ast

from ..cfg import KILL, typestate, witness_path
from ..core import INCONCLUSIVE, OK, VIOLATION, Ctx, is_self_attr, local_defs
from ..model import AnalysisError, body_walk, norm
from . import c05
from .common import consult_verdict, active_store, calls_method, cond_consult, history_mutations, is_history_append, node_has_effect

EXPLANATION = """
Static decision of the lifecycle clause of C06: (R06.1) `_active` is stored True only in
AbstractDeme.__init__ and otherwise only as `self._active = False` by the deme itself; (R06.2)
DemeTree.run_metaepoch iterates the accessor that filters on is_active and steps each iterated deme
exactly once on every path except the hibernation skip; (R06.3) every CFG path of every concrete
run_metaepoch appends to the deme's history exactly once (callee summaries for helper methods) and
nothing but append ever touches it; (R06.4) path-sensitive typestate: each deactivation is reached only
with a true GSC verdict, a true LSC verdict obtained after the metaepoch's append, a true engine
self-stop predicate, or unconditionally (one-shot engine); a true GSC/LSC verdict always reaches a
deactivation; every non-one-shot engine consults its LSC on the path completing the metaepoch;
(R06.5) stepping precedes sprouting in run_step; (R06.6) objective evaluations inside deme classes are
reachable only from __init__ and run_metaepoch, and run_metaepoch is called only by
DemeTree.run_metaepoch; (R06.7) a deme's metaepoch counter is len(history) - 1.
"""
CLAIM = """Decides the lifecycle clause path-sensitively: `_active` True only at construction and False only by the deme itself; only active demes are stepped, once per iteration (hibernation skip excepted); exactly one history append per run_metaepoch path and nothing but append touches the history; each deactivation justified by a true GSC verdict / true LSC verdict after the append / true engine-stop predicate / one-shot engine, and such verdicts always deactivate; evaluations in deme classes reachable only from __init__/run_metaepoch; metaepoch counter = len(history) - 1. (R06.12) a deme evaluates only through its own counting wrapper; (R06.13) the stop conditions consulted are the configured objects, not copies; (R06.14) only the deme itself writes its history. (R06.15) no deme class keeps run state in class-body containers shared by its instances. A repeated GSC consult with nothing evaluated since a true verdict has no feasible false edge."""
NOTE = """Behaviour of user-defined LSCs is not analysed; cma's stop() is treated as the engine self-stop predicate."""
TECHNIQUE = "custom ast/CFG path-sensitive typestate + who-may-write / who-may-call checks"
ASSUMPTIONS = [
    "user-defined local stop conditions are pure predicates of the deme (not analysed)",
    "cma's stop() is the only engine self-stop predicate (attribute call `.stop()` on an external engine object)",
]


def _under_true_gsc(ctx, f, stmt) -> bool:
    """Is the statement nested in the true branch of `if <gsc consult>`?"""
    from ..core import parents_map
    from .common import stop_call_kind

    par = parents_map(f.node)
    cur = stmt
    while id(cur) in par:
        p = par[id(cur)]
        if isinstance(p, ast.If) and cur in p.body:
            t = p.test
            conj = t.values if isinstance(t, ast.BoolOp) and isinstance(t.op, ast.And) else [t]
            if any(isinstance(c, ast.Call) and stop_call_kind(ctx, f, c) == "gsc" for c in conj):
                return True
        cur = p
    return False


def r06_1(ctx: Ctx, monotone_only: bool = False):
    """R06.1 `_active`: True only in AbstractDeme.__init__; every other store is `self._active = False` inside a deme method."""
    base = ctx.prog.cls("AbstractDeme")
    obs = []
    for f in ctx.prog.all_functions():
        if f.name == "<module>":
            continue
        for n in body_walk(f.node):
            tg = []
            if isinstance(n, ast.Assign):
                tg = [(t, n.value) for t in n.targets]
            elif isinstance(n, ast.AnnAssign) and n.value is not None:
                tg = [(n.target, n.value)]
            elif isinstance(n, ast.AugAssign):
                tg = [(n.target, None)]
            elif isinstance(n, ast.Delete):
                tg = [(t, None) for t in n.targets]
            elif isinstance(n, ast.Call) and norm(n.func) in ("setattr", "object.__setattr__") and len(n.args) >= 2:
                a = n.args[1]
                if isinstance(a, ast.Constant) and a.value == "_active":
                    obs.append(ctx.ob("R06.1", f, n, status=VIOLATION, detail="`_active` written through setattr"))
                elif not isinstance(a, ast.Constant):
                    obs.append(ctx.ob("R06.1", f, n, status=INCONCLUSIVE, detail="setattr with a computed attribute name"))
                continue
            for t, v in tg:
                for sub in ast.walk(t):
                    if isinstance(sub, ast.Attribute) and sub.attr == "_active" and isinstance(sub.ctx, (ast.Store, ast.Del)):
                        in_deme = f.cls is not None and ctx.prog.is_subclass(f.cls, base) and f.parent is None
                        selfn = f.self_name()
                        by_self = is_self_attr(sub, "_active", selfn or "self") and in_deme
                        val = v.value if isinstance(v, ast.Constant) else "?"
                        if f.cls is base and f.name == "__init__" and by_self and val is True:
                            obs.append(ctx.ob("R06.1", f, n, detail="constructed active"))
                        elif by_self and val is False and f.name != "__init__":
                            obs.append(ctx.ob("R06.1", f, n, detail="deme deactivates itself"))
                        elif by_self and val is False and f.name == "__init__":
                            obs.append(ctx.ob("R06.1", f, n, status=OK if monotone_only else VIOLATION, detail="a deme is constructed inactive"))
                        elif val is False and monotone_only:
                            obs.append(ctx.ob("R06.1", f, n, detail=f"{f.short} deactivates a deme (activity only ever decreases)"))
                        elif val is False and _under_true_gsc(ctx, f, n):
                            obs.append(ctx.ob("R06.1", f, n, detail=f"{f.short} deactivates a deme because the global stop condition holds"))
                        elif val == "?":
                            obs.append(ctx.ob("R06.1", f, n, status=INCONCLUSIVE, detail=f"`_active` stored from `{norm(v) if v is not None else '<aug/del>'}` by {f.short}"))
                        else:
                            obs.append(ctx.ob("R06.1", f, n, status=VIOLATION, detail=f"`_active` stored as {norm(v) if v is not None else '<aug/del>'} by {f.short} (only AbstractDeme.__init__ may store True; only the deme itself may store False)"))
    return obs


def _iter_source_attr(e: ast.AST):
    """Strip reversed()/list()/sorted()/tuple()/enumerate()? wrappers; return the core expression."""
    while True:
        if isinstance(e, ast.Call) and isinstance(e.func, ast.Name) and e.func.id in ("reversed", "list", "tuple", "sorted", "iter") and e.args:
            e = e.args[0]
        elif isinstance(e, ast.Subscript) and isinstance(e.slice, ast.Slice) and e.slice.lower is None and e.slice.upper is None:
            e = e.value  # x[::-1] / x[:] : the same elements
        else:
            return e


def r06_2(ctx: Ctx):
    """R06.2 DemeTree.run_metaepoch steps exactly the active demes, each exactly once per iteration (hibernation skip excepted)."""
    f = ctx.prog.own_method("DemeTree", "run_metaepoch")
    selfn = f.self_name()
    cfg = ctx.cfg(f)
    deme_base = ctx.prog.cls("AbstractDeme")
    step = deme_base.methods.get("run_metaepoch")
    if step is None:
        raise AnalysisError("AbstractDeme.run_metaepoch vanished")
    obs = []
    loops = [L for L in cfg.loop_info if isinstance(L["stmt"], (ast.For,))]
    step_nodes = [n for n in cfg.nodes if n.ast is not None and calls_method(n.ast, ctx, f, step)]
    if not step_nodes:
        raise AnalysisError("DemeTree.run_metaepoch no longer steps demes")
    for n in step_nodes:
        L = cfg.loop_of(n)
        if L is None or not isinstance(L["stmt"], ast.For):
            obs.append(ctx.ob("R06.2", f, n.stmt, status=INCONCLUSIVE, detail="deme stepped outside a for loop", construct=n.label))
            continue
        loop = L["stmt"]
        src = _iter_source_attr(loop.iter)
        # provenance of the iterated collection
        src_ok = is_self_attr(src, "active_demes", selfn)
        if isinstance(src, ast.Name):

            defs = local_defs(f).get(src.id, [])
            src_ok = bool(defs) and all(is_self_attr(_iter_source_attr(d), "active_demes", selfn) for d in defs)
        opaque = isinstance(src, ast.Call) and isinstance(src.func, ast.Attribute) and isinstance(src.func.value, ast.Name) and src.func.value.id == selfn
        if not src_ok and not opaque:
            # the loop may walk the level lists itself: read the loop nest as a deme listing
            from .common import iteration_source

            isrc = iteration_source(ctx, "DemeTree", f, loop)
            if isrc["levels"] == 0 and "is_active" in isrc["filters"] and "not is_active" not in isrc["filters"] and not any(x.startswith("?") for x in isrc["filters"]):
                src_ok = True
            elif isrc["levels"] is None or any(x.startswith("?") for x in isrc["filters"]):
                opaque = True
        if not src_ok:
            obs.append(ctx.ob("R06.2", f, loop, status=INCONCLUSIVE if opaque else VIOLATION, detail=f"the stepping loop iterates `{norm(loop.iter)}`, not the active_demes accessor", construct=norm(loop.iter)))
        else:
            obs.append(ctx.ob("R06.2", f, loop, detail="stepping loop iterates active_demes", construct=norm(loop.iter)))
        # receiver is the loop variable, argument is the tree
        tnames = {x.id for x in ast.walk(loop.target) if isinstance(x, ast.Name)}
        for c in ast.walk(n.ast):
            if isinstance(c, ast.Call) and isinstance(c.func, ast.Attribute) and c.func.attr == "run_metaepoch":
                recv_ok = isinstance(c.func.value, ast.Name) and c.func.value.id in tnames
                arg_ok = len(c.args) == 1 and isinstance(c.args[0], ast.Name) and c.args[0].id == selfn
                # positive evidence of a wrong step: another tree / no tree handed over, or a receiver that is a fixed deme
                # (root, a constant index); a receiver reached through the loop variable (an index into a list, a local bound
                # from it) is outside the form read here
                recv_names = {x.id for x in ast.walk(c.func.value) if isinstance(x, ast.Name)}
                fdefs_ = local_defs(f)
                via_loop = bool(recv_names & tnames) or any(any(isinstance(y, ast.Name) and y.id in tnames for d_ in fdefs_.get(nm_, []) for y in ast.walk(d_)) for nm_ in recv_names)
                st_step = OK if (recv_ok and arg_ok) else INCONCLUSIVE if (arg_ok and via_loop) else VIOLATION
                obs.append(ctx.ob("R06.2", f, c, status=st_step, detail="steps the iterated deme with the tree" if (recv_ok and arg_ok) else "step call does not have the form <loop deme>.run_metaepoch(<tree>)"))
    # once per iteration
    viol = []

    step_heads = {cfg.loop_of(n)["head"].id for n in step_nodes if cfg.loop_of(n) is not None}

    def node_fn(n, s):
        if n.kind == "forhead" and n.id not in step_heads:
            return [s]  # an enclosing loop (over the levels): iterations are those of the innermost, stepping loop
        if n.kind == "forhead":
            if s != "OUT":
                cnt, hib = s
                if cnt == 0 and not hib:
                    viol.append((n, s, "an iteration can finish without stepping the deme although it is not a hibernation skip"))
                if cnt >= 2:
                    viol.append((n, s, "a deme can be stepped twice in one iteration"))
            return ["OUT"]
        if s == "OUT":
            return [s]
        if n in step_nodes:
            return [(min(2, s[0] + 1), s[1])]
        return [s]

    def edge_fn(n, lab, s):
        if n.kind == "forhead" and n.id not in step_heads:
            return s
        if n.kind == "forhead":
            return (0, False) if lab == "iter" else "OUT"
        if s != "OUT" and n.kind == "cond" and "_hibernating" in n.label and lab is True:
            return (s[0], True)
        if s != "OUT" and n.kind == "cond" and lab is False and isinstance(n.ast, ast.Attribute) and n.ast.attr in ("is_active", "_active"):
            return "OUT"  # an inactive deme filtered out by the loop itself: not an iteration over an active deme
        return s

    at, exits, parent = typestate(cfg, ["OUT"], node_fn, edge_fn)
    from .common import opaque_deme_calls

    oc = opaque_deme_calls(ctx, f, f.node, "_hibernating")
    for n, s, msg in viol:
        skip_msg = msg.startswith("an iteration can finish without stepping")
        obs.append(ctx.ob("R06.2", f, n.stmt, status=INCONCLUSIVE if (oc and skip_msg) else VIOLATION, detail=msg if not (oc and skip_msg) else f"an iteration can skip its deme under `{norm(oc[0])[:60]}`: whether that is the hibernation skip is decided inside that method", witness=witness_path(cfg, parent, n.id, s), construct="iteration-paths"))
    if not viol:
        obs.append(ctx.ob("R06.2", f, f.node, detail="every iteration steps its deme exactly once or is a hibernation skip", construct="iteration-paths"))
    # the accessor filters on is_active
    acc = ctx.prog.own_method("DemeTree", "active_demes")
    from .common import deme_listing

    dl = deme_listing(ctx, "DemeTree", "active_demes")
    if dl["levels"] is None or any(x.startswith("?") for x in dl["filters"]):
        st_acc, why_acc = INCONCLUSIVE, f"cannot tell which demes active_demes keeps ({dl['why'] or sorted(dl['filters'])})"
    elif "is_active" not in dl["filters"]:
        st_acc, why_acc = VIOLATION, "active_demes does not filter on is_active"
    elif "not is_active" in dl["filters"]:
        st_acc, why_acc = VIOLATION, "active_demes keeps the inactive demes"
    elif dl["levels"] < 0:
        st_acc, why_acc = VIOLATION, f"active_demes leaves out the last {-dl['levels']} level(s): active leaves are never stepped"
    else:
        st_acc, why_acc = OK, ""
    isact = deme_base.methods.get("is_active")
    ok2 = isact is not None and any(isinstance(r, ast.Return) and is_self_attr(r.value, "_active", isact.self_name()) for r in body_walk(isact.node))
    obs.append(ctx.ob("R06.2", acc, acc.node, status=st_acc, detail="active_demes keeps exactly the demes with is_active" if st_acc == OK else why_acc, construct="active_demes-filter"))
    obs.append(ctx.ob("R06.2", isact or acc, (isact or acc).node, status=OK if ok2 else VIOLATION, detail="is_active returns _active" if ok2 else "is_active is not `return self._active`", construct="is_active"))
    return obs


def append_summary(ctx: Ctx, f, _stack=()):
    """Set of possible numbers (saturating at 2) of self._history appends over the normal paths of f."""
    if f.qualname in _stack:
        return {0}
    cfg = ctx.cfg(f)
    selfn = f.self_name()
    callee_cache = {}

    def callees_of(n):
        out = []
        if n.ast is None or f.cls is None:
            return out
        inside = {id(x) for x in ast.walk(n.ast)}
        for cs in ctx.res.callsites(f):
            if id(cs.node) in inside and cs.kind == "call" and isinstance(cs.node, ast.Call):
                fn = cs.node.func
                if isinstance(fn, ast.Attribute) and isinstance(fn.value, ast.Name) and fn.value.id == selfn:
                    m = ctx.prog.lookup_method(f.cls, fn.attr)
                    if m is not None:
                        out.append(m)
        return out

    def node_fn(n, s):
        outs = {s}
        if n.kind == "stmt" and is_history_append(n.ast, selfn):
            outs = {min(2, s + 1)}
        for m in callees_of(n):
            if m.qualname not in callee_cache:
                callee_cache[m.qualname] = append_summary(ctx, m, _stack + (f.qualname,))
            outs = {min(2, a + b) for a in outs for b in callee_cache[m.qualname]}
        return outs

    at, exits, parent = typestate(cfg, [0], node_fn)
    res = exits.normal()
    return res or {0}


def r06_3(ctx: Ctx):
    """R06.3 every path of every concrete run_metaepoch appends to the history exactly once; only `.append` ever touches `_history`."""
    obs = []
    for ci in ctx.concrete_demes():
        f = __import__("hmslint.rules.common", fromlist=["step_method"]).step_method(ctx, ci)
        counts = append_summary(ctx, f)
        ok = counts == {1}
        obs.append(ctx.ob("R06.3", f, f.node, status=OK if ok else VIOLATION, detail="exactly one history append on every path" if ok else f"paths through run_metaepoch append to the history {sorted(counts)} times (2 = two or more)", construct=f"{ci.name}.run_metaepoch appends"))
        init = ctx.prog.lookup_method(ci, "__init__")
        if init is not None and init.cls is not ctx.prog.cls("AbstractDeme"):
            c0 = append_summary(ctx, init)
            ok = c0 == {1}
            obs.append(ctx.ob("R06.3", init, init.node, status=OK if ok else VIOLATION, detail="constructor records exactly the initial population" if ok else f"constructor appends to the history {sorted(c0)} times", construct=f"{ci.name}.__init__ appends"))
    base = ctx.prog.cls("AbstractDeme")
    for ci in [base] + ctx.prog.subclasses(base):
        for f in ctx.prog.functions_in(ci):
            selfn = f.self_name() if f.parent is None else f.parent.self_name()
            for n in body_walk(f.node):
                if isinstance(n, ast.stmt):
                    for m in history_mutations(n, selfn or "self"):
                        if f.cls is base and f.name == "__init__" and isinstance(n, (ast.Assign, ast.AnnAssign)) and isinstance(n.value, ast.List) and not n.value.elts:
                            continue
                        obs.append(ctx.ob("R06.3", f, n, status=VIOLATION, detail=f"history changed other than by append: {m}"))
    return obs


def _engine_stop_cond(ctx, f, n):
    if n.kind != "cond" or n.ast is None:
        return False
    e = n.ast.value if isinstance(n.ast, ast.NamedExpr) else n.ast
    if isinstance(e, ast.Call) and isinstance(e.func, ast.Attribute) and e.func.attr == "stop" and not e.args:
        t = ctx.res.type_of(e.func.value, f)
        return t is not None and t[0] == "ext"
    return False


def r06_4(ctx: Ctx):
    """R06.4 deactivation is reached only on GSC-true / LSC-true-after-append / engine-stop / one-shot, and such verdicts always deactivate."""
    obs = []
    for ci in ctx.concrete_demes():
        f = __import__("hmslint.rules.common", fromlist=["step_method"]).step_method(ctx, ci)
        cfg = ctx.cfg(f)
        selfn = f.self_name()
        stores = [n for n in cfg.nodes if n.kind == "stmt" and active_store(n.ast, selfn) is not None]
        # one-shot: every normal path deactivates
        appends_of = {}

        def n_appends(n):
            if n.id not in appends_of:
                c = 0
                if n.kind == "stmt" and is_history_append(n.ast, selfn):
                    c = 1
                elif n.ast is not None and f.cls is not None:
                    inside = {id(x) for x in ast.walk(n.ast)}
                    for cs in ctx.res.callsites(f):
                        if id(cs.node) in inside and isinstance(cs.node, ast.Call) and isinstance(cs.node.func, ast.Attribute) and isinstance(cs.node.func.value, ast.Name) and cs.node.func.value.id == selfn:
                            m = ctx.prog.lookup_method(f.cls, cs.node.func.attr)
                            if m is not None and m.name != "log":
                                c = max(c, max(append_summary(ctx, m)))
                appends_of[n.id] = c
            return appends_of[n.id]

        viol = []
        unknown = []
        # state: (gsc_true, lsc, stop_true, appended, deact)   lsc in {None: not consulted, True, False}
        def node_fn(n, s):
            g, l, st, ap, de = s
            ap = min(2, ap + n_appends(n))
            if n in stores:
                v = active_store(n.ast, selfn)
                if isinstance(v, ast.Constant) and v.value is False:
                    if not (g or l is True or st):
                        viol.append((n, s, "deactivation reachable without a true GSC verdict, a true LSC verdict or a true engine-stop predicate"))
                    de = True
            return [(g, l, st, ap, de)]

        def edge_fn(n, lab, s):
            g, l, st, ap, de = s
            vg = consult_verdict(ctx, f, n, "gsc", lab)
            vl = consult_verdict(ctx, f, n, "lsc", lab)
            if vg == "?" or vl == "?":
                unknown.append(n)
                return s
            if lab in (True, False):
                if vg is not None:
                    if g is True and vg is False and isinstance(n.ast, ast.Name):
                        return KILL  # the name holds the verdict observed true on this path: infeasible
                    g = vg
                if vl is not None:
                    verdict = vl
                    if ap == 0 and verdict:
                        viol.append((n, s, "LSC consulted before the metaepoch's generations were recorded"))
                    l = verdict
                if _engine_stop_cond(ctx, f, n):
                    st = bool(lab)
            return (g, l, st, ap, de)

        at, exits, parent = typestate(cfg, [(False, None, False, 0, False)], node_fn, edge_fn)
        if unknown:
            n = unknown[0]
            obs.append(ctx.ob("R06.4", f, n.stmt, status=INCONCLUSIVE, detail="stop condition consulted inside a compound expression", construct=n.label))
            continue
        normal = exits.normal()
        from .common import opaque_step_helpers

        if opaque_step_helpers(ctx, f) and (viol or any(((s_[0] or s_[1] is True) and not s_[4]) or (not s_[0] and not s_[2] and s_[1] is None and not s_[4]) for s_ in normal)):
            c0 = opaque_step_helpers(ctx, f)[0]
            obs.append(ctx.ob("R06.4", f, c0, status=INCONCLUSIVE, detail=f"{ci.name}: part of the metaepoch (evaluations, stop-condition consults) runs inside `{norm(c0.func)}`, which this rule does not follow", construct="opaque-helper"))
            continue
        one_shot = bool(normal) and all(s[4] for s in normal) and all(not (s[0] or s[1] is True or s[2]) or True for s in normal) and not any(cond_consult(ctx, f, n, "gsc") or cond_consult(ctx, f, n, "lsc") for n in cfg.nodes)
        seen = set()
        if one_shot:
            viol = [v for v in viol if not v[2].startswith("deactivation reachable")]
        for n, s, msg in viol:
            if (n.id, msg) in seen:
                continue
            seen.add((n.id, msg))
            obs.append(ctx.ob("R06.4", f, n.stmt, status=VIOLATION, detail=msg, witness=witness_path(cfg, parent, n.id, s), construct=n.label))
        for s in sorted(normal, key=repr):
            g, l, st, ap, de = s
            if (g or l is True) and not de:
                obs.append(ctx.ob("R06.4", f, f.node, status=VIOLATION, detail=f"a path with a true {'GSC' if g else 'LSC'} verdict leaves run_metaepoch without deactivating the deme", witness=witness_path(cfg, parent, cfg.exit.id, s) or [repr(s)], construct=f"exit:{'gsc' if g else 'lsc'}-true-active"))
            if not one_shot and not g and not st and l is None and not de:
                obs.append(ctx.ob("R06.4", f, f.node, status=VIOLATION, detail="a path completes the metaepoch without consulting the local stop condition", witness=witness_path(cfg, parent, cfg.exit.id, s) or [repr(s)], construct="exit:lsc-not-consulted"))
        if not any(o.subject.endswith(ci.name + ".run_metaepoch") and o.status != OK and o.rule == "R06.4" for o in obs):
            obs.append(ctx.ob("R06.4", f, f.node, detail=("one-shot engine: every path deactivates" if one_shot else f"{len(stores)} deactivation site(s), each justified by a true verdict; true verdicts always deactivate; LSC consulted after the append"), construct=f"{ci.name} lifecycle"))
    return obs


def r06_5(ctx: Ctx):
    """R06.5 in run_step the metaepoch precedes sprouting and is not run again after it (shared automaton with R05.3)."""
    out = []
    for o in c05.r05_3(ctx, need_gsc=False):
        o.rule = "R06.5"
        out.append(o)
    return out


def r06_6(ctx: Ctx):
    """R06.6 evaluations inside deme classes are reachable only from __init__/run_metaepoch; run_metaepoch is called only by DemeTree.run_metaepoch."""
    obs = []
    base = ctx.prog.cls("AbstractDeme")
    tree_rm = ctx.prog.own_method("DemeTree", "run_metaepoch")
    demes = [base] + ctx.prog.subclasses(base)
    deme_q = {c.qualname for c in demes}
    entry_ok = {"__init__", "run_metaepoch"}
    for ci in demes:
        for name, m in ci.methods.items():
            if not ctx.eff.has(m, "EVAL"):
                continue
            if name in entry_ok:
                obs.append(ctx.ob("R06.6", m, m.node, detail="evaluating entry point", construct=m.short))
                continue
            # helper: all callers must be evaluating entry points (or helpers) of deme classes
            bad = []
            work = [m]
            seen = set()
            while work:
                cur = work.pop()
                if cur.qualname in seen:
                    continue
                seen.add(cur.qualname)
                for cs in ctx.res.callers_of(cur):
                    c = cs.caller
                    if c.cls is not None and c.cls.qualname in deme_q and c.parent is None:
                        if c.name in entry_ok:
                            continue
                        if c.is_property:
                            bad.append(cs)
                        else:
                            work.append(c)
                    else:
                        bad.append(cs)
            if m.is_property:
                obs.append(ctx.ob("R06.6", m, m.node, status=VIOLATION, detail="a deme accessor evaluates the objective: " + "; ".join(ctx.eff.chain(m, next(e for e in ctx.eff.of(m) if e[0] == "EVAL"))[:4]), construct=m.short))
            elif bad:
                cs = bad[0]
                obs.append(ctx.ob("R06.6", m, cs.node, status=VIOLATION, detail=f"evaluating deme method {m.short} is called from {cs.caller.short} (outside __init__/run_metaepoch)", construct=f"{m.short}<-{cs.caller.short}"))
            else:
                obs.append(ctx.ob("R06.6", m, m.node, detail="evaluating helper reached only from __init__/run_metaepoch", construct=m.short))
    # run_metaepoch of demes: callers
    targets = [c.methods["run_metaepoch"] for c in demes if "run_metaepoch" in c.methods]
    n_sites = 0
    for t in targets:
        for cs in ctx.res.callers_of(t):
            n_sites += 1
            if cs.caller.qualname != tree_rm.qualname:
                obs.append(ctx.ob("R06.6", cs.caller, cs.node, status=VIOLATION, detail=f"{t.short} is called from {cs.caller.short}; only DemeTree.run_metaepoch may step a deme", construct=f"{t.short}<-{cs.caller.short}"))
    if n_sites == 0:
        raise AnalysisError("no call site of deme.run_metaepoch resolved")
    obs.append(ctx.ob("R06.6", tree_rm, tree_rm.node, detail=f"{n_sites} resolved (site, target) pairs stepping demes, all in DemeTree.run_metaepoch", construct="step-sites"))
    return obs


def r06_7(ctx: Ctx):
    """R06.7 a deme's metaepoch counter is len(_history) - 1."""
    m = ctx.prog.own_method("AbstractDeme", "metaepoch_count")
    rets = [n for n in body_walk(m.node) if isinstance(n, ast.Return)]
    ok = len(rets) == 1 and norm(rets[0].value).replace(" ", "") in ("len(self._history)-1", "len(self._history)-1")
    obs = [ctx.ob("R06.7", m, m.node, status=OK if ok else VIOLATION, detail="metaepoch_count == len(_history) - 1" if ok else f"metaepoch_count is `{norm(rets[0].value) if rets else '?'}`", construct="metaepoch_count")]
    for ci in ctx.prog.subclasses(ctx.prog.cls("AbstractDeme")):
        if "metaepoch_count" in ci.methods:
            obs.append(ctx.ob("R06.7", ci.methods["metaepoch_count"], None, status=VIOLATION, detail="a deme class overrides metaepoch_count", construct="override"))
    return obs


def r06_8(ctx: Ctx):
    """R06.8 engines with a self-stop predicate (cma's stop()) consult it, freshly, after every generation and stop on it."""
    obs = []
    found = 0
    for ci in ctx.concrete_demes():
        f = __import__("hmslint.rules.common", fromlist=["step_method"]).step_method(ctx, ci)
        selfn = f.self_name()
        # engine attribute with an external strategy object that has ask/tell
        tells = [c for c in body_walk(f.node) if isinstance(c, ast.Call) and isinstance(c.func, ast.Attribute) and c.func.attr == "tell" and is_self_attr(c.func.value, None, selfn)]
        if not tells:
            continue
        eng = tells[0].func.value.attr
        t = ctx.res.type_of(tells[0].func.value, f)
        if t is None or t[0] != "ext":
            continue
        found += 1
        cfg = ctx.cfg(f)
        eval_nodes = [n for n in cfg.nodes if node_has_effect(ctx, f, n, "EVAL")]
        viol = []
        bad_calls = []

        def is_stop_cond(n):
            if n.kind != "cond" or n.ast is None:
                return None
            e = n.ast.value if isinstance(n.ast, ast.NamedExpr) else n.ast
            if isinstance(e, ast.Call) and isinstance(e.func, ast.Attribute) and e.func.attr == "stop" and is_self_attr(e.func.value, eng, selfn):
                if e.args or e.keywords:
                    bad_calls.append(n)
                    return None
                return True
            return None

        def node_fn(n, s):
            dirty, deact = s
            if n in eval_nodes:
                dirty = True
            if n.ast is not None and any(c in tells for c in ast.walk(n.ast)) and dirty:
                viol.append((n, s, "the next generation is told/sampled although the engine's stop() was not consulted after the previous one"))
            if n.kind == "stmt":
                v = active_store(n.ast, selfn)
                if v is not None and isinstance(v, ast.Constant) and v.value is False:
                    deact = True
            return [(dirty, deact)]

        def edge_fn(n, lab, s):
            if is_stop_cond(n) and lab in (True, False):
                if lab is True:
                    return ("STOP", s[1])
                return (False, s[1])
            return s

        at, exits, parent = typestate(cfg, [(False, False)], node_fn, edge_fn)
        # the predicate is handed on as a bound method (`(self._cma_es.stop, "...")` in a table of checks) or called inside a
        # lambda: when it is consulted is decided elsewhere
        called = {id(c.func) for c in body_walk(f.node) if isinstance(c, ast.Call)}
        in_lambda = {id(x) for l_ in body_walk(f.node) if isinstance(l_, ast.Lambda) for x in ast.walk(l_)}
        handed = [x for x in body_walk(f.node) if isinstance(x, ast.Attribute) and x.attr == "stop" and is_self_attr(x.value, eng, selfn) and (id(x) not in called or id(x) in in_lambda)]
        if handed and (viol or bad_calls or any((s[0] is True or s[0] == "STOP") and not s[1] for s in exits)):
            obs.append(ctx.ob("R06.8", f, handed[0], status=INCONCLUSIVE, detail=f"{ci.name}: the engine's stop predicate is handed on as a callable (`{norm(handed[0])}`): where it is consulted is not followed", construct="stop-handed-on"))
            continue
        for n in bad_calls[:1]:
            obs.append(ctx.ob("R06.8", f, n.stmt, status=VIOLATION, detail=f"{ci.name}: `{n.label}` passes arguments to the engine's stop(): the termination criteria are not re-evaluated (a cached verdict is read)", construct="stop-args"))
        for n, s, msg in viol[:1]:
            obs.append(ctx.ob("R06.8", f, n.stmt, status=VIOLATION, detail=f"{ci.name}: {msg}", witness=witness_path(cfg, parent, n.id, s), construct="stop-per-generation"))
        for s in exits:
            if s[0] is True and not s[1]:
                obs.append(ctx.ob("R06.8", f, f.node, status=VIOLATION, detail=f"{ci.name}: a path leaves run_metaepoch after a generation without consulting the engine's own stop(): a terminated engine keeps its deme active", witness=witness_path(cfg, parent, cfg.exit.id, s), construct="stop-at-exit"))
            if s[0] == "STOP" and not s[1]:
                obs.append(ctx.ob("R06.8", f, f.node, status=VIOLATION, detail=f"{ci.name}: the engine reported stop() but the deme stays active", witness=witness_path(cfg, parent, cfg.exit.id, s), construct="stop-ignored"))
        if not any(o.rule == "R06.8" and o.subject.endswith(ci.name + ".run_metaepoch") and o.status != OK for o in obs):
            obs.append(ctx.ob("R06.8", f, f.node, detail=f"{ci.name}: self.{eng}.stop() consulted after every generation and before leaving; a true verdict deactivates", construct=f"{ci.name}:engine-stop"))
    if found == 0:
        raise AnalysisError("no deme with an ask/tell engine found (CMADeme confirmed by hand)")
    return obs


def r06_9(ctx: Ctx):
    """R06.9 every engine observes the GSC after each of its generations (shared engine typestate of R05.4): a deme that never looks stays active when the run stops."""
    out = []
    for o in c05.r05_4(ctx, between_generations=False, exit_dirty=True):
        if "evaluated after the GSC was observed true" in o.detail:
            continue  # C05's wind-down bound; the lifecycle only needs the deme to observe the GSC before it returns
        o.rule = "R06.9"
        out.append(o)
    return out


def r06_10(ctx: Ctx):
    """R06.10 evaluations are reachable only through deme constructors and DemeTree.run_metaepoch: sprouting / stop-condition / reporting code is evaluation-free."""
    from .common import who_may_evaluate

    return who_may_evaluate(ctx, "R06.10")


def r06_11(ctx: Ctx):
    """R06.11 a freshly sprouted deme runs in the following metaepoch: the sprouting round never puts a deme it has just created to sleep (shared with R18.4)."""
    from . import c18

    out = []
    for o in c18.r18_4(ctx):
        o.rule = "R06.11"
        out.append(o)
    return out


def r06_14(ctx: Ctx):
    """R06.14 only the deme itself writes its history: once inactive (or while asleep) nothing else can change it."""
    from .common import foreign_history_writes

    return foreign_history_writes(ctx, "R06.14", "a deme's history changes without the deme having run a metaepoch (also when it is inactive or asleep)", own_step_edits=False)


def r06_15(ctx: Ctx):
    """R06.15 what a deme records is its own: no container defined in a deme class body (one object for all instances) is written
    through `self` and recorded (R02.11) - otherwise a later deme's search extends the history of demes that have stopped."""
    from . import c02

    out = []
    for o in c02.r02_11(ctx):
        if o.status != OK and not any(k in (o.subject or "") for k in ("demes.", "Deme")):
            continue
        o.rule = "R06.15"
        out.append(o)
    return out


def r06_12(ctx: Ctx):
    """R06.12 a deme evaluates only through its own counting wrapper: no population it evaluates or breeds from contains another
    deme's Individual object (R03.11) - otherwise the evaluations of a running child go through the wrapper of its parent, i.e.
    a parent that has stopped (or sleeps) keeps evaluating the objective."""
    from . import c03

    out = []
    for o in c03.r03_11(ctx):
        o.rule = "R06.12"
        out.append(o)
    return out


def r06_13(ctx: Ctx):
    """R06.13 the stop conditions a deme / the tree consults are the configured objects themselves: `_lsc` is the level
    configuration's `lsc` and `_gsc` the tree configuration's `gsc`, not a copy (a copy made at construction time no longer
    sees what the configured condition refers to, so the deme stays active although ITS condition holds)."""
    obs = []
    for cname, attr, src in (("AbstractDeme", "_lsc", "lsc"), ("DemeTree", "_gsc", "gsc")):
        init = ctx.prog.own_method(cname, "__init__")
        sn = init.self_name()
        defs = local_defs(init)
        st = [n for n in body_walk(init.node) if isinstance(n, (ast.Assign, ast.AnnAssign)) and getattr(n, "value", None) is not None and any(is_self_attr(t, attr, sn) for t in (n.targets if isinstance(n, ast.Assign) else [n.target]))]
        if len(st) != 1:
            obs.append(ctx.ob("R06.13", init, init.node, status=INCONCLUSIVE, detail=f"{cname}.__init__ stores `{attr}` {len(st)} times", construct=f"{cname}.{attr}"))
            continue
        v = st[0].value
        hops = 0
        while isinstance(v, ast.Name) and len(defs.get(v.id, [])) == 1 and hops < 3:
            v = defs[v.id][0]
            hops += 1
        t = norm(v)
        if isinstance(v, ast.Attribute) and v.attr == src:
            obs.append(ctx.ob("R06.13", init, st[0], detail=f"{cname}.{attr} is the configured `{src}` object", construct=f"{cname}.{attr}"))
        elif isinstance(v, ast.Call) and norm(v.func).split(".")[-1] in ("deepcopy", "copy", "clone", "__class__") and v.args and isinstance(v.args[0], ast.Attribute) and v.args[0].attr == src:
            obs.append(ctx.ob("R06.13", init, st[0], status=VIOLATION, detail=f"{cname}.{attr} is `{t[:70]}`, a copy of the configured stop condition taken at construction time: whatever the configured condition refers to outside the deme (a shared budget, a flag toggled by the user) is frozen in the copy, so the condition the user configured can hold while the deme stays active", construct=f"{cname}.{attr}"))
        else:
            obs.append(ctx.ob("R06.13", init, st[0], status=INCONCLUSIVE, detail=f"{cname}.{attr} is `{t[:70]}`: not recognisably the configured `{src}`", construct=f"{cname}.{attr}"))
    return obs


RULES = [
    ("R06.1", r06_1, 10),
    ("R06.2", r06_2, 5),
    ("R06.3", r06_3, 13),
    ("R06.4", r06_4, 7),
    ("R06.5", r06_5, 1),
    ("R06.6", r06_6, 10),
    ("R06.7", r06_7, 1),
    ("R06.8", r06_8, 1),
    ("R06.9", r06_9, 7),
    ("R06.10", r06_10, 1),
    ("R06.11", r06_11, 1),
    ("R06.12", r06_12, 3),
    ("R06.13", r06_13, 2),
    ("R06.14", r06_14, 1),
    ("R06.15", r06_15, 1),
]
