"""C10 — sprout candidates come from the right populations; filters keep the best."""
from __future__ import annotations

import ast

from ..core import INCONCLUSIVE, OK, VIOLATION, Ctx, canon, is_self_attr, local_defs
from ..model import AnalysisError, body_walk, norm
from . import c07, c08, c13

CLAIM = """Decides the structural clauses: (R10.1) generators key their candidates by exactly the is_active demes of the non-leaf
levels and take them from the keyed deme's current population / current best (the local-method generator's tabled extra);
(R10.2) every filter only removes: each store to a parent's candidate list is a filtering comprehension over, or a slice of a
sort of, that same list, nothing appends candidates or adds parents; (R10.3) DemeLimit keeps the first `limit` elements of the
best-first order (direction-aware), i.e. exactly min(limit, available) and never a worse one in place of a better one;
(R10.4) LevelLimit orders and compares with the direction-aware Individual order (no raw fitness), and by the counting argument
of C08.O4 keeps exactly the candidates strictly better than the (limit - active)-th: the free slots when fitness values are
distinct; (R10.5) filter chains are applied in list order, tree-level after deme-level, and only parents left with candidates
are returned; (R10.6) SkipSameSprout keeps a candidate iff no existing seed row matches it in every coordinate (np.isclose),
where the seed rows are the seeds of all children of the parent's level."""
NOTE = """The numeric verdicts of np.isclose are not evaluated. User-written filters outside pyhms are not analysed."""
TECHNIQUE = "subset-provenance (filters only shrink) and order/cardinality shape analysis over the filter classes' ASTs; shared polarity rules with C13"
EXPLANATION = """
R10.2 is a dataflow rule over every class derived from the two filter base classes (>= 6): the value stored into
`candidates[d].individuals` must be reachable from the previous value of the same list only through filtering
comprehensions, sorting and prefix slicing. R10.3/R10.4 reuse the ordering rules of C13 (best-first = sorted(reverse=True) under
the Individual order) and the cardinality argument of C08.O4. R10.6 matches the keep-predicate of SkipSameSprout.
"""
ASSUMPTIONS = ["list comprehensions with a condition return a sub-list; sorted() permutes; a prefix slice is a sub-list"]


def _filter_classes(ctx: Ctx):
    out = []
    for b in ("DemeLevelCandidatesFilter", "TreeLevelCandidatesFilter"):
        base = ctx.prog.cls(b)
        out.extend(c for c in ctx.prog.subclasses(base))
    if len(out) < 6:
        raise AnalysisError(f"only {len(out)} filter classes found (6 confirmed by hand)")
    return out


def r10_1(ctx: Ctx):
    """R10.1 generators: keys are exactly the active non-leaf demes; candidates come from the keyed deme's current population."""
    obs = []
    for o in c07.r07_6(ctx) + c07.r07_7(ctx):
        if "Generator" in o.subject or "BestPerDeme" in o.subject or "NearestBetterClustering" in o.subject:
            o.rule = "R10.1"
            obs.append(o)
    # exactness of the activity guard in the NBC generators
    for cname in ("NBC_Generator", "NBCGeneratorWithLocalMethod"):
        g = ctx.prog.cls(cname).methods["__call__"]
        stores = [n for n in body_walk(g.node) if isinstance(n, ast.Assign) and isinstance(n.targets[0], ast.Subscript) and isinstance(n.value, ast.Call) and norm(n.value.func) == "DemeCandidates"]
        from ..core import parents_map

        par = parents_map(g.node)
        for st in stores:
            key = norm(st.targets[0].slice)
            inds = next((k.value for k in st.value.keywords if k.arg == "individuals"), None)
            tabled_extra = cname == "NBCGeneratorWithLocalMethod" and inds is not None and norm(inds) == f"[{key}.best_individual]"
            conds = []
            cur = st
            while id(cur) in par:
                p = par[id(cur)]
                if isinstance(p, ast.If) and cur in p.body:
                    conds.append(norm(p.test))
                cur = p
            if tabled_extra:
                ok = len(conds) == 1 and f"not {key}.is_active" in conds[0]
                obs.append(ctx.ob("R10.1", g, st, status=OK if ok else VIOLATION, detail="tabled extra: best individual of a just-finished deme" if ok else f"the local-method extra candidate is offered under `{conds}`", construct="local-extra"))
            else:
                ok = conds == [f"{key}.is_active"]
                obs.append(ctx.ob("R10.1", g, st, status=OK if ok else VIOLATION, detail=f"{cname}: candidates offered for exactly the active demes" if ok else f"{cname}: candidates are offered under `{' and '.join(conds) or 'no condition'}` instead of exactly `{key}.is_active` (some active non-leaf deme gets no candidates, or an inactive one does)", construct=f"{cname}:guard"))
    return obs


def _derives_from(e, src_txt: str, defs, depth=0) -> bool:
    """Is e a sub-list of the list denoted by src_txt (filtering comprehension / sort / prefix slice / alias)?"""
    if depth > 6 or e is None:
        return False
    if canon(e) == src_txt:
        return True
    if isinstance(e, ast.Name) and e.id in defs:
        ds = defs[e.id]
        return bool(ds) and all(_derives_from(d, src_txt, {k: v for k, v in defs.items()}, depth + 1) or (_self_filter(d, e.id)) for d in ds) and any(_derives_from(d, src_txt, defs, depth + 1) for d in ds)
    if isinstance(e, ast.ListComp) and len(e.generators) == 1:
        g = e.generators[0]
        if isinstance(g.target, ast.Name) and norm(e.elt) == g.target.id:
            return _derives_from(g.iter, src_txt, defs, depth + 1)
    if isinstance(e, ast.Subscript) and isinstance(e.slice, ast.Slice):
        return _derives_from(e.value, src_txt, defs, depth + 1)
    if isinstance(e, ast.Call) and norm(e.func) in ("sorted", "list", "reversed") and e.args:
        return _derives_from(e.args[0], src_txt, defs, depth + 1)
    return False


def _self_filter(d, name: str) -> bool:
    """`name = [x for x in name if ...]` re-filters the list in place (still a sub-list)."""
    return isinstance(d, ast.ListComp) and len(d.generators) == 1 and isinstance(d.generators[0].target, ast.Name) and norm(d.elt) == d.generators[0].target.id and norm(d.generators[0].iter) == name


def r10_2(ctx: Ctx):
    """R10.2 filters only ever remove candidates (sub-list provenance of every store; no appends, no new parents)."""
    obs = []
    for ci in _filter_classes(ctx):
        f = ci.methods.get("__call__")
        if f is None:
            continue
        cand_p = f.params()[1]
        defs = {}
        for n in body_walk(f.node):
            if isinstance(n, ast.Assign) and len(n.targets) == 1 and isinstance(n.targets[0], ast.Name):
                defs.setdefault(n.targets[0].id, []).append(n.value)
        n_st = 0
        for n in body_walk(f.node):
            if isinstance(n, (ast.Assign, ast.AugAssign)):
                tgts = n.targets if isinstance(n, ast.Assign) else [n.target]
                for t in tgts:
                    if isinstance(t, ast.Attribute) and t.attr == "individuals" and cand_p in {x.id for x in ast.walk(t) if isinstance(x, ast.Name)}:
                        n_st += 1
                        src = canon(t)
                        if isinstance(n, ast.AugAssign):
                            obs.append(ctx.ob("R10.2", f, n, status=VIOLATION, detail=f"{ci.name}: `{norm(n)}` extends a candidate list"))
                            continue
                        ok = _derives_from(n.value, src, defs)
                        obs.append(ctx.ob("R10.2", f, n, status=OK if ok else VIOLATION, detail=f"{ci.name}: stored list is a sub-list of the previous candidates" if ok else f"{ci.name}: `{norm(n.value)[:80]}` is not derived from `{norm(t)}` by filtering / sorting / prefix slicing: the filter can introduce or duplicate candidates"))
                    elif isinstance(t, ast.Subscript) and norm(t.value) == cand_p:
                        obs.append(ctx.ob("R10.2", f, n, status=VIOLATION, detail=f"{ci.name}: `{norm(n)[:80]}` adds or replaces a parent entry in the candidates mapping"))
            if isinstance(n, ast.Call) and isinstance(n.func, ast.Attribute) and n.func.attr in ("append", "extend", "insert", "update", "setdefault", "__setitem__"):
                holder = n.func.value
                names = {x.id for x in ast.walk(holder) if isinstance(x, ast.Name)}
                if cand_p in names or any(_derives_from(ast.Name(id=x, ctx=ast.Load()), "", defs) for x in ()):
                    obs.append(ctx.ob("R10.2", f, n, status=VIOLATION, detail=f"{ci.name}: `{norm(n)[:80]}` adds to the candidates"))
        rets = [r for r in body_walk(f.node) if isinstance(r, ast.Return)]
        okr = bool(rets) and all(norm(r.value) == cand_p for r in rets)
        obs.append(ctx.ob("R10.2", f, rets[0] if rets else f.node, status=OK if okr else VIOLATION, detail=f"{ci.name}: returns the mapping it was given ({n_st} list store(s))" if okr else f"{ci.name}: returns `{norm(rets[0].value) if rets else 'nothing'}` instead of the filtered mapping", construct=f"{ci.name}:return"))
    return obs


def r10_3(ctx: Ctx):
    """R10.3 DemeLimit keeps exactly the first `limit` elements of the best-first order."""
    f = ctx.prog.cls("DemeLimit").methods["__call__"]
    sn = f.self_name()
    cand_p = f.params()[1]
    obs = []
    stores = [n for n in body_walk(f.node) if isinstance(n, ast.Assign) and isinstance(n.targets[0], ast.Attribute) and n.targets[0].attr == "individuals"]
    if len(stores) != 1:
        return [ctx.ob("R10.3", f, f.node, status=INCONCLUSIVE, detail=f"DemeLimit has {len(stores)} stores", construct="store")]
    st = stores[0]
    v = st.value
    ok = False
    why = f"`{norm(v)[:90]}` is not `sorted(candidates, reverse=True)[: limit]`"
    if isinstance(v, ast.Subscript) and isinstance(v.slice, ast.Slice) and v.slice.lower is None and v.slice.step is None and v.slice.upper is not None:
        if canon(v.slice.upper) != f"{sn}.limit":
            why = f"keeps the first `{norm(v.slice.upper)}` candidates instead of `limit`"
        elif isinstance(v.value, ast.Call) and norm(v.value.func) == "sorted" and v.value.args and canon(v.value.args[0]) == canon(st.targets[0]):
            rev = next((k.value for k in v.value.keywords if k.arg == "reverse"), None)
            key = next((k.value for k in v.value.keywords if k.arg == "key"), None)
            if key is not None:
                why = "sorts with a key instead of the direction-aware Individual order"
            elif not (isinstance(rev, ast.Constant) and rev.value is True):
                why = "does not sort best-first (reverse=True under the Individual order): the kept prefix is not the best"
            else:
                ok = True
    obs.append(ctx.ob("R10.3", f, st, status=OK if ok else VIOLATION, detail="keeps the `limit` best candidates (prefix of the best-first order)" if ok else f"DemeLimit {why}", construct="prefix"))
    # optional guard must be `len(...) > limit` (or absent)
    from ..core import parents_map

    par = parents_map(f.node)
    cur = st
    conds = []
    while id(cur) in par:
        p = par[id(cur)]
        if isinstance(p, ast.If):
            conds.append(p.test)
        cur = p
    for c in conds:
        okg = canon(c) in (f"len({canon(st.targets[0])})>{sn}.limit", f"len({canon(st.targets[0])})>={sn}.limit")
        obs.append(ctx.ob("R10.3", f, c, status=OK if okg else VIOLATION, detail="truncation applies whenever there are more candidates than the limit" if okg else f"DemeLimit truncates only under `{norm(c)}`: with other sizes more than `limit` candidates pass", construct="guard"))
    loops = [n for n in f.node.body if isinstance(n, ast.For)]
    okl = len(loops) == 1 and norm(loops[0].iter) in (f"{cand_p}.keys()", cand_p) and not any(isinstance(x, (ast.Break, ast.Continue, ast.Return)) for x in ast.walk(loops[0]))
    obs.append(ctx.ob("R10.3", f, loops[0] if loops else f.node, status=OK if okl else VIOLATION, detail="every parent's list is limited" if okl else "DemeLimit does not limit every parent's candidate list", construct="all-parents"))
    return obs


def r10_4(ctx: Ctx):
    """R10.4 LevelLimit chooses with the direction-aware order and fills exactly the free slots (C08.O4 counting argument)."""
    obs = []
    for o in c08.o4(ctx) + c08.o5(ctx):
        o.rule = "R10.4"
        obs.append(o)
    f = ctx.prog.cls("LevelLimit").methods["__call__"]
    # direction-aware: no key in the sort, comparator between Individuals
    for o in c13.r13_1(ctx) + c13.r13_3(ctx):
        if "LevelLimit" in o.subject or "DemeLimit" in o.subject:
            o.rule = "R10.4"
            obs.append(o)
    sorts = [c for c in body_walk(f.node) if isinstance(c, ast.Call) and ((isinstance(c.func, ast.Attribute) and c.func.attr == "sort") or norm(c.func) == "sorted")]
    for c in sorts:
        key = next((k.value for k in c.keywords if k.arg == "key"), None)
        rev = next((k.value for k in c.keywords if k.arg == "reverse"), None)
        ok = key is None and isinstance(rev, ast.Constant) and rev.value is True
        obs.append(ctx.ob("R10.4", f, c, status=OK if ok else VIOLATION, detail="level candidates ordered best-first by the Individual order" if ok else f"LevelLimit orders the level's candidates with `{norm(c)[:70]}`: not best-first in the problem's direction (on maximisation problems the worst candidates are kept)"))
    return obs


def r10_5(ctx: Ctx):
    """R10.5 filter chains are applied in order, tree-level after deme-level; only parents left with candidates are returned (C08.O3)."""
    out = []
    for o in c08.o3(ctx):
        o.rule = "R10.5"
        out.append(o)
    return out


def r10_6(ctx: Ctx):
    """R10.6 SkipSameSprout: keep iff no existing seed row is close in every coordinate; seed rows = seeds of all children of the parent's level."""
    f = ctx.prog.cls("SkipSameSprout").methods["__call__"]
    cand_p, tree_p = f.params()[1], f.params()[2]
    obs = []
    loops = [n for n in f.node.body if isinstance(n, ast.For)]
    if len(loops) != 1 or not isinstance(loops[0].target, ast.Name):
        return [ctx.ob("R10.6", f, f.node, status=INCONCLUSIVE, detail="outer loop not found", construct="loop")]
    d = loops[0].target.id
    defs = {}
    for n in ast.walk(loops[0]):
        if isinstance(n, ast.Assign) and len(n.targets) == 1 and isinstance(n.targets[0], ast.Name):
            defs.setdefault(n.targets[0].id, []).append(n.value)
    stores = [n for n in ast.walk(loops[0]) if isinstance(n, ast.Assign) and isinstance(n.targets[0], ast.Attribute) and n.targets[0].attr == "individuals"]
    if len(stores) != 1:
        return [ctx.ob("R10.6", f, loops[0], status=INCONCLUSIVE, detail="store not found", construct="store")]
    v = stores[0].value
    while isinstance(v, ast.Name) and v.id in defs and len(defs[v.id]) == 1:
        v = defs[v.id][0]
    okp = False
    why = f"keep-expression `{norm(v)[:80]}` not recognised"
    seeds_name = None
    if isinstance(v, ast.ListComp) and len(v.generators) == 1 and len(v.generators[0].ifs) == 1 and isinstance(v.generators[0].target, ast.Name):
        ind = v.generators[0].target.id
        cond = v.generators[0].ifs[0]
        if isinstance(cond, ast.UnaryOp) and isinstance(cond.op, ast.Not):
            inner = cond.operand
            t = canon(inner)
            import re

            m = re.fullmatch(r"np\.any\(np\.all\(np\.isclose\((\w+),%s\.genome\),axis=1\)\)" % ind, t) or re.fullmatch(r"np\.any\(np\.all\(np\.isclose\(%s\.genome,(\w+)\),axis=1\)\)" % ind, t)
            if m:
                okp = True
                seeds_name = m.group(1)
            elif "np.all(np.any(" in t:
                why = "quantifiers exchanged: a candidate is dropped when every seed matches in SOME coordinate"
            elif "axis=0" in t:
                why = "axis=0: rows and coordinates exchanged"
            else:
                why = f"match predicate `{norm(inner)[:80]}` is not any-row(all-coordinates(isclose))"
        else:
            why = f"candidates are kept when `{norm(cond)[:70]}`: the negation is missing (only duplicates of existing seeds pass)" if "isclose" in norm(cond) else why
    obs.append(ctx.ob("R10.6", f, stores[0], status=OK if okp else VIOLATION, detail="kept iff no existing seed row is close in all coordinates" if okp else f"SkipSameSprout: {why}", construct="keep-pred"))
    if seeds_name:
        sd = defs.get(seeds_name, [])
        oks = False
        if len(sd) == 1:
            e = sd[0]
            if isinstance(e, ast.Call) and norm(e.func) in ("np.array", "np.asarray") and e.args:
                e = e.args[0]
            if isinstance(e, ast.ListComp) and len(e.generators) == 2:
                g1, g2 = e.generators
                oks = canon(g1.iter) in (f"{tree_p}.levels[{d}.level]", f"{tree_p}._levels[{d}.level]") and isinstance(g1.target, ast.Name) and canon(g2.iter) == f"{g1.target.id}.children" and isinstance(g2.target, ast.Name) and canon(e.elt) == f"{g2.target.id}._sprout_seed.genome" and not g1.ifs and not g2.ifs
        obs.append(ctx.ob("R10.6", f, sd[0] if sd else stores[0], status=OK if oks else VIOLATION, detail="seed rows = seeds of every child of every deme on the parent's level" if oks else f"SkipSameSprout compares with `{norm(sd[0])[:90] if sd else '?'}`, not with the seeds of all existing demes of the target level", construct="seed-rows"))
    # the early `continue` only for parents without children
    # normalised form: `if deme.children: <filter>` (an early `continue` for childless parents is inverted into this guard)
    guards = [n for n in loops[0].body if isinstance(n, ast.If) and any(x is stores[0] for x in ast.walk(n))]
    for c in guards:
        okc = canon(c.test) in (f"{d}.children", f"len({d}.children)>0", f"len({d}.children)!=0") and not c.orelse
        obs.append(ctx.ob("R10.6", f, c, status=OK if okc else VIOLATION, detail="parents without children are passed through unchanged" if okc else f"SkipSameSprout filters a parent only under `{norm(c.test)}`", construct="skip-cond"))
    if not guards:
        obs.append(ctx.ob("R10.6", f, loops[0], detail="every parent is filtered (no childless shortcut)", construct="skip-cond", trivial=True))
    return obs


RULES = [
    ("R10.1", r10_1, 8),
    ("R10.2", r10_2, 10),
    ("R10.3", r10_3, 2),
    ("R10.4", r10_4, 8),
    ("R10.5", r10_5, 7),
    ("R10.6", r10_6, 3),
]
