"""C10 — sprout candidates come from the right populations; filters keep the best."""
from __future__ import annotations

import ast
import re

from ..core import INCONCLUSIVE, OK, VIOLATION, Ctx, canon, cond_is, is_self_attr, local_defs
from ..model import AnalysisError, body_walk, norm
from . import c07, c08, c13

CLAIM = """Decides the structural clauses: (R10.1) generators key their candidates by exactly the is_active demes of the non-leaf
levels and take them from the keyed deme's current population / current best (the local-method generator's tabled extra);
(R10.2) every filter only removes: each store to a parent's candidate list is a filtering comprehension over, or a slice of a
sort of, that same list, nothing appends candidates or adds parents; (R10.3) DemeLimit keeps the first `limit` elements of the
best-first order (direction-aware), i.e. exactly min(limit, available) and never a worse one in place of a better one;
(R10.4) LevelLimit orders and compares with the direction-aware Individual order (no raw fitness), and by the counting argument
of C08.O4 keeps exactly the candidates strictly better than the (limit - active)-th: the free slots when fitness values are
distinct; (R10.5) filter chains are applied in list order, tree-level after deme-level, and only parents left with candidates
are returned; (R10.6) SkipSameSprout keeps a candidate iff no existing seed row matches it in every coordinate (np.isclose),
where the seed rows are the seeds of all children of the parent's level. Round-3/4 extensions: the parents LevelLimit ranks are exactly the candidates' keys of the level; SkipSameSprout compares with the seeds of the target level only and never looks individuals up by `==`; the local-method extra candidate comes from the deme that finished in the current metaepoch."""
NOTE = """The numeric verdicts of np.isclose are not evaluated. User-written filters outside pyhms are not analysed."""
TECHNIQUE = "subset-provenance (filters only shrink) and order/cardinality shape analysis over the filter classes' ASTs; shared polarity rules with C13"
EXPLANATION = """
R10.2 is a dataflow rule over every class derived from the two filter base classes (>= 6): the value stored into
`candidates[d].individuals` must be reachable from the previous value of the same list only through filtering
comprehensions, sorting and prefix slicing. R10.3/R10.4 reuse the ordering rules of C13 (best-first = sorted(reverse=True) under
the Individual order) and the cardinality argument of C08.O4. R10.6 matches the keep-predicate of SkipSameSprout.
"""
ASSUMPTIONS = ["list comprehensions with a condition return a sub-list; sorted() permutes; a prefix slice is a sub-list"]


def _filter_classes(ctx: Ctx):
    out = []
    for b in ("DemeLevelCandidatesFilter", "TreeLevelCandidatesFilter"):
        base = ctx.prog.cls(b)
        out.extend(c for c in ctx.prog.subclasses(base))
    if len(out) < 6:
        raise AnalysisError(f"only {len(out)} filter classes found (6 confirmed by hand)")
    return out


def r10_1(ctx: Ctx):
    """R10.1 generators: keys are exactly the active non-leaf demes; candidates come from the keyed deme's current population."""
    obs = []
    for o in c07.r07_6(ctx) + c07.r07_7(ctx):
        if "Generator" in o.subject or "BestPerDeme" in o.subject or "NearestBetterClustering" in o.subject:
            o.rule = "R10.1"
            obs.append(o)
    # exactness of the activity guard in the NBC generators
    for cname in ("NBC_Generator", "NBCGeneratorWithLocalMethod"):
        g = ctx.prog.cls(cname).methods["__call__"]
        stores = [n for n in body_walk(g.node) if isinstance(n, ast.Assign) and isinstance(n.targets[0], ast.Subscript) and isinstance(n.value, ast.Call) and norm(n.value.func) == "DemeCandidates"]
        from ..core import parents_map

        par = parents_map(g.node)
        for st in stores:
            key = norm(st.targets[0].slice)
            inds = next((k.value for k in st.value.keywords if k.arg == "individuals"), None)
            tabled_extra = cname == "NBCGeneratorWithLocalMethod" and inds is not None and norm(inds) == f"[{key}.best_individual]"
            conds = []
            cur = st
            iters = []
            while id(cur) in par:
                p = par[id(cur)]
                if isinstance(p, ast.If):
                    conds.append(p.test if cur in p.body else ast.UnaryOp(op=ast.Not(), operand=p.test))
                if isinstance(p, ast.For):
                    iters.append(norm(p.iter))
                cur = p
            gdefs = local_defs(g)
            import copy

            from ..core import _Subst, bool_equiv, parse_cond

            conds = [_Subst(gdefs, 4).visit(copy.deepcopy(c)) for c in conds]
            conj = ast.BoolOp(op=ast.And(), values=conds) if len(conds) > 1 else conds[0] if conds else ast.Constant(value=True)
            act = parse_cond(f"{key}.is_active")
            mentions = any(isinstance(x, ast.Attribute) and x.attr in ("is_active", "_active") for x in ast.walk(conj)) or any("active" in i for i in iters)

            def implies(a, b):
                return bool_equiv(ast.BoolOp(op=ast.Or(), values=[ast.UnaryOp(op=ast.Not(), operand=a), b]), ast.Constant(value=True)) is True

            ctext = " and ".join(norm(c) for c in conds) or "no condition"
            if tabled_extra:
                if implies(conj, ast.UnaryOp(op=ast.Not(), operand=act)):
                    stt = OK
                elif not mentions or implies(conj, act):
                    stt = VIOLATION
                else:
                    stt = INCONCLUSIVE
                obs.append(ctx.ob("R10.1", g, st, status=stt, detail="tabled extra: best individual of a just-finished deme" if stt == OK else f"the local-method extra candidate is offered under `{ctext}`", construct="local-extra"))
                # "just finished": the deme's last metaepoch is the tree's current one, started_at + number of recorded
                # METAEPOCHS (len(_history) = metaepoch_count + 1) == tree.metaepoch_count
                tp_ = g.params()[1] if len(g.params()) > 1 else "tree"
                atoms_ = conds[0].values if len(conds) == 1 and isinstance(conds[0], ast.BoolOp) and isinstance(conds[0].op, ast.And) else conds
                flat_ = []
                for a_ in atoms_:
                    flat_.extend(a_.values if isinstance(a_, ast.BoolOp) and isinstance(a_.op, ast.And) else [a_])
                rec = [a_ for a_ in flat_ if isinstance(a_, ast.Compare) and any(isinstance(x, ast.Attribute) and x.attr == "metaepoch_count" and canon(x.value) == tp_ for x in ast.walk(a_))]
                if not rec:
                    st_r, why_r = VIOLATION, f"the extra candidate of a stopped deme is offered whenever `{ctext}`: nothing restricts it to the deme that has JUST finished, so long-finished demes keep offering their best individual"
                else:
                    t_ = canon(rec[0])
                    want_ = {f"{key}.started_at+len({key}._history)=={tp_}.metaepoch_count", f"{tp_}.metaepoch_count=={key}.started_at+len({key}._history)", f"{key}.started_at+{key}.metaepoch_count+1=={tp_}.metaepoch_count", f"{key}._started_at+len({key}._history)=={tp_}.metaepoch_count", f"len({key}._history)+{key}.started_at=={tp_}.metaepoch_count"}
                    if t_ in want_:
                        st_r, why_r = OK, ""
                    elif re.search(r"len\(" + re.escape(key) + r"\.(history|all_individuals|current_population)\)", t_):
                        st_r, why_r = VIOLATION, f"`{norm(rec[0])}` counts the deme's recorded GENERATIONS / individuals, not its metaepochs: with several generations per metaepoch the test is true long after the deme stopped (or never), so a deme that is not the just-finished one offers its best individual"
                    else:
                        st_r, why_r = INCONCLUSIVE, f"cannot tell whether `{norm(rec[0])}` singles out the deme that finished in the current metaepoch"
                obs.append(ctx.ob("R10.1", g, st, status=st_r, detail="the extra candidate comes from the deme that finished in the current metaepoch" if st_r == OK else why_r, construct="local-extra-recent"))
            else:
                if implies(conj, act):
                    stt = OK
                elif not mentions or implies(conj, ast.UnaryOp(op=ast.Not(), operand=act)):
                    stt = VIOLATION
                else:
                    stt = INCONCLUSIVE
                obs.append(ctx.ob("R10.1", g, st, status=stt, detail=f"{cname}: candidates offered only for active demes" if stt == OK else f"{cname}: candidates are offered under `{ctext}` instead of `{key}.is_active` (an inactive deme can get candidates)", construct=f"{cname}:guard"))
    return obs


def _derives_from(e, src_txt: str, defs, depth=0, seen=()) -> str:
    """Is e a sub-list of the list denoted by src_txt (filtering comprehension / filter() / sort / slice / alias)?
    'yes' / 'no' (it provably contains other elements: concatenation, literal elements, mapped elements) / 'unknown'."""
    if depth > 8 or e is None:
        return "unknown"
    if canon(e) == src_txt:
        return "yes"
    if isinstance(e, ast.Name):
        if e.id in seen:
            return "yes"  # `name = [x for x in name if ...]` re-filters the running list
        if e.id in defs and defs[e.id]:
            rs = [_derives_from(d, src_txt, defs, depth + 1, seen + (e.id,)) for d in defs[e.id]]
            return "no" if "no" in rs else "unknown" if "unknown" in rs else "yes"
        return "unknown"
    if isinstance(e, ast.ListComp) and len(e.generators) == 1:
        g = e.generators[0]
        if isinstance(g.target, ast.Name) and norm(e.elt) == g.target.id:
            return _derives_from(g.iter, src_txt, defs, depth + 1, seen)
        inner = _derives_from(g.iter, src_txt, defs, depth + 1, seen)
        return "no" if inner == "yes" and isinstance(e.elt, ast.Call) else "unknown"
    if isinstance(e, ast.Subscript) and isinstance(e.slice, ast.Slice):
        return _derives_from(e.value, src_txt, defs, depth + 1, seen)
    if isinstance(e, ast.Call) and norm(e.func) in ("sorted", "list", "reversed", "tuple") and e.args:
        return _derives_from(e.args[0], src_txt, defs, depth + 1, seen)
    if isinstance(e, ast.Call) and norm(e.func) == "filter" and len(e.args) == 2:
        return _derives_from(e.args[1], src_txt, defs, depth + 1, seen)
    if isinstance(e, ast.IfExp):
        rs = [_derives_from(e.body, src_txt, defs, depth + 1, seen), _derives_from(e.orelse, src_txt, defs, depth + 1, seen)]
        return "no" if "no" in rs else "unknown" if "unknown" in rs else "yes"
    if isinstance(e, ast.BoolOp):
        rs = [_derives_from(x, src_txt, defs, depth + 1, seen) for x in e.values]
        return "no" if "no" in rs else "unknown" if "unknown" in rs else "yes"
    if isinstance(e, ast.List):
        return "yes" if not e.elts else "no"
    if isinstance(e, ast.BinOp) and isinstance(e.op, (ast.Add, ast.Mult)):
        return "no"
    return "unknown"


def r10_2(ctx: Ctx):
    """R10.2 filters only ever remove candidates (sub-list provenance of every store; no appends, no new parents)."""
    obs = []
    for ci in _filter_classes(ctx):
        f = ci.methods.get("__call__")
        if f is None:
            continue
        cand_p = f.params()[1]
        defs = {}
        for n in body_walk(f.node):
            if isinstance(n, ast.Assign) and len(n.targets) == 1 and isinstance(n.targets[0], ast.Name):
                defs.setdefault(n.targets[0].id, []).append(n.value)
        n_st = 0
        for n in body_walk(f.node):
            if isinstance(n, (ast.Assign, ast.AugAssign)):
                tgts = n.targets if isinstance(n, ast.Assign) else [n.target]
                for t in tgts:
                    if isinstance(t, ast.Attribute) and t.attr == "individuals" and cand_p in {x.id for x in ast.walk(t) if isinstance(x, ast.Name)}:
                        n_st += 1
                        src = canon(t)
                        if isinstance(n, ast.AugAssign):
                            obs.append(ctx.ob("R10.2", f, n, status=VIOLATION, detail=f"{ci.name}: `{norm(n)}` extends a candidate list"))
                            continue
                        dv = _derives_from(n.value, canon(t, defs), defs)
                        if dv != "yes":
                            dv2 = _derives_from(n.value, src, defs)
                            dv = dv2 if dv2 == "yes" else dv
                        ok = dv == "yes"
                        obs.append(ctx.ob("R10.2", f, n, status=OK if ok else VIOLATION if dv == "no" else INCONCLUSIVE, detail=f"{ci.name}: stored list is a sub-list of the previous candidates" if ok else f"{ci.name}: `{norm(n.value)[:80]}` is not derived from `{norm(t)}` by filtering / sorting / prefix slicing: the filter can introduce or duplicate candidates"))
                    elif isinstance(t, ast.Subscript) and norm(t.value) == cand_p:
                        key_vars = {x.target.id for x in body_walk(f.node) if isinstance(x, (ast.For, ast.comprehension)) and isinstance(x.target, ast.Name) and canon(x.iter) in (cand_p, f"{cand_p}.keys()", f"list({cand_p})", f"list({cand_p}.keys())")}
                        obs.append(ctx.ob("R10.2", f, n, status=INCONCLUSIVE if norm(t.slice) in key_vars else VIOLATION, detail=f"{ci.name}: `{norm(n)[:80]}` adds or replaces a parent entry in the candidates mapping"))
            if isinstance(n, ast.Call) and isinstance(n.func, ast.Attribute) and n.func.attr in ("append", "extend", "insert", "update", "setdefault", "__setitem__"):
                holder = n.func.value
                names = {x.id for x in ast.walk(holder) if isinstance(x, ast.Name)}
                if cand_p in names or any(_derives_from(ast.Name(id=x, ctx=ast.Load()), "", defs) for x in ()):
                    obs.append(ctx.ob("R10.2", f, n, status=VIOLATION, detail=f"{ci.name}: `{norm(n)[:80]}` adds to the candidates"))
        rets = [r for r in body_walk(f.node) if isinstance(r, ast.Return)]
        okr = bool(rets) and all(r.value is not None and norm(r.value) == cand_p for r in rets)
        obs.append(ctx.ob("R10.2", f, rets[0] if rets else f.node, status=OK if okr else VIOLATION if (not rets or any(r.value is None for r in rets)) else INCONCLUSIVE, detail=f"{ci.name}: returns the mapping it was given ({n_st} list store(s))" if okr else f"{ci.name}: returns `{norm(rets[0].value) if rets else 'nothing'}` instead of the filtered mapping", construct=f"{ci.name}:return"))
    return obs


def r10_3(ctx: Ctx):
    """R10.3 DemeLimit keeps exactly the first `limit` elements of the best-first order."""
    f = ctx.prog.cls("DemeLimit").methods["__call__"]
    sn = f.self_name()
    cand_p = f.params()[1]
    obs = []
    defs = local_defs(f)
    stores = [n for n in body_walk(f.node) if isinstance(n, ast.Assign) and isinstance(n.targets[0], ast.Attribute) and n.targets[0].attr == "individuals"]
    if len(stores) != 1:
        return [ctx.ob("R10.3", f, f.node, status=INCONCLUSIVE, detail=f"DemeLimit has {len(stores)} stores", construct="store")]
    st = stores[0]
    tgt = canon(st.targets[0], defs)
    v = st.value
    hops = 0
    while isinstance(v, ast.Name) and len(defs.get(v.id, [])) == 1 and hops < 4:
        v = defs[v.id][0]
        hops += 1
    status = INCONCLUSIVE
    why = f"`{norm(v)[:90]}` is not recognisable as `sorted(candidates, reverse=True)[: limit]`"
    if isinstance(v, ast.Subscript) and isinstance(v.slice, ast.Slice) and v.slice.lower is None and v.slice.step is None and v.slice.upper is not None:
        up = canon(v.slice.upper, defs)
        srt = v.value
        hops = 0
        while isinstance(srt, ast.Name) and len(defs.get(srt.id, [])) == 1 and hops < 4:
            srt = defs[srt.id][0]
            hops += 1
        if up != f"{sn}.limit":
            definite = re.fullmatch(re.escape(f"{sn}.limit") + r"[-+*/]+\d+|\d+", up) is not None
            status, why = (VIOLATION if definite else INCONCLUSIVE), f"keeps the first `{norm(v.slice.upper)}` candidates instead of `limit`"
        elif isinstance(srt, ast.Call) and norm(srt.func) == "sorted" and srt.args and canon(srt.args[0], defs) == tgt:
            rev = next((k.value for k in srt.keywords if k.arg == "reverse"), None)
            key = next((k.value for k in srt.keywords if k.arg == "key"), None)
            if key is not None:
                status, why = VIOLATION, "sorts with a key instead of the direction-aware Individual order"
            elif rev is None or (isinstance(rev, ast.Constant) and rev.value is False):
                status, why = VIOLATION, "does not sort best-first (reverse=True under the Individual order): the kept prefix is not the best"
            elif isinstance(rev, ast.Constant) and rev.value is True:
                status = OK
            else:
                why = f"sort direction `{norm(rev)}` is not a constant"
        elif canon(srt, defs) == tgt:
            status, why = VIOLATION, "keeps a prefix of the unsorted candidate list: not the best ones"
    elif isinstance(v, ast.ListComp) and len(v.generators) == 1 and len(v.generators[0].ifs) == 1 and isinstance(v.generators[0].ifs[0], ast.Compare) and isinstance(v.generators[0].ifs[0].ops[0], (ast.Gt, ast.Lt)) and any(isinstance(x, ast.Call) and norm(x.func) == "sorted" for side in (v.generators[0].ifs[0].left, v.generators[0].ifs[0].comparators[0]) for x in ast.walk(__import__("hmslint.core", fromlist=["subst_expr"]).subst_expr(side, defs))):
        status, why = VIOLATION, f"`{norm(v)[:80]}` keeps the candidates STRICTLY better than a pivot of the sorted list: candidates tied with the pivot are dropped too, so fewer than min(limit, available) can survive"
    elif isinstance(v, ast.Subscript) and isinstance(v.slice, ast.Slice) and v.slice.upper is None and v.slice.lower is not None and isinstance(v.value, ast.Call) and norm(v.value.func) == "sorted":
        # sorted(...)[-limit:]  — the best `limit` of an ascending sort
        rev = next((k.value for k in v.value.keywords if k.arg == "reverse"), None)
        lo = canon(v.slice.lower, defs)
        if lo == f"-{sn}.limit" and rev is None and not any(k.arg == "key" for k in v.value.keywords) and canon(v.value.args[0], defs) == tgt:
            status = OK
        elif lo == f"-{sn}.limit" and isinstance(rev, ast.Constant) and rev.value is True:
            status, why = VIOLATION, "keeps the last `limit` of the best-first order: the worst candidates"
    obs.append(ctx.ob("R10.3", f, st, status=status, detail="keeps the `limit` best candidates (prefix of the best-first order)" if status == OK else f"DemeLimit {why}", construct="prefix"))
    # optional guard must be `len(...) > limit` (or absent)
    from ..core import parents_map

    par = parents_map(f.node)
    cur = st
    conds = []
    while id(cur) in par:
        p = par[id(cur)]
        if isinstance(p, ast.If):
            conds.append(p.test if cur in p.body else ast.UnaryOp(op=ast.Not(), operand=p.test))
        cur = p
    import copy

    from ..core import _Subst

    for c in conds:
        cs = _Subst(defs, 4).visit(copy.deepcopy(c))
        tl = f"len({tgt})"
        okg = cond_is(cs, f"{tl} > {sn}.limit") or cond_is(cs, f"{tl} >= {sn}.limit")
        if okg:
            stg = OK
        elif any(cond_is(cs, f"{tl} {op} {sn}.limit{off}") for op in ("<", "<=", "==", "!=", ">", ">=") for off in ("", " + 1", " - 1", " + 2")):
            stg = VIOLATION  # another size comparison against the limit
        else:
            stg = INCONCLUSIVE
        obs.append(ctx.ob("R10.3", f, c, status=stg, detail="truncation applies whenever there are more candidates than the limit" if stg == OK else f"DemeLimit truncates only under `{norm(c)}`: with other sizes more than `limit` candidates pass", construct="guard"))
    loops = [n for n in f.node.body if isinstance(n, ast.For)]
    okl = len(loops) == 1 and canon(loops[0].iter) in (f"{cand_p}.keys()", cand_p, f"list({cand_p})", f"list({cand_p}.keys())")
    early = okl and any(isinstance(x, (ast.Break, ast.Return)) for x in ast.walk(loops[0]))
    conts = okl and any(isinstance(x, ast.Continue) for x in ast.walk(loops[0]))
    stl = OK if (okl and not early and not conts) else VIOLATION if early else INCONCLUSIVE
    obs.append(ctx.ob("R10.3", f, loops[0] if loops else f.node, status=stl, detail="every parent's list is limited" if stl == OK else "DemeLimit does not limit every parent's candidate list", construct="all-parents"))
    return obs


def r10_4(ctx: Ctx):
    """R10.4 LevelLimit chooses with the direction-aware order and fills exactly the free slots (C08.O4 counting argument)."""
    obs = []
    for o in c08.o4(ctx, ties_matter=False) + c08.o5(ctx):
        o.rule = "R10.4"
        obs.append(o)
    f = ctx.prog.cls("LevelLimit").methods["__call__"]
    # direction-aware: no key in the sort, comparator between Individuals
    for o in c13.r13_1(ctx) + c13.r13_3(ctx):
        if "LevelLimit" in o.subject or "DemeLimit" in o.subject:
            o.rule = "R10.4"
            obs.append(o)
    sorts = [c for c in body_walk(f.node) if isinstance(c, ast.Call) and ((isinstance(c.func, ast.Attribute) and c.func.attr == "sort") or norm(c.func) == "sorted")]
    for c in sorts:
        key = next((k.value for k in c.keywords if k.arg == "key"), None)
        rev = next((k.value for k in c.keywords if k.arg == "reverse"), None)
        ok = key is None and isinstance(rev, ast.Constant) and rev.value is True
        st_k = OK if ok else VIOLATION
        if key is not None:
            # a key is fine when it only picks the candidate out of a record (pair[i], a helper returning its element) and the
            # individuals themselves are compared; a key that projects to the raw fitness bypasses the direction-aware order
            kb = None
            if isinstance(key, ast.Lambda) and len(key.args.args) == 1:
                kb = key.body
            elif isinstance(key, ast.Attribute) and isinstance(key.value, ast.Name):
                hm = (f.cls.methods.get(key.attr) if f.cls is not None else None)
                if hm is not None:
                    hr = [r for r in body_walk(hm.node) if isinstance(r, ast.Return) and r.value is not None]
                    kb = hr[0].value if len(hr) == 1 else None
            elif isinstance(key, ast.Call) and norm(key.func) in ("itemgetter", "operator.itemgetter") and len(key.args) == 1:
                kb = ast.Subscript(value=ast.Name(id="x", ctx=ast.Load()), slice=key.args[0], ctx=ast.Load())
            reads_fit = kb is not None and any(isinstance(x, ast.Attribute) and x.attr in ("fitness", "fitnesses") for x in ast.walk(kb))
            projection = kb is not None and isinstance(kb, ast.Subscript) and isinstance(kb.value, ast.Name) and isinstance(kb.slice, ast.Constant)
            st_k = VIOLATION if reads_fit else (OK if projection and isinstance(rev, ast.Constant) and rev.value is True else INCONCLUSIVE)
            ok = st_k == OK
        obs.append(ctx.ob("R10.4", f, c, status=st_k, detail="level candidates ordered best-first by the Individual order" if ok else f"LevelLimit orders the level's candidates with `{norm(c)[:70]}`: not best-first in the problem's direction (on maximisation problems the worst candidates are kept)"))
    return obs


def r10_5(ctx: Ctx):
    """R10.5 filter chains are applied in order, tree-level after deme-level; only parents left with candidates are returned (C08.O3)."""
    out = []
    for o in c08.o3(ctx):
        o.rule = "R10.5"
        out.append(o)
    return out


def r10_6(ctx: Ctx):
    """R10.6 SkipSameSprout: keep iff no existing seed row is close in every coordinate; seed rows = seeds of all children of the parent's level."""
    f = ctx.prog.cls("SkipSameSprout").methods["__call__"]
    cand_p, tree_p = f.params()[1], f.params()[2]
    obs = []
    loops = [n for n in f.node.body if isinstance(n, ast.For)]
    if len(loops) != 1 or not isinstance(loops[0].target, ast.Name):
        return [ctx.ob("R10.6", f, f.node, status=INCONCLUSIVE, detail="outer loop not found", construct="loop")]
    d = loops[0].target.id
    defs = {}
    for n in ast.walk(loops[0]):
        if isinstance(n, ast.Assign) and len(n.targets) == 1 and isinstance(n.targets[0], ast.Name):
            defs.setdefault(n.targets[0].id, []).append(n.value)
    # loop-invariant locals computed before the loop
    for n in f.node.body:
        if n is loops[0]:
            break
        if isinstance(n, ast.Assign) and len(n.targets) == 1 and isinstance(n.targets[0], ast.Name) and n.targets[0].id not in defs:
            defs[n.targets[0].id] = [n.value]
    stores = [n for n in ast.walk(loops[0]) if isinstance(n, ast.Assign) and isinstance(n.targets[0], ast.Attribute) and n.targets[0].attr == "individuals"]
    if len(stores) != 1:
        return [ctx.ob("R10.6", f, loops[0], status=INCONCLUSIVE, detail="store not found", construct="store")]
    v = stores[0].value
    while isinstance(v, ast.Name) and v.id in defs and len(defs[v.id]) == 1:
        v = defs[v.id][0]
    st_p = INCONCLUSIVE
    why = f"keep-expression `{norm(v)[:80]}` not recognised"
    seeds_name = None
    if isinstance(v, ast.ListComp) and len(v.generators) == 1 and v.generators[0].ifs and isinstance(v.generators[0].target, ast.Name):
        ind = v.generators[0].target.id
        ifs = list(v.generators[0].ifs)
        # further conjuncts next to the isclose test: a membership test of the candidate in a list of individuals compares by
        # `==`, which for individuals is equality of FITNESS - a candidate with another genome but a tied fitness is rejected
        flat = []
        for c_ in ifs:
            flat.extend(c_.values if isinstance(c_, ast.BoolOp) and isinstance(c_.op, ast.And) else [c_])
        core = [c_ for c_ in flat if any(isinstance(x, ast.Call) and norm(x.func).split(".")[-1] in ("isclose", "allclose", "array_equal") for x in ast.walk(c_))]
        extra = [c_ for c_ in flat if c_ not in core]
        from .c13 import _is_individual_collection

        for c_ in extra:
            if isinstance(c_, ast.Compare) and len(c_.ops) == 1 and isinstance(c_.ops[0], (ast.In, ast.NotIn)) and norm(c_.left) == ind and (_is_individual_collection(ctx, f, c_.comparators[0]) or any("_sprout_seed" in norm(d_) or "sprout_seed" in norm(d_) for d_ in defs.get(norm(c_.comparators[0]), []))):
                obs.append(ctx.ob("R10.6", f, c_, status=VIOLATION, detail=f"SkipSameSprout also drops a candidate when `{norm(c_)}` fails: membership in a list of individuals uses `==`, which compares FITNESS, so a candidate that differs from every existing seed but ties with one in fitness is rejected", construct="eq-lookup"))
                return obs
        if extra and core:
            obs.append(ctx.ob("R10.6", f, extra[0], status=INCONCLUSIVE, detail=f"SkipSameSprout keeps a candidate only if also `{norm(extra[0])[:70]}`", construct="extra-conjunct"))
            return obs
        cond = ifs[0] if len(ifs) == 1 else ast.BoolOp(op=ast.And(), values=list(ifs))
        negated = False
        inner = cond
        while True:
            if isinstance(inner, ast.UnaryOp) and isinstance(inner.op, ast.Not):
                negated = not negated
                inner = inner.operand
            elif isinstance(inner, ast.Call) and norm(inner.func) == "bool" and len(inner.args) == 1:
                inner = inner.args[0]
            else:
                break
        import copy

        from ..core import _Subst

        inner_s = _Subst({k: d for k, d in defs.items() if not (len(d) == 1 and isinstance(d[0], ast.Call) and norm(d[0].func) in ("np.array", "np.asarray", "np.vstack", "np.stack"))}, 3).visit(copy.deepcopy(inner))
        t = canon(inner_s)
        m = re.fullmatch(r"np\.any\(np\.all\(np\.isclose\((\w+),%s\.genome\),axis=1\)\)" % ind, t) or re.fullmatch(r"np\.any\(np\.all\(np\.isclose\(%s\.genome,(\w+)\),axis=1\)\)" % ind, t) or re.fullmatch(r"np\.all\(np\.isclose\((\w+),%s\.genome\),axis=1\)\.any\(\)" % ind, t) or re.fullmatch(r"np\.isclose\((\w+),%s\.genome\)\.all\(axis=1\)\.any\(\)" % ind, t)
        if m and negated:
            st_p = OK
            seeds_name = m.group(1)
        elif m and not negated:
            st_p, why = VIOLATION, f"candidates are kept when `{norm(cond)[:70]}`: the negation is missing (only duplicates of existing seeds pass)"
        elif "isclose" in t and ("np.all(np.any(" in t):
            st_p, why = VIOLATION, "quantifiers exchanged: a candidate is dropped when every seed matches in SOME coordinate"
        elif "isclose" in t and "axis=0" in t:
            st_p, why = VIOLATION, "axis=0: rows and coordinates exchanged"
        elif "isclose" in t and ("rtol=" in t or "atol=" in t):
            st_p, why = INCONCLUSIVE, f"match predicate `{norm(inner)[:80]}` uses non-default tolerances"
        elif ".tobytes()" in t or "hash(" in t:
            st_p, why = VIOLATION, f"a seed is recognised by a byte / hash key (`{norm(inner)[:70]}`): numerically equal genomes with different bit patterns (-0.0 and 0.0, another dtype, values on either side of a rounding boundary) get different keys, so a candidate equal to an existing seed is let through"
        else:
            why = f"match predicate `{norm(inner)[:80]}` is not recognisable as any-row(all-coordinates(isclose))"
    if st_p != OK:
        # vectorised forms: look for the reduction order over the isclose table anywhere in the loop (locals substituted)
        import copy

        from ..core import _Subst

        for n_ in ast.walk(loops[0]):
            if isinstance(n_, ast.Call) and norm(n_.func) in ("np.all", "np.any"):
                tt = canon(_Subst(defs, 4).visit(copy.deepcopy(n_)))
                if tt.startswith("np.all(np.any(np.isclose("):
                    st_p, why = VIOLATION, f"`{norm(n_)[:70]}` reduces the isclose table with any() first and all() second: a candidate is treated as already sprouted when each of its coordinates matches that coordinate of SOME seed, so candidates that differ from every seed are rejected"
                    break
    obs.append(ctx.ob("R10.6", f, stores[0], status=st_p, detail="kept iff no existing seed row is close in all coordinates" if st_p == OK else f"SkipSameSprout: {why}", construct="keep-pred"))
    if seeds_name:
        sd = defs.get(seeds_name, [])
        st_s = INCONCLUSIVE
        if len(sd) == 1:
            e = sd[0]
            if isinstance(e, ast.Call) and norm(e.func) in ("np.array", "np.asarray", "np.vstack", "np.stack") and e.args:
                e = e.args[0]
            hops = 0
            while isinstance(e, ast.Name) and len(defs.get(e.id, [])) == 1 and hops < 3:
                e = defs[e.id][0]
                hops += 1
            if isinstance(e, ast.ListComp) and len(e.generators) == 1 and isinstance(e.generators[0].target, ast.Name) and canon(e.generators[0].iter, defs) in (f"{tree_p}.levels[{d}.level+1]", f"{tree_p}._levels[{d}.level+1]") and canon(e.elt) in (f"{e.generators[0].target.id}._sprout_seed.genome", f"{e.generators[0].target.id}.sprout_seed.genome"):
                # every deme of the target level is a child of some deme on the parent's level
                st_s = OK if not e.generators[0].ifs else VIOLATION
            elif isinstance(e, ast.ListComp) and len(e.generators) == 2:
                g1, g2 = e.generators
                lvl_ok = canon(g1.iter, defs) in (f"{tree_p}.levels[{d}.level]", f"{tree_p}._levels[{d}.level]")
                shape = isinstance(g1.target, ast.Name) and isinstance(g2.target, ast.Name) and canon(g2.iter) == f"{g1.target.id}.children" and canon(e.elt) in (f"{g2.target.id}._sprout_seed.genome", f"{g2.target.id}.sprout_seed.genome")
                if lvl_ok and shape and not g1.ifs and not g2.ifs:
                    st_s = OK
                elif shape and not lvl_ok and re.fullmatch(re.escape(f"{tree_p}.") + r"_?levels\[.*\]", canon(g1.iter, defs)):
                    st_s = VIOLATION
                elif lvl_ok and shape and (g1.ifs or g2.ifs):
                    st_s = VIOLATION  # some existing seeds are left out of the comparison
            elif isinstance(e, ast.ListComp) and len(e.generators) == 1 and canon(e.generators[0].iter) == f"{d}.children":
                st_s = VIOLATION  # only the parent's own children
            elif isinstance(e, ast.ListComp) and len(e.generators) == 3 and all(isinstance(g.target, ast.Name) for g in e.generators):
                g0, g1, g2 = e.generators
                whole = re.fullmatch(re.escape(f"{tree_p}.") + r"_?levels(\[[^\]]*:[^\]]*\])?", canon(g0.iter, defs)) is not None
                if whole and canon(g1.iter) == g0.target.id and canon(g2.iter) == f"{g1.target.id}.children" and canon(e.elt) in (f"{g2.target.id}._sprout_seed.genome", f"{g2.target.id}.sprout_seed.genome") and not any(isinstance(x, ast.Name) and x.id == d for x in ast.walk(e)):
                    st_s = VIOLATION  # the seeds of EVERY level: a candidate equal to a seed of another level is rejected
        obs.append(ctx.ob("R10.6", f, sd[0] if sd else stores[0], status=st_s, detail="seed rows = seeds of every child of every deme on the parent's level" if st_s == OK else f"SkipSameSprout compares with `{norm(sd[0])[:90] if sd else '?'}`, not with the seeds of all existing demes of the target level", construct="seed-rows"))
    # the early `continue` only for parents without children
    # normalised form: `if deme.children: <filter>` (an early `continue` for childless parents is inverted into this guard)
    guards = [n for n in loops[0].body if isinstance(n, ast.If) and any(x is stores[0] for x in ast.walk(n))]
    for c in guards:
        okc = any(cond_is(c.test, w) for w in (f"{d}.children", f"len({d}.children) > 0", f"len({d}.children) != 0", f"{d}.children != []")) and not c.orelse
        obs.append(ctx.ob("R10.6", f, c, status=OK if okc else INCONCLUSIVE, detail="parents without children are passed through unchanged" if okc else f"SkipSameSprout filters a parent only under `{norm(c.test)}`", construct="skip-cond"))
    if not guards:
        obs.append(ctx.ob("R10.6", f, loops[0], detail="every parent is filtered (no childless shortcut)", construct="skip-cond", trivial=True))
    return obs


RULES = [
    ("R10.1", r10_1, 8),
    ("R10.2", r10_2, 10),
    ("R10.3", r10_3, 2),
    ("R10.4", r10_4, 8),
    ("R10.5", r10_5, 7),
    ("R10.6", r10_6, 3),
]
