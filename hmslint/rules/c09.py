"""C09 — sprouts keep their distance from existing demes; centroids are current."""
from __future__ import annotations

import ast
import re

from ..cfg import typestate, witness_path
from ..core import INCONCLUSIVE, OK, VIOLATION, Ctx, bool_equiv, canon, is_self_attr, local_defs, parse_cond
from ..model import AnalysisError, body_walk, norm
from .common import is_history_append

CLAIM = """Decides the structural clauses: (R09.1) the reported centroid is a function of the *current* population on every
read — either the accessor recomputes it from current_population, or, if it memoises, a typestate analysis over every
history-appending function of every concrete deme shows that no stale memo survives an append; (R09.2) the accessor hands
current_population to compute_centroid, which is the per-coordinate (axis 0) mean of the genomes of exactly the population
passed; (R09.3) FarEnough / NBC_FarEnough read the sibling's `centroid` accessor, quantify over every configured sibling
(active ones; or all unless check_only_active) of the target level, keep a candidate only if the strict `>` predicate holds
for every one of them, with threshold min_distance resp. factor x the parent's own nbc_mean_distance; (R09.4) the NBC
generator exports the mean distance of the same clustering it takes the candidates from; (R09.5) no deme class overrides
the accessor. Round-3/4 extensions: sibling filters that drop sleeping demes, a threshold read through a leaked loop variable, lazily evaluated generator expressions in the sibling loop, positional literals that land on the wrong constructor parameter."""
NOTE = """Floating-point values of norms and means are not evaluated; numpy.linalg.norm / numpy.mean semantics are trusted."""
TECHNIQUE = "memo typestate over CFGs + def-use provenance and comparator/quantifier shape rules on the filter classes (ast)"
EXPLANATION = """
R09.1 decides currency of the centroid: with a memo field M the automaton {FRESH, STALE} is run over every function of every
concrete deme class that appends to the history (append: -> STALE; `self.M = None`: -> FRESH; reading the accessor in STALE
or leaving the function in STALE is a witnessed violation); without a memo the return value must derive from
current_population. R09.3 matches the filter loops structurally: sibling comprehension over tree.levels[deme.level + 1] with
the configured activity filter, a for-loop over those siblings that re-filters the candidate list with a predicate whose
centroid argument is `<sibling>.centroid`, strict comparator `>` in the predicate helper, and the write-back of the filtered
list to the same parent's candidates.
"""
ASSUMPTIONS = ["numpy.mean(axis=0) / numpy.linalg.norm semantics"]


def _memo_fields(getter) -> list[str]:
    out = []
    sn = getter.self_name()
    for n in body_walk(getter.node):
        tg = n.targets if isinstance(n, ast.Assign) else [n.target] if isinstance(n, (ast.AugAssign, ast.AnnAssign)) else []
        for t in tg:
            if is_self_attr(t, None, sn):
                out.append(t.attr)
    return out


def r09_1(ctx: Ctx):
    """R09.1 the centroid accessor is current on every read (no stale memo can survive a history append)."""
    base = ctx.prog.cls("AbstractDeme")
    getter = base.methods.get("centroid")
    if getter is None or not getter.is_property:
        raise AnalysisError("AbstractDeme.centroid accessor vanished")
    sn = getter.self_name()
    memo = _memo_fields(getter)
    obs = []
    if not memo:
        rets = [n for n in body_walk(getter.node) if isinstance(n, ast.Return)]
        import copy

        from ..core import _Subst

        gdefs = local_defs(getter)
        rvals = [_Subst(gdefs, 4).visit(copy.deepcopy(r.value)) for r in rets if r.value is not None]
        ok = bool(rvals) and all(any(is_self_attr(x, "current_population", sn) for x in ast.walk(v)) for v in rvals)
        other = any(is_self_attr(x, None, sn) and x.attr in ("_history", "all_individuals", "_centroid", "best_individual", "best_current_individual", "_sprout_seed") for v in rvals for x in ast.walk(v))
        obs.append(ctx.ob("R09.1", getter, getter.node, status=OK if ok else VIOLATION if (other or not rvals) else INCONCLUSIVE, detail="centroid recomputed from current_population on every access" if ok else f"the centroid accessor does not derive its value from current_population: `{norm(rets[0].value) if rets else '?'}`", construct="centroid-getter"))
        # no leftover cache read anywhere
        for ci in ctx.concrete_demes():
            f = __import__("hmslint.rules.common", fromlist=["step_method"]).step_method(ctx, ci)
            obs.append(ctx.ob("R09.1", f, f.node, detail=f"{ci.name}: no memo to invalidate", construct=f"{ci.name}:no-memo", trivial=True))
        return obs
    M = memo[0]
    demes = ctx.concrete_demes()
    for ci in demes:
        funcs = [m for m in ci.methods.values()] + [m for c in ctx.prog.mro(ci)[1:] for m in c.methods.values() if m.name not in ci.methods and c is not base]
        for f in funcs:
            if f.is_property or not _appends_transitively(ctx, ci, f.name):
                continue
            init_states = ["EMPTY"] if f.name == "__init__" else ["EMPTY", "CURRENT"]
            viol = []
            exits = set()
            for st in init_states:
                exits |= _memo_transform(ctx, ci, f, st, M, viol, ())
            for n, s, msg, ff in viol[:1]:
                obs.append(ctx.ob("R09.1", ff, n.stmt, status=VIOLATION, detail=f"{ci.name}: {msg}", construct=f"{ci.name}.{f.name}:stale-read"))
            if "STALE" in exits:
                obs.append(ctx.ob("R09.1", f, f.node, status=VIOLATION, detail=f"{ci.name}.{f.name} appends a new generation to the history but leaves the centroid memo `{M}` set: later reads of `centroid` return the mean of an older population", construct=f"{ci.name}.{f.name}:stale-exit"))
            elif not viol:
                obs.append(ctx.ob("R09.1", f, f.node, detail=f"{ci.name}.{f.name}: memo reset after every history append", construct=f"{ci.name}.{f.name}:memo"))
    return obs


def _memo_transform(ctx, ci, f, state, M, viol, stack):
    """Exit states of the memo automaton {EMPTY, CURRENT, STALE} for method f of class ci entered in `state`."""
    if f.qualname in stack:
        return {state}
    fsn = f.self_name() or "self"
    cfg = ctx.cfg(f)

    def helpers(n):
        out = []
        if n.ast is None:
            return out
        for c in ast.walk(n.ast):
            if isinstance(c, ast.Call) and isinstance(c.func, ast.Attribute) and isinstance(c.func.value, ast.Name) and c.func.value.id == fsn and c.func.attr != "log":
                m = ctx.prog.lookup_method(ci, c.func.attr)
                if m is not None and _appends_transitively(ctx, ci, c.func.attr):
                    out.append(m)
        return out

    def node_fn(n, s):
        if n.kind == "stmt" and is_history_append(n.ast, fsn):
            return ["STALE" if s in ("CURRENT", "STALE") else "EMPTY"]
        hs = helpers(n)
        if hs:
            cur = {s}
            for m in hs:
                nxt = set()
                for x in cur:
                    nxt |= _memo_transform(ctx, ci, m, x, M, viol, stack + (f.qualname,))
                cur = nxt
            return sorted(cur)
        if n.kind == "stmt" and isinstance(n.ast, ast.Assign) and any(is_self_attr(t, M, fsn) for t in n.ast.targets) and isinstance(n.ast.value, ast.Constant) and n.ast.value.value is None:
            return ["EMPTY"]
        if n.ast is not None and _reads_centroid(ctx, f, n.ast, fsn):
            if s == "STALE":
                viol.append((n, s, f"the centroid is read (line {n.lineno}) while its memo `{M}` is stale: history appended, memo not reset", f))
                return [s]
            return ["CURRENT"]
        return [s]

    at, exits, parent = typestate(cfg, [state], node_fn)
    return set(exits)


def _appends_transitively(ctx, ci, meth, _seen=None):
    _seen = _seen or set()
    m = ctx.prog.lookup_method(ci, meth)
    if m is None or m.qualname in _seen:
        return False
    _seen.add(m.qualname)
    sn = m.self_name() or "self"
    for n in body_walk(m.node):
        if isinstance(n, ast.Expr) and is_history_append(n, sn):
            return True
        if isinstance(n, ast.Call) and isinstance(n.func, ast.Attribute) and isinstance(n.func.value, ast.Name) and n.func.value.id == sn:
            if _appends_transitively(ctx, ci, n.func.attr, _seen):
                return True
    return False


def _reads_centroid(ctx, f, node, selfn):
    for x in ast.walk(node):
        if is_self_attr(x, "centroid", selfn) or is_self_attr(x, "mean", selfn):
            return True
        if isinstance(x, ast.Call) and isinstance(x.func, ast.Attribute) and is_self_attr(x.func, "log", selfn):
            return True
    return False


def r09_2(ctx: Ctx):
    """R09.2 centroid = mean over axis 0 of the genomes of the population passed, and the accessor passes current_population."""
    obs = []
    base = ctx.prog.cls("AbstractDeme")
    getter = base.methods["centroid"]
    sn = getter.self_name()
    calls = [c for c in body_walk(getter.node) if isinstance(c, ast.Call) and norm(c.func).endswith("compute_centroid")]
    if calls:
        gdefs = local_defs(getter)
        argt = [canon(c.args[0], gdefs) if len(c.args) == 1 else "?" for c in calls]
        ok = all(a == f"{sn}.current_population" for a in argt)
        definite = any(a.startswith(f"{sn}.") and a != f"{sn}.current_population" for a in argt)
        obs.append(ctx.ob("R09.2", getter, calls[0], status=OK if ok else VIOLATION if definite else INCONCLUSIVE, detail="compute_centroid(self.current_population)" if ok else f"the accessor computes the centroid of `{norm(calls[0].args[0]) if calls[0].args else '?'}`, not of the current population"))
        cc = ctx.prog.func("pyhms.demes.abstract_deme", "compute_centroid")
        obs.extend(_check_mean(ctx, cc, cc.params()[0]))
    else:
        obs.extend(_check_mean(ctx, getter, None))
    return obs


def _value_exprs(e):
    """The non-None value expressions a (possibly conditional) return expression can yield."""
    if isinstance(e, ast.IfExp):
        return _value_exprs(e.body) + _value_exprs(e.orelse)
    if isinstance(e, ast.Constant) and e.value is None:
        return []
    return [e]


def _check_mean(ctx, fn, param):
    obs = []
    rets = [r for r in body_walk(fn.node) if isinstance(r, ast.Return) and r.value is not None and not (isinstance(r.value, ast.Constant) and r.value.value is None)]
    if not rets:
        return [ctx.ob("R09.2", fn, fn.node, status=INCONCLUSIVE, detail="no value-returning path", construct="mean")]
    defs = local_defs(fn)
    import copy

    from ..core import _Subst

    for r in rets:
        for v0 in _value_exprs(r.value):
            v = _Subst(defs, 4).visit(copy.deepcopy(v0))
            st = INCONCLUSIVE
            why = f"`{norm(v0)[:80]}` is not a recognised per-coordinate mean"
            if isinstance(v, ast.Call):
                name = norm(v.func)
                last = name.split(".")[-1]
                is_np = name.split(".")[0] in ("np", "numpy")
                if last in ("mean", "average") and (v.args if is_np else isinstance(v.func, ast.Attribute)):
                    src = v.args[0] if is_np else v.func.value
                    axis = next((k.value for k in v.keywords if k.arg == "axis"), (v.args[1] if len(v.args) > 1 else None) if is_np else (v.args[0] if v.args else None))
                    if axis is None or not (isinstance(axis, ast.Constant) and axis.value == 0):
                        st = VIOLATION if (axis is None or isinstance(axis, ast.Constant)) else INCONCLUSIVE
                        why = f"mean taken with axis={norm(axis) if axis is not None else 'None'} (must be axis=0: per coordinate, over individuals)"
                    elif any(k.arg == "weights" for k in v.keywords):
                        st, why = VIOLATION, "a weighted average is not the mean of the population"
                    else:
                        txt = norm(src)
                        names = {x.id for x in ast.walk(src) if isinstance(x, ast.Name)}
                        over_param = param is None or param in names
                        genomes = ".genome" in txt
                        sliced = any(isinstance(x, ast.Subscript) and isinstance(x.slice, ast.Slice) and (param is None or (isinstance(x.value, ast.Name) and x.value.id == param)) for x in ast.walk(src))
                        filtered = any(isinstance(x, ast.comprehension) and x.ifs for x in ast.walk(src))
                        if over_param and genomes and not sliced and not filtered:
                            st = OK
                        elif sliced or filtered:
                            st, why = VIOLATION, f"the mean ranges over `{txt[:70]}`, not over the genomes of the whole population passed"
                        else:
                            why = f"cannot tell whether `{txt[:70]}` are the genomes of the whole population passed"
                elif last in ("median", "max", "min", "sum"):
                    st, why = VIOLATION, f"`{norm(v0)[:80]}` is not the mean"
            obs.append(ctx.ob("R09.2", fn, r, status=st, detail="mean over axis 0 of the genomes of the population passed" if st == OK else why))
    return obs


def _conjuncts(conds):
    out = []
    for c in conds:
        if isinstance(c, ast.BoolOp) and isinstance(c.op, ast.And):
            out.extend(_conjuncts(c.values))
        else:
            out.append(c)
    return out


def _implies(a: ast.AST, b: ast.AST) -> bool | None:
    """a => b propositionally"""
    return bool_equiv(ast.BoolOp(op=ast.Or(), values=[ast.UnaryOp(op=ast.Not(), operand=a), b]), ast.Constant(value=True))


def _sibling_set_status(sd: ast.AST, tree_p: str, deme_v: str, selfn: str, want_filter: str, defs):
    """Classify the expression the filter iterates to get the siblings -> (status, text)."""
    import copy

    from ..core import _Subst

    # `S = <level>; if <flag>: S = [s for s in S if c]`  ==  [s for s in <level> if c or not <flag>]
    if isinstance(sd, ast.Name) and defs and len(defs.get(sd.id, [])) == 2:
        d0, d1 = defs[sd.id]
        base, comp = (d0, d1) if isinstance(d1, ast.ListComp) else (d1, d0)
        if isinstance(comp, ast.ListComp) and not isinstance(base, ast.ListComp) and len(comp.generators) == 1 and isinstance(comp.generators[0].iter, ast.Name) and comp.generators[0].iter.id == sd.id and comp.generators[0].ifs and getattr(comp, "_guard", None) is not None:
            g0 = comp.generators[0]
            cond_ = ast.BoolOp(op=ast.Or(), values=[g0.ifs[0] if len(g0.ifs) == 1 else ast.BoolOp(op=ast.And(), values=list(g0.ifs)), ast.UnaryOp(op=ast.Not(), operand=comp._guard)])
            sd = ast.ListComp(elt=comp.elt, generators=[ast.comprehension(target=g0.target, iter=base, ifs=[cond_], is_async=0)])
            ast.fix_missing_locations(sd)
            defs = {k: v for k, v in defs.items() if k != comp.generators[0].iter.id}
    e = _Subst(defs, 4).visit(copy.deepcopy(sd)) if defs else sd
    while isinstance(e, ast.Call) and norm(e.func) in ("list", "tuple") and len(e.args) == 1:
        e = e.args[0]
    conds, var, it = [], None, e
    if isinstance(e, ast.ListComp) and len(e.generators) == 1 and isinstance(e.generators[0].target, ast.Name) and norm(e.elt) == e.generators[0].target.id:
        g = e.generators[0]
        conds, var, it = list(g.ifs), g.target.id, g.iter
    elif isinstance(e, ast.Call) and norm(e.func) == "filter" and len(e.args) == 2 and isinstance(e.args[0], ast.Lambda) and len(e.args[0].args.args) == 1:
        conds, var, it = [e.args[0].body], e.args[0].args.args[0].arg, e.args[1]
    elif isinstance(e, (ast.ListComp, ast.GeneratorExp)):
        return INCONCLUSIVE, f"sibling set `{norm(sd)[:70]}` has an unrecognised shape"
    # the level the siblings live on
    if canon(it) in (f"{deme_v}.children", f"{deme_v}._children"):
        return VIOLATION, f"siblings are taken from `{norm(it)}`, the candidate's own parent's children only: active demes of the target level that were sprouted by other parents are not compared with"
    if not (isinstance(it, ast.Subscript) and norm(it.value) in (f"{tree_p}.levels", f"{tree_p}._levels")):
        return INCONCLUSIVE, f"cannot tell which demes `{norm(sd)[:70]}` ranges over"
    lvl = canon(it.slice)
    if lvl not in (f"{deme_v}.level+1", f"1+{deme_v}.level"):
        import re

        if re.fullmatch(re.escape(deme_v) + r"\.level([-+]\d+)?", lvl) or re.fullmatch(r"-?\d+", lvl):
            return VIOLATION, f"siblings are taken from {tree_p}.levels[{norm(it.slice)}], not from the target level {deme_v}.level + 1"
        return INCONCLUSIVE, f"cannot relate level index `{norm(it.slice)}` to {deme_v}.level + 1"
    want = parse_cond("S.is_active" if want_filter == "active" else f"S.is_active or not {selfn}.check_only_active")
    if not conds:
        return OK, "every deme of the target level (a superset of the configured siblings)"
    # `sibling in tree.active_demes`: the tree's listings hold (level number, deme) PAIRS, a deme is never an element of them
    for c_ in conds:
        for x in ast.walk(c_):
            if isinstance(x, ast.Compare) and len(x.ops) == 1 and isinstance(x.ops[0], (ast.In, ast.NotIn)) and isinstance(x.left, ast.Name) and x.left.id == var and isinstance(x.comparators[0], ast.Attribute) and norm(x.comparators[0].value) == tree_p and x.comparators[0].attr in ("active_demes", "all_demes", "active_non_leaves"):
                return VIOLATION, f"the siblings are selected by `{norm(x)}`: {tree_p}.{x.comparators[0].attr} lists (level number, deme) pairs, so a deme is never `in` it - the comparison list is empty and no candidate is compared with any centroid"
    from ..normalize import _subst

    actual = ast.BoolOp(op=ast.And(), values=[_subst(c, {var: ast.Name(id="S", ctx=ast.Load())}) for c in conds]) if len(conds) > 1 else _subst(conds[0], {var: ast.Name(id="S", ctx=ast.Load())})
    eq = bool_equiv(actual, want)
    if eq is True:
        return OK, "configured demes of the target level"
    if eq is None:
        return INCONCLUSIVE, "sibling filter too large to decide"
    if _implies(want, actual) is True:
        return OK, "a superset of the configured siblings"
    known = {"S.is_active", f"{selfn}.check_only_active"}
    atoms = set()
    from ..core import _bool_atoms

    _bool_atoms(actual, atoms)
    if atoms <= known:
        return VIOLATION, f"sibling activity filter is `{' and '.join(norm(c) for c in conds)}`; expected {'sibling.is_active' if want_filter == 'active' else 'sibling.is_active or not self.check_only_active'}: some configured sibling is not compared with"
    # a deme can be active and asleep at the same time (that is what hibernation is): the flag is independent of is_active
    if atoms <= known | {"S._hibernating"}:
        return VIOLATION, f"sibling filter is `{' and '.join(norm(c) for c in conds)}`: a sleeping deme is still active, yet candidates are not compared with its centroid"
    return INCONCLUSIVE, f"cannot decide whether the sibling filter `{' and '.join(norm(c) for c in conds)}` keeps every configured sibling"


def _inline_predicate_status(comp: ast.ListComp, sib: str, selfn: str, threshold_kind: str, nbc_thr: str):
    """The keep-condition of `[ind for ind in cur if <cond>]` read as a distance predicate: (status, why)."""
    ind = comp.generators[0].target.id if isinstance(comp.generators[0].target, ast.Name) else "?"
    conds = list(comp.generators[0].ifs)

    def positive(e, neg=False):
        """conjuncts of e in negation normal form (only and / not / or-under-not are opened)"""
        if isinstance(e, ast.UnaryOp) and isinstance(e.op, ast.Not):
            return positive(e.operand, not neg)
        if isinstance(e, ast.BoolOp) and ((isinstance(e.op, ast.And) and not neg) or (isinstance(e.op, ast.Or) and neg)):
            return [y for v in e.values for y in positive(v, neg)]
        if neg and isinstance(e, ast.Compare) and len(e.ops) == 1:
            inv = {ast.Lt: ast.GtE, ast.LtE: ast.Gt, ast.Gt: ast.LtE, ast.GtE: ast.Lt, ast.Is: ast.IsNot, ast.IsNot: ast.Is, ast.Eq: ast.NotEq, ast.NotEq: ast.Eq}.get(type(e.ops[0]))
            if inv is not None:
                return [ast.Compare(left=e.left, ops=[inv()], comparators=e.comparators)]
        return [ast.UnaryOp(op=ast.Not(), operand=e)] if neg else [e]

    conj = [y for c in conds for y in positive(c)]
    dist = [c for c in conj if isinstance(c, ast.Compare) and len(c.ops) == 1 and any(isinstance(x, ast.Call) and norm(x.func).split(".")[-1] == "norm" for x in ast.walk(c))]
    if len(dist) != 1:
        return INCONCLUSIVE, "no single distance comparison in the keep-condition"
    c = dist[0]
    l, r, op = c.left, c.comparators[0], type(c.ops[0])
    if not (isinstance(l, ast.Call) and norm(l.func).split(".")[-1] == "norm"):
        l, r, op = r, l, {ast.Lt: ast.Gt, ast.Gt: ast.Lt, ast.LtE: ast.GtE, ast.GtE: ast.LtE}.get(op, op)
    if not (isinstance(l, ast.Call) and norm(l.func).split(".")[-1] == "norm" and l.args and canon(l.args[0]) in (f"{ind}.genome-{sib}.centroid", f"{sib}.centroid-{ind}.genome")):
        return INCONCLUSIVE, f"the compared quantity `{norm(l)[:60]}` is not the norm of (candidate genome - sibling centroid)"
    thr = canon(r)
    thr_ok = thr == f"{selfn}.min_distance" if threshold_kind == "abs" else thr in (f"{selfn}.min_distance_factor*{nbc_thr}", f"{nbc_thr}*{selfn}.min_distance_factor")
    if not thr_ok:
        return INCONCLUSIVE, f"threshold `{norm(r)[:60]}` not recognised"
    if op is ast.Gt:
        return OK, ""
    if op is ast.GtE:
        return VIOLATION, f"the keep-condition amounts to `{norm(l)[:50]} >= {norm(r)[:40]}` (written as `not ... <`): a candidate EXACTLY at the threshold distance is accepted, the property demands strictly farther"
    return VIOLATION, f"the keep-condition `{norm(c)[:80]}` keeps candidates that are not farther than the threshold"


def _far_enough_filter(ctx: Ctx, cls_name: str, helper_name: str, want_filter: str, threshold_kind: str):
    obs = []
    ci = ctx.prog.cls(cls_name)
    f = ci.methods.get("__call__")
    if f is None:
        raise AnalysisError(f"{cls_name}.__call__ vanished")
    selfn = f.self_name()
    cand_p, tree_p = f.params()[1], f.params()[2]
    # the distance predicate may have been renamed / inverted (`_is_too_close`, used as `not self._is_too_close(..)`): take the
    # one private method of the class that __call__ applies to (candidate, <sibling>.centroid)
    helper_inverted = False
    if helper_name not in ci.methods:
        cands_h = {}
        from ..core import parents_map as _pm

        par_h = _pm(f.node)
        for c in body_walk(f.node):
            if isinstance(c, ast.Call) and isinstance(c.func, ast.Attribute) and is_self_attr(c.func, None, selfn) and c.func.attr in ci.methods and any(isinstance(a, ast.Attribute) and a.attr == "centroid" for a in c.args):
                cands_h.setdefault(c.func.attr, []).append(isinstance(par_h.get(id(c)), ast.UnaryOp) and isinstance(par_h[id(c)].op, ast.Not))
        if len(cands_h) == 1:
            helper_name, negs = next(iter(cands_h.items()))
            if all(negs):
                helper_inverted = True
            elif any(negs):
                return [ctx.ob("R09.3", f, f.node, status=INCONCLUSIVE, detail=f"{cls_name}: `{helper_name}` is used both plainly and negated", construct="helper")]
    # outer loop over parents
    outer = [n for n in body_walk(f.node) if isinstance(n, ast.For) and norm(n.iter) in (f"{cand_p}.keys()", cand_p, f"list({cand_p}.keys())", f"list({cand_p})")]
    if len(outer) > 1:
        # loops that only assert a precondition are not the filter
        outer = [n for n in outer if not all(isinstance(b, (ast.Assert, ast.Pass)) for b in n.body)]
    if len(outer) != 1:
        return [ctx.ob("R09.3", f, f.node, status=INCONCLUSIVE, detail=f"{cls_name}: cannot find the loop over candidate parents", construct="outer-loop")]
    deme_v = outer[0].target.id if isinstance(outer[0].target, ast.Name) else None
    body_defs = {}
    for n in ast.walk(outer[0]):
        if isinstance(n, ast.Assign) and len(n.targets) == 1 and isinstance(n.targets[0], ast.Name):
            body_defs.setdefault(n.targets[0].id, []).append(n)
    vdefs = {k: [d.value for d in v] for k, v in body_defs.items()}
    # an assignment made under `if <flag>:` remembers its guard (used for conditionally narrowed sibling lists)
    for n in ast.walk(outer[0]):
        if isinstance(n, ast.If) and not n.orelse:
            for b in n.body:
                if isinstance(b, ast.Assign) and isinstance(b.value, ast.ListComp):
                    b.value._guard = n.test
    cand_list = f"{cand_p}[{deme_v}].individuals"

    def is_helper_call(c):
        return isinstance(c, ast.Call) and isinstance(c.func, ast.Attribute) and is_self_attr(c.func, helper_name, selfn)

    projected = set()  # loop variables that hold a sibling's centroid (loop over [s.centroid for s in siblings])

    def check_pred_call(c, ind, sib, where):
        args = [canon(a, vdefs) for a in c.args] + [None] * 3
        kw = {k.arg: canon(k.value, vdefs) for k in c.keywords if k.arg}
        h = ci.methods.get(helper_name)
        hp = h.params()[1:] if h is not None else []
        for i, pn in enumerate(hp[:3]):
            if args[i] is None and pn in kw:
                args[i] = kw[pn]
        ok_args = args[0] == ind and (args[1] == f"{sib}.centroid" or (sib in projected and args[1] == sib))
        if ok_args:
            st = OK
        elif args[0] == ind and args[1] is not None and args[1].startswith(f"{sib}.") and args[1] != f"{sib}.centroid":
            st = VIOLATION  # another attribute of the sibling (a stale cache field, the seed, ...)
        elif args[0] == ind and args[1] is not None and (args[1].startswith(f"{deme_v}.") or re.search(r"\._centroid\b", args[1])):
            st = VIOLATION
        else:
            st = INCONCLUSIVE
        obs.append(ctx.ob("R09.3", f, c, status=st, detail=f"{cls_name}: distance measured between the candidate and the sibling's centroid accessor" if st == OK else f"{cls_name}: the distance predicate is applied to ({', '.join(str(a) for a in args[:2])}) instead of (candidate, {sib}.centroid)", construct="pred-args"))
        if threshold_kind == "nbc":
            want_thr = f"{cand_p}[{deme_v}].features.nbc_mean_distance"
            if args[2] == want_thr:
                st = OK
            elif args[2] is not None and args[2].endswith(".features.nbc_mean_distance"):
                st = VIOLATION
            else:
                st = INCONCLUSIVE
            obs.append(ctx.ob("R09.3", f, c, status=st, detail=f"{cls_name}: threshold scaled by the parent's own nbc_mean_distance" if st == OK else f"{cls_name}: the mean nearest-better distance passed is `{args[2]}`, not that of the candidate's own parent", construct="thr-arg"))

    def check_extra(o, sib):
        t = canon(o, vdefs)
        if t not in (f"{sib}.centroidisnotNone",):
            obs.append(ctx.ob("R09.3", f, o, status=INCONCLUSIVE, detail=f"{cls_name}: extra conjunct `{norm(o)}` in the candidate filter", construct="extra-conjunct"))

    # sibling loop
    sib_loops = [n for n in ast.walk(outer[0]) if isinstance(n, ast.For) and n is not outer[0]]
    hits = 0
    inline_verdicts = []
    for sl in sib_loops:
        if not isinstance(sl.target, ast.Name):
            continue
        sib = sl.target.id
        # re-filter statements in the sibling loop body
        refilters = [n for n in ast.walk(sl) if isinstance(n, ast.Assign) and len(n.targets) == 1 and isinstance(n.targets[0], ast.Name) and isinstance(n.value, ast.ListComp) and any(is_helper_call(x) for x in ast.walk(n.value))]
        if not refilters:
            # the predicate written out inside the comprehension (a renamed helper that the normaliser inlined)
            inl = [n for n in ast.walk(sl) if isinstance(n, ast.Assign) and len(n.targets) == 1 and isinstance(n.targets[0], ast.Name) and isinstance(n.value, ast.ListComp) and len(n.value.generators) == 1 and norm(n.value.generators[0].iter) == n.targets[0].id and any(isinstance(x, ast.Attribute) and x.attr == "centroid" and isinstance(x.value, ast.Name) and x.value.id == sl.target.id for c_ in n.value.generators[0].ifs for x in ast.walk(c_))]
            if len(inl) == 1:
                st_i, why_i = _inline_predicate_status(inl[0].value, sl.target.id, selfn, threshold_kind, f"{cand_p}[{deme_v}].features.nbc_mean_distance")
                inline_verdicts.append((inl[0], st_i, why_i))
            continue
        hits += 1
        # `for sib in S: if c: <re-filter>` is the loop over [sib for sib in S if c]
        eff_iter, eff_body = sl.iter, sl.body
        it0 = sl.iter
        if isinstance(it0, ast.Name) and len(vdefs.get(it0.id, [])) == 1:
            it0 = vdefs[it0.id][0]
        if isinstance(it0, (ast.ListComp, ast.GeneratorExp)) and len(it0.generators) == 1 and isinstance(it0.generators[0].target, ast.Name) and isinstance(it0.elt, ast.Attribute) and it0.elt.attr == "centroid" and isinstance(it0.elt.value, ast.Name) and it0.elt.value.id == it0.generators[0].target.id:
            # the loop runs over the siblings' centroids, read once per sibling: same sibling set, projected
            projected.add(sib)
            eff_iter = ast.ListComp(elt=ast.Name(id=it0.generators[0].target.id, ctx=ast.Load()), generators=it0.generators)
            ast.copy_location(eff_iter, sl.iter)
            ast.fix_missing_locations(eff_iter)
        guards = []
        while len(eff_body) == 1 and isinstance(eff_body[0], ast.If) and not eff_body[0].orelse and not isinstance(sl.iter, (ast.ListComp, ast.GeneratorExp)):
            guards.append(eff_body[0].test)
            eff_body = eff_body[0].body
        if guards:
            eff_iter = ast.ListComp(elt=ast.Name(id=sib, ctx=ast.Load()), generators=[ast.comprehension(target=ast.Name(id=sib, ctx=ast.Store()), iter=sl.iter, ifs=guards, is_async=0)])
            ast.copy_location(eff_iter, sl.iter)
            ast.fix_missing_locations(eff_iter)
        # (a) sibling set provenance
        st, why = _sibling_set_status(eff_iter, tree_p, deme_v, selfn, want_filter, vdefs)
        obs.append(ctx.ob("R09.3", f, sl.iter, status=st, detail=f"{cls_name}: siblings = {why}" if st == OK else f"{cls_name}: {why}", construct="siblings"))
        # (b) the re-filter: [ind for ind in <cur> if pred(ind, sib.centroid, ...)], assigned back to <cur>
        for rf in refilters:
            comp = rf.value
            cur = rf.targets[0].id
            g = comp.generators[0]
            shape_ok = len(comp.generators) == 1 and isinstance(g.target, ast.Name) and norm(comp.elt) == g.target.id and g.ifs
            if not shape_ok:
                obs.append(ctx.ob("R09.3", f, rf, status=INCONCLUSIVE, detail=f"{cls_name}: candidate re-filter has an unrecognised shape", construct="refilter"))
                continue
            if norm(g.iter) != cur:
                restart = canon(g.iter, vdefs) == cand_list
                obs.append(ctx.ob("R09.3", f, rf, status=VIOLATION if restart else INCONCLUSIVE, detail=f"{cls_name}: every sibling re-filters `{norm(g.iter)}` instead of the running list `{cur}`: only the last sibling counts" if restart else f"{cls_name}: candidate re-filter has an unrecognised shape", construct="refilter"))
                continue
            if rf not in eff_body:
                obs.append(ctx.ob("R09.3", f, rf, status=INCONCLUSIVE, detail=f"{cls_name}: the re-filter is nested in further control flow inside the sibling loop", construct="refilter"))
                continue
            ind = g.target.id
            if len(g.ifs) == 1 and isinstance(g.ifs[0], ast.BoolOp) and isinstance(g.ifs[0].op, ast.Or):
                obs.append(ctx.ob("R09.3", f, rf, status=VIOLATION if any(is_helper_call(v) for v in g.ifs[0].values) else INCONCLUSIVE, detail=f"{cls_name}: a candidate is kept if the distance test OR something else holds: `{norm(g.ifs[0])}`", construct="refilter-pred"))
                continue
            conj = _conjuncts(g.ifs)
            if helper_inverted:
                # `not self._is_too_close(..)` is the positive application of the (inverted) predicate
                conj = [c.operand if (isinstance(c, ast.UnaryOp) and isinstance(c.op, ast.Not) and is_helper_call(c.operand)) else c for c in conj]
            calls = [c for c in conj if is_helper_call(c)]
            others = [c for c in conj if c not in calls]
            if len(calls) != 1:
                neg = [c for c in conj if isinstance(c, ast.UnaryOp) and isinstance(c.op, ast.Not) and is_helper_call(c.operand)]
                obs.append(ctx.ob("R09.3", f, rf, status=VIOLATION if neg else INCONCLUSIVE, detail=f"{cls_name}: the candidate filter does not apply the distance predicate `{helper_name}` positively (keeps `{' and '.join(norm(c) for c in conj)}`)", construct="refilter-pred"))
                continue
            check_pred_call(calls[0], ind, sib, rf)
            for o in others:
                check_extra(o, sib)
        # (c) initial value and write-back
        cur = refilters[0].targets[0].id
        init = [d for d in body_defs.get(cur, []) if d not in refilters]
        wb = [n for n in ast.walk(outer[0]) if isinstance(n, ast.Assign) and canon(n.targets[0], vdefs) == cand_list]
        if len(init) == 1 and canon(init[0].value, vdefs) == cand_list and len(wb) >= 1 and all(norm(w.value) == cur for w in wb) and any(w in outer[0].body for w in wb):
            st = OK
        elif not wb:
            st = VIOLATION
        elif len(init) == 1 and isinstance(init[0].value, (ast.List, ast.Subscript)) and (isinstance(init[0].value, ast.List) or (isinstance(init[0].value.slice, ast.Slice) and canon(init[0].value.value, vdefs) == cand_list)):
            st = VIOLATION  # starts from an empty list / a slice of the candidates
        else:
            st = INCONCLUSIVE
        obs.append(ctx.ob("R09.3", f, init[0] if init else sl, status=st, detail=f"{cls_name}: candidates filtered against every sibling in turn and written back" if st == OK else f"{cls_name}: the filtered list is not (initialised from / written back to) {cand_list} after the loop over all siblings", construct="init-writeback"))
        # quantifier: no early exit from the sibling loop
        early = [n for n in ast.walk(sl) if isinstance(n, (ast.Break, ast.Return))]
        conts = [n for n in ast.walk(sl) if isinstance(n, ast.Continue)]
        guards = [n for n in eff_body if isinstance(n, ast.If) and any(r in ast.walk(n) for r in refilters)]
        if early:
            # leaving the loop once NO candidate is left loses nothing (every remaining comparison would filter an empty list)
            from ..core import parents_map

            par_ = parents_map(sl)
            cur_name = refilters[0].targets[0].id if refilters else None

            def harmless(b):
                q = par_.get(id(b))
                # `<cur> = []` immediately before the break: nothing is left, the remaining siblings cannot bring anything back
                if isinstance(b, ast.Break) and isinstance(q, (ast.If, ast.For)) and cur_name is not None:
                    blk = q.body if b in q.body else q.orelse
                    k_ = blk.index(b) if b in blk else -1
                    if k_ > 0 and isinstance(blk[k_ - 1], ast.Assign) and len(blk[k_ - 1].targets) == 1 and norm(blk[k_ - 1].targets[0]) == cur_name and isinstance(blk[k_ - 1].value, ast.List) and not blk[k_ - 1].value.elts:
                        return True
                if not (isinstance(q, ast.If) and b in q.body and len(q.body) == 1 and isinstance(b, ast.Break)):
                    return False
                t_ = canon(q.test)
                return cur_name is not None and t_ in (f"not{cur_name}", f"len({cur_name})==0", f"{cur_name}==[]", f"notlen({cur_name})")

            if not all(harmless(b) for b in early):
                guarded = all(isinstance(par_.get(id(b)), ast.If) for b in early)
                obs.append(ctx.ob("R09.3", f, early[0], status=INCONCLUSIVE if guarded and not any(isinstance(b, ast.Return) for b in early) and not any(is_helper_call(x) for b in early for x in ast.walk(par_.get(id(b)).test)) and False else VIOLATION, detail=f"{cls_name}: the loop over siblings can stop early: candidates are not compared with every sibling", construct="early-exit"))
        if conts:
            obs.append(ctx.ob("R09.3", f, conts[0], status=INCONCLUSIVE, detail=f"{cls_name}: some siblings may be skipped in the distance loop", construct="sibling-skip"))
        for gd in guards:
            obs.append(ctx.ob("R09.3", f, gd, status=INCONCLUSIVE, detail=f"{cls_name}: siblings are compared only under `{norm(gd.test)}`", construct="sibling-skip"))
    if hits == 0 and len(inline_verdicts) == 1 and inline_verdicts[0][1] in (OK, VIOLATION) and helper_name not in ci.methods:
        n_, st_i, why_i = inline_verdicts[0]
        obs.append(ctx.ob("R09.3", f, n_, status=st_i, detail=f"{cls_name}: a candidate is kept iff it is strictly farther than the threshold from the sibling's centroid (predicate written inline)" if st_i == OK else f"{cls_name}: {why_i}", construct="predicate"))
        if st_i == VIOLATION:
            return obs
    if hits == 0:
        # lazily chained generator expressions: `cur = (i for i in cur if pred(i, sib.centroid))` inside the sibling loop and
        # `list(cur)` after it. A generator evaluates its condition when it is consumed, i.e. after the loop has ended, when
        # the loop variable holds the LAST sibling: every stage tests against that one sibling only.
        for sl in sib_loops:
            if not isinstance(sl.target, ast.Name):
                continue
            gens = [n for n in ast.walk(sl) if isinstance(n, ast.Assign) and len(n.targets) == 1 and isinstance(n.targets[0], ast.Name) and isinstance(n.value, ast.GeneratorExp) and any(is_helper_call(x) for x in ast.walk(n.value))]
            for gn in gens:
                lazy_reads = any(isinstance(x, ast.Name) and x.id == sl.target.id for part in ([gn.value.elt] + [c for g_ in gn.value.generators for c in g_.ifs] + [g_.iter for g_ in gn.value.generators[1:]]) for x in ast.walk(part))
                consumed_in_loop = any(isinstance(c, ast.Call) and norm(c.func) in ("list", "tuple", "sorted", "set") and c.args and norm(c.args[0]) == gn.targets[0].id for c in ast.walk(sl))
                if lazy_reads and not consumed_in_loop:
                    obs.append(ctx.ob("R09.3", f, gn, status=VIOLATION, detail=f"{cls_name}: `{norm(gn)[:90]}` is a generator expression created inside the loop over siblings and consumed after it: its condition is evaluated lazily, when `{sl.target.id}` is bound to the LAST sibling, so every stage of the chain tests the distance to that one deme and candidates close to the other siblings pass", construct="lazy-generator"))
                    hits = -1
        if hits == -1:
            return obs
    if hits == 0:
        # single-comprehension form: [ind for ind in cands if all(pred(ind, s.centroid) for s in siblings)]
        quant = [c for c in ast.walk(outer[0]) if isinstance(c, ast.Call) and norm(c.func) in ("all", "any") and len(c.args) == 1 and isinstance(c.args[0], (ast.GeneratorExp, ast.ListComp)) and any(is_helper_call(x) for x in ast.walk(c))]
        if quant and norm(quant[0].func) == "any" and is_helper_call(quant[0].args[0].elt):
            obs.append(ctx.ob("R09.3", f, quant[0], status=VIOLATION, detail=f"{cls_name}: a candidate is kept when it is far from SOME sibling (`any(...)`) instead of from every sibling", construct="existential"))
        elif quant and norm(quant[0].func) == "all" and len(quant[0].args[0].generators) == 1 and isinstance(quant[0].args[0].generators[0].target, ast.Name):
            ge = quant[0].args[0]
            sib = ge.generators[0].target.id
            hits = 1
            st, why = _sibling_set_status(ge.generators[0].iter if not ge.generators[0].ifs else ast.ListComp(elt=ast.Name(id=sib, ctx=ast.Load()), generators=ge.generators), tree_p, deme_v, selfn, want_filter, vdefs)
            obs.append(ctx.ob("R09.3", f, ge, status=st, detail=f"{cls_name}: siblings = {why}" if st == OK else f"{cls_name}: {why}", construct="siblings"))
            # the enclosing candidate comprehension
            encl = [n for n in ast.walk(outer[0]) if isinstance(n, ast.ListComp) and any(x is quant[0] for x in ast.walk(n))]
            if len(encl) == 1 and len(encl[0].generators) == 1 and isinstance(encl[0].generators[0].target, ast.Name) and norm(encl[0].elt) == encl[0].generators[0].target.id and canon(encl[0].generators[0].iter, vdefs) == cand_list:
                ind = encl[0].generators[0].target.id
                pc = _conjuncts([ge.elt])
                calls = [c for c in pc if is_helper_call(c)]
                if len(calls) == 1:
                    check_pred_call(calls[0], ind, sib, ge)
                    for o in pc:
                        if o is not calls[0]:
                            check_extra(o, sib)
                else:
                    obs.append(ctx.ob("R09.3", f, ge, status=INCONCLUSIVE, detail=f"{cls_name}: quantified predicate has an unrecognised shape", construct="refilter-pred"))
                wb = [n for n in ast.walk(outer[0]) if isinstance(n, ast.Assign) and canon(n.targets[0], vdefs) == cand_list]
                okwb = any(x is encl[0] for w in wb for x in ast.walk(w)) or any(isinstance(w.value, ast.Name) and any(x is encl[0] for d in vdefs.get(w.value.id, []) for x in ast.walk(d)) for w in wb)
                obs.append(ctx.ob("R09.3", f, encl[0], status=OK if okwb else VIOLATION if not wb else INCONCLUSIVE, detail=f"{cls_name}: candidates filtered against every sibling and written back" if okwb else f"{cls_name}: the filtered list is not written back to {cand_list}", construct="init-writeback"))
            else:
                obs.append(ctx.ob("R09.3", f, quant[0], status=INCONCLUSIVE, detail=f"{cls_name}: candidate filter has an unrecognised shape", construct="refilter"))
        else:
            obs.append(ctx.ob("R09.3", f, f.node, status=INCONCLUSIVE, detail=f"{cls_name}: found no loop over siblings that filters candidates", construct="sibling-loop"))
    elif hits > 1:
        obs.append(ctx.ob("R09.3", f, f.node, status=INCONCLUSIVE, detail=f"{cls_name}: found {hits} sibling loops that filter candidates (expected 1)", construct="sibling-loop"))
    # a list must not be modified while it is being iterated (elements after a removed one are skipped)
    for lp in [x for x in ast.walk(outer[0]) if isinstance(x, ast.For) and isinstance(x.iter, ast.Name)]:
        for c in ast.walk(lp):
            if isinstance(c, ast.Call) and isinstance(c.func, ast.Attribute) and c.func.attr in ("remove", "pop", "insert", "append", "clear") and isinstance(c.func.value, ast.Name) and c.func.value.id == lp.iter.id:
                obs.append(ctx.ob("R09.3", f, c, status=VIOLATION, detail=f"{cls_name}: `{norm(c)}` modifies `{lp.iter.id}` while the loop iterates over it: the element following a removed one is never tested, so a candidate closer than the threshold can survive", construct="mutate-while-iterating"))
    # (d) the predicate helper: strict `>` against the threshold
    h = ci.methods.get(helper_name)
    if h is None:
        obs.append(ctx.ob("R09.3", f, f.node, status=INCONCLUSIVE, detail=f"{cls_name}: predicate helper {helper_name} not found", construct="helper"))
        return obs
    hs = h.self_name()
    hdefs = local_defs(h)
    rets = [r for r in body_walk(h.node) if isinstance(r, ast.Return)]
    # a SQUARED length (dot(d, d), sum(d ** 2), d @ d) compared with the threshold itself: the filter then enforces the square
    # root of the configured distance
    import copy as _cp

    from ..core import _Subst as _Sb

    for r in rets:
        rv0 = _Sb(hdefs, 4).visit(_cp.deepcopy(r.value)) if r.value is not None else None
        while isinstance(rv0, ast.Call) and norm(rv0.func) in ("bool", "float") and len(rv0.args) == 1:
            rv0 = rv0.args[0]
        arms_ = [rv0]
        while any(isinstance(x, ast.IfExp) for x in arms_):
            arms_ = [y for x in arms_ for y in ([x.body, x.orelse] if isinstance(x, ast.IfExp) else [x])]
        for rv0 in arms_:
          if isinstance(rv0, ast.Compare) and len(rv0.ops) == 1:
              for a_, b_ in ((rv0.left, rv0.comparators[0]), (rv0.comparators[0], rv0.left)):
                  core = a_
                  while isinstance(core, ast.Call) and norm(core.func) in ("float", "np.float64") and len(core.args) == 1:
                      core = core.args[0]
                  squared = (isinstance(core, ast.Call) and norm(core.func).split(".")[-1] in ("dot", "inner", "vdot") and len(core.args) == 2 and canon(core.args[0]) == canon(core.args[1])) or (isinstance(core, ast.BinOp) and isinstance(core.op, ast.MatMult) and canon(core.left) == canon(core.right)) or (isinstance(core, ast.Call) and norm(core.func).split(".")[-1] == "sum" and any(isinstance(x, ast.BinOp) and ((isinstance(x.op, ast.Pow) and isinstance(x.right, ast.Constant) and x.right.value == 2) or (isinstance(x.op, ast.Mult) and canon(x.left) == canon(x.right))) for x in ast.walk(core)))
                  thr_sq = any(isinstance(x, ast.BinOp) and ((isinstance(x.op, ast.Pow) and isinstance(x.right, ast.Constant) and x.right.value == 2) or (isinstance(x.op, ast.Mult) and canon(x.left) == canon(x.right))) for x in ast.walk(b_)) or any(isinstance(x, ast.Call) and norm(x.func).split(".")[-1] == "square" for x in ast.walk(b_))
                  if squared and not thr_sq and any(is_self_attr(x, None, hs) and x.attr.startswith("min_distance") for x in ast.walk(b_)):
                      obs.append(ctx.ob("R09.3", h, r, status=VIOLATION, detail=f"{cls_name}: `{norm(r.value)[:90]}` compares the SQUARED distance with the threshold itself: candidates are accepted as soon as they are farther than the square root of the configured distance (identical only for a threshold of 1)", construct="predicate"))
                      return obs
    st = INCONCLUSIVE
    why = "predicate is not recognisable as `norm(candidate - centroid) > threshold`"
    rv = None
    if len(rets) > 1:
        # `if centroid is None: return <constant>` in front of the comparison is the old `centroid is not None and ..` guard
        from ..core import parents_map as _pm2

        par2 = _pm2(h.node)
        main_r = [r for r in rets if not (isinstance(r.value, ast.Constant) and isinstance(par2.get(id(r)), ast.If) and "None" in norm(par2[id(r)].test))]
        if len(main_r) == 1:
            rets = main_r
    if len(rets) == 1 and rets[0].value is not None:
        import copy

        from ..core import _Subst

        rv = _Subst(hdefs, 4).visit(copy.deepcopy(rets[0].value))
        if helper_inverted:
            rv = ast.UnaryOp(op=ast.Not(), operand=rv)
        if isinstance(rv, ast.UnaryOp) and isinstance(rv.op, ast.Not) and isinstance(rv.operand, ast.Compare) and len(rv.operand.ops) == 1:
            inv = {ast.Lt: ast.GtE, ast.LtE: ast.Gt, ast.Gt: ast.LtE, ast.GtE: ast.Lt}
            o = type(rv.operand.ops[0])
            if o in inv:
                rv = ast.Compare(left=rv.operand.left, ops=[inv[o]()], comparators=rv.operand.comparators)
    wrapped_all = False
    while isinstance(rv, ast.Call) and norm(rv.func) in ("np.all", "all", "bool", "numpy.all") and len(rv.args) == 1:
        wrapped_all = wrapped_all or norm(rv.func) != "bool"
        rv = rv.args[0]
    if isinstance(rv, ast.Compare) and len(rv.ops) == 1 and wrapped_all:
        # vectorised form: the helper receives all centroids at once
        l0 = rv.left if not isinstance(rv.ops[0], (ast.Lt, ast.LtE)) else rv.comparators[0]
        if isinstance(l0, ast.Call) and norm(l0.func).split(".")[-1] == "norm" and not any(k.arg == "axis" for k in l0.keywords) and len(l0.args) < 3:
            st, why = VIOLATION, f"`{norm(rets[0].value)[:90]}`: the norm is taken over the whole matrix of centroids at once (no axis): one number for all siblings instead of one distance per sibling"
            rv = None
        else:
            st, why = INCONCLUSIVE, "vectorised distance predicate: per-sibling distances are not analysed"
            rv = None
    if isinstance(rv, ast.Compare) and len(rv.ops) == 1:
        l, r, op = rv.left, rv.comparators[0], rv.ops[0]
        if isinstance(op, (ast.Lt, ast.LtE)):
            l, r, op = r, l, (ast.Gt() if isinstance(op, ast.Lt) else ast.GtE())
        ps = h.params()
        ind_p, cen_p = ps[1], ps[2]
        is_norm_call = isinstance(l, ast.Call) and norm(l.func).split(".")[-1] == "norm" and l.args
        is_norm = is_norm_call and canon(l.args[0]) in (f"{ind_p}.genome-{cen_p}", f"{cen_p}-{ind_p}.genome")
        ordv = (next((k.value for k in l.keywords if k.arg == "ord"), l.args[1] if len(l.args) > 1 else None)) if is_norm_call else None
        thr = canon(r)
        if threshold_kind == "abs":
            thr_ok = thr == f"{hs}.min_distance"
            thr_related = f"{hs}.min_distance" in thr
        else:
            thr_ok = len(ps) > 3 and thr in (f"{hs}.min_distance_factor*{ps[3]}", f"{ps[3]}*{hs}.min_distance_factor")
            thr_related = f"{hs}.min_distance_factor" in thr or (len(ps) > 3 and ps[3] in thr)
        if not isinstance(op, ast.Gt):
            if isinstance(op, ast.GtE) and (is_norm or not is_norm_call):
                st, why = VIOLATION, "the distance comparator is `>=` (must be strict `>`: a candidate exactly at the threshold is rejected)"
            elif is_norm_call and is_norm is False and isinstance(r, ast.Call):
                st, why = VIOLATION, f"the comparison `{norm(rets[0].value)}` keeps candidates that are closer than the threshold"
            else:
                st, why = INCONCLUSIVE, f"cannot orient the comparison `{norm(rets[0].value)}`"
        elif not is_norm_call and isinstance(r, ast.Call) and norm(r.func).split(".")[-1] == "norm":
            st, why = VIOLATION, f"`{norm(rets[0].value)}` keeps candidates whose distance is BELOW the threshold"
        elif not is_norm:
            st, why = INCONCLUSIVE, f"the compared quantity `{norm(l)}` is not recognisable as the norm of (candidate genome - centroid)"
        elif ordv is None:
            st, why = VIOLATION, "the configured norm order (norm_ord) is not used: distances are always Euclidean"
        elif canon(ordv) != f"{hs}.norm_ord":
            st, why = (VIOLATION if isinstance(ordv, ast.Constant) else INCONCLUSIVE), f"the norm order is `{norm(ordv)}`, not the configured norm_ord"
        elif not thr_ok:
            definite = isinstance(r, ast.Constant) or (thr_related and isinstance(r, ast.BinOp)) or (isinstance(r, ast.Attribute) and is_self_attr(r, None, hs))
            st, why = (VIOLATION if definite else INCONCLUSIVE), f"the threshold `{norm(r)}` is not the configured {'min_distance' if threshold_kind == 'abs' else 'min_distance_factor x mean nearest-better distance'}"
        else:
            st = OK
    obs.append(ctx.ob("R09.3", h, rets[0] if rets else h.node, status=st, detail=f"{cls_name}: strict `>` between ||candidate - centroid|| and the configured threshold" if st == OK else f"{cls_name}: {why}", construct="predicate"))
    return obs


def r09_3(ctx: Ctx):
    """R09.3 FarEnough / NBC_FarEnough: sibling set, accessor, universal quantifier, strict comparator, threshold."""
    return _far_enough_filter(ctx, "FarEnough", "_is_far_enough", "active", "abs") + _far_enough_filter(ctx, "NBC_FarEnough", "_is_nbc_far_enough", "active-or-all", "nbc")


def _resolve1(e, defs, hops=5):
    while isinstance(e, ast.Name) and e.id in defs and len(defs[e.id]) == 1 and hops > 0 and not isinstance(defs[e.id][0], ast.AugAssign):
        e = defs[e.id][0]
        hops -= 1
    return e


def r09_4(ctx: Ctx):
    """R09.4 NBC generators export the mean distance of the same clustering (of deme.current_population) they take candidates from."""
    obs = []
    for cname in ("NBC_Generator", "NBCGeneratorWithLocalMethod"):
        ci = ctx.prog.cls(cname)
        f = ci.methods["__call__"]
        defs = local_defs(f)
        n_sites = 0
        for dc in body_walk(f.node):
            if not (isinstance(dc, ast.Call) and norm(dc.func) == "DemeCandidates"):
                continue
            feat = _resolve1(next((k.value for k in dc.keywords if k.arg == "features"), dc.args[1] if len(dc.args) > 1 else None), defs)
            if not (isinstance(feat, ast.Call) and norm(feat.func) == "DemeFeatures"):
                continue
            kw0 = next((k.value for k in feat.keywords if k.arg == "nbc_mean_distance"), feat.args[0] if feat.args else None)
            kw = _resolve1(kw0, defs)
            if kw is None or isinstance(kw, ast.Constant):
                continue
            n_sites += 1
            c = feat
            while isinstance(kw, ast.Call) and norm(kw.func) in ("float", "np.float64") and len(kw.args) == 1:
                kw = _resolve1(kw.args[0], defs)
            st = INCONCLUSIVE
            why = f"cannot tell what nbc_mean_distance = `{norm(kw0)}` is"
            dist = None
            if isinstance(kw, ast.Call) and norm(kw.func) in ("np.mean", "numpy.mean", "np.average") and len(kw.args) == 1 and not kw.keywords:
                dist = _resolve1(kw.args[0], defs)
            elif isinstance(kw, ast.Call) and isinstance(kw.func, ast.Attribute) and kw.func.attr == "mean" and not kw.args:
                dist = _resolve1(kw.func.value, defs)
            elif isinstance(kw, ast.Call) and norm(kw.func).split(".")[-1] in ("median", "max", "min", "sum", "std"):
                st, why = VIOLATION, f"nbc_mean_distance = `{norm(kw)}` is not the mean of the clustering's distances"
            if dist is not None:
                if isinstance(dist, ast.Attribute) and dist.attr == "distances" and isinstance(dist.value, ast.Name):
                    nbc = dist.value.id
                    nd = defs.get(nbc, [])
                    built = len(nd) == 1 and isinstance(nd[0], ast.Call) and norm(nd[0].func) == "NearestBetterClustering" and (nd[0].args or nd[0].keywords)
                    pop = None
                    if built:
                        pop = nd[0].args[0] if nd[0].args else next((k.value for k in nd[0].keywords if k.arg in ("evaluated_individuals", "individuals", "population")), None)
                    popt = canon(pop, defs) if pop is not None else "?"
                    inds = _resolve1(next((k.value for k in dc.keywords if k.arg == "individuals"), dc.args[0] if dc.args else None), defs)
                    if isinstance(inds, ast.Call) and isinstance(inds.func, ast.Attribute) and inds.func.attr == "cluster" and isinstance(inds.func.value, (ast.Name, ast.Call)):
                        other = inds.func.value.id if isinstance(inds.func.value, ast.Name) else f"<{norm(inds.func.value.func)}(...) built in place>"
                        if not built:
                            st, why = INCONCLUSIVE, f"`{nbc}` is not a single NearestBetterClustering(...) construction"
                        elif other != nbc:
                            st, why = VIOLATION, f"candidates come from `{other}.cluster()` but the exported mean distance from `{nbc}`: the threshold does not describe the clustering that produced the candidates"
                        elif popt.endswith(".current_population"):
                            st = OK
                        elif popt.endswith((".all_individuals", ".best_individual", ".best_current_individual")) or "_history" in popt:
                            st, why = VIOLATION, f"`{nbc}` clusters `{popt}`, not the deme's current population"
                        else:
                            st, why = INCONCLUSIVE, f"cannot tell which population `{popt}` is"
                    else:
                        st, why = INCONCLUSIVE, "candidates are not recognisably taken from the same clustering object"
                elif isinstance(dist, ast.Attribute) and dist.attr != "distances":
                    st, why = VIOLATION, f"nbc_mean_distance averages `{norm(dist)}`, not the clustering's nearest-better distances"
            obs.append(ctx.ob("R09.4", f, c, status=st, detail=f"{cname}: feature and candidates come from one clustering of the deme's current population" if st == OK else f"{cname}: {why}", construct=f"feature:{n_sites}"))
        if n_sites == 0:
            obs.append(ctx.ob("R09.4", f, f.node, status=INCONCLUSIVE, detail=f"{cname}: no computed nbc_mean_distance feature found", construct="no-feature"))
    return obs


def r09_5(ctx: Ctx):
    """R09.5 no deme class overrides the centroid accessor (CMADeme overrides mean/covariance only)."""
    base = ctx.prog.cls("AbstractDeme")
    obs = []
    for ci in ctx.prog.subclasses(base):
        if "centroid" in ci.methods:
            obs.append(ctx.ob("R09.5", ci.methods["centroid"], None, status=VIOLATION, detail=f"{ci.name} overrides `centroid`: the filters would no longer compare with the mean of its current population", construct=f"{ci.name}.centroid"))
        else:
            obs.append(ctx.ob("R09.5", ci, ci.node, detail=f"{ci.name} inherits the accessor", construct=f"{ci.name}:inherits", trivial=True))
    return obs


FACTORY_WIRING = {
    # factory -> {factory parameter: (class, constructor parameter)}; one line of reason each
    "get_NBC_sprout": {
        "gen_dist_factor": ("NBC_Generator", "distance_factor"),  # cut factor of the clustering that proposes candidates
        "trunc_factor": ("NBC_Generator", "truncation_factor"),
        "fil_dist_factor": ("NBC_FarEnough", "min_distance_factor"),  # the distance the *filter* enforces
        "level_limit": ("LevelLimit", "limit"),
    },
    "get_simple_sprout": {
        "far_enough": ("FarEnough", "min_distance"),
        "level_limit": ("LevelLimit", "limit"),
    },
}


def r09_6(ctx: Ctx):
    """R09.6 the shipped factories hand each of their parameters to the constructor parameter it is documented for (the filter threshold is the filter's, not the generator's)."""
    obs = []
    for fname, table in FACTORY_WIRING.items():
        fac = ctx.prog.func("pyhms.sprout.sprout_mechanisms", fname)
        got = {}
        for c in body_walk(fac.node):
            if not isinstance(c, ast.Call):
                continue
            ci = ctx.prog.resolve_class_expr(c.func, fac.module)
            if ci is None:
                continue
            init = ctx.prog.lookup_method(ci, "__init__")
            if init is None:
                # a dataclass: the generated constructor takes the annotated class attributes in order
                fields = [st for st in ci.node.body if isinstance(st, ast.AnnAssign) and isinstance(st.target, ast.Name)]
                if not fields or not any("dataclass" in norm(d) for d in ci.node.decorator_list):
                    continue
                pnames = [st.target.id for st in fields]
                anns = {st.target.id: norm(st.annotation) for st in fields}
            else:
                pnames = init.params()[1:]
                anns = {x.arg: (norm(x.annotation) if x.annotation is not None else "") for x in init.node.args.posonlyargs + init.node.args.args + init.node.args.kwonlyargs}
            for i, a in enumerate(c.args):
                # a literal handed over by position must land on a parameter of its kind: after a reordering of the
                # constructor's parameters `NBC_FarEnough(factor, 2)` sets `check_only_active=2` (truthy) instead of norm_ord
                if isinstance(a, ast.Constant) and i < len(pnames) and a.value is not None:
                    ann = anns.get(pnames[i], "").replace(" ", "")
                    is_bool = isinstance(a.value, bool)
                    mismatch = (ann == "bool" and not is_bool) or (ann in ("int", "float", "int|float", "float|int") and (is_bool or isinstance(a.value, str))) or (ann == "str" and not isinstance(a.value, str))
                    obs.append(ctx.ob("R09.6", fac, a, status=VIOLATION if mismatch else OK, detail=f"{fname}: the literal {norm(a)} is the `{pnames[i]}` of {ci.name}" if not mismatch else f"{fname}: the positional literal {norm(a)} lands on `{pnames[i]}: {anns.get(pnames[i])}` of {ci.name} (the order of the constructor's parameters and this call disagree): the filter is configured with a setting nobody asked for", construct=f"{fname}:{ci.name}:{i}"))
                if isinstance(a, ast.Name) and i < len(pnames):
                    got.setdefault(a.id, []).append((ci.name, pnames[i]))
            for k in c.keywords:
                if isinstance(k.value, ast.Name) and k.arg:
                    got.setdefault(k.value.id, []).append((ci.name, k.arg))
        for prm in fac.params():
            want = table.get(prm)
            if want is None:
                obs.append(ctx.ob("R09.6", fac, fac.node, status=INCONCLUSIVE, detail=f"{fname}: parameter `{prm}` is not in the wiring table", construct=f"{fname}:{prm}"))
                continue
            uses = got.get(prm, [])
            ok = uses == [want]
            obs.append(ctx.ob("R09.6", fac, fac.node, status=OK if ok else VIOLATION, detail=f"{fname}: {prm} -> {want[0]}.{want[1]}" if ok else f"{fname}: parameter `{prm}` is wired to {uses or 'nothing'}; it must configure {want[0]}({want[1]}=...) and only that", construct=f"{fname}:{prm}"))
    return obs


RULES = [
    ("R09.1", r09_1, 7),
    ("R09.2", r09_2, 2),
    ("R09.3", r09_3, 9),
    ("R09.4", r09_4, 2),
    ("R09.5", r09_5, 7),
    ("R09.6", r09_6, 6),
]
