"""C09 — sprouts keep their distance from existing demes; centroids are current."""
from __future__ import annotations

import ast

from ..cfg import typestate, witness_path
from ..core import INCONCLUSIVE, OK, VIOLATION, Ctx, is_self_attr, local_defs
from ..model import AnalysisError, body_walk, norm
from .common import is_history_append

CLAIM = """Decides the structural clauses: (R09.1) the reported centroid is a function of the *current* population on every
read — either the accessor recomputes it from current_population, or, if it memoises, a typestate analysis over every
history-appending function of every concrete deme shows that no stale memo survives an append; (R09.2) the accessor hands
current_population to compute_centroid, which is the per-coordinate (axis 0) mean of the genomes of exactly the population
passed; (R09.3) FarEnough / NBC_FarEnough read the sibling's `centroid` accessor, quantify over every configured sibling
(active ones; or all unless check_only_active) of the target level, keep a candidate only if the strict `>` predicate holds
for every one of them, with threshold min_distance resp. factor x the parent's own nbc_mean_distance; (R09.4) the NBC
generator exports the mean distance of the same clustering it takes the candidates from; (R09.5) no deme class overrides
the accessor."""
NOTE = """Floating-point values of norms and means are not evaluated; numpy.linalg.norm / numpy.mean semantics are trusted."""
TECHNIQUE = "memo typestate over CFGs + def-use provenance and comparator/quantifier shape rules on the filter classes (ast)"
EXPLANATION = """
R09.1 decides currency of the centroid: with a memo field M the automaton {FRESH, STALE} is run over every function of every
concrete deme class that appends to the history (append: -> STALE; `self.M = None`: -> FRESH; reading the accessor in STALE
or leaving the function in STALE is a witnessed violation); without a memo the return value must derive from
current_population. R09.3 matches the filter loops structurally: sibling comprehension over tree.levels[deme.level + 1] with
the configured activity filter, a for-loop over those siblings that re-filters the candidate list with a predicate whose
centroid argument is `<sibling>.centroid`, strict comparator `>` in the predicate helper, and the write-back of the filtered
list to the same parent's candidates.
"""
ASSUMPTIONS = ["numpy.mean(axis=0) / numpy.linalg.norm semantics"]


def _memo_fields(getter) -> list[str]:
    out = []
    sn = getter.self_name()
    for n in body_walk(getter.node):
        tg = n.targets if isinstance(n, ast.Assign) else [n.target] if isinstance(n, (ast.AugAssign, ast.AnnAssign)) else []
        for t in tg:
            if is_self_attr(t, None, sn):
                out.append(t.attr)
    return out


def r09_1(ctx: Ctx):
    """R09.1 the centroid accessor is current on every read (no stale memo can survive a history append)."""
    base = ctx.prog.cls("AbstractDeme")
    getter = base.methods.get("centroid")
    if getter is None or not getter.is_property:
        raise AnalysisError("AbstractDeme.centroid accessor vanished")
    sn = getter.self_name()
    memo = _memo_fields(getter)
    obs = []
    if not memo:
        rets = [n for n in body_walk(getter.node) if isinstance(n, ast.Return)]
        ok = bool(rets) and all(any(is_self_attr(x, "current_population", sn) for x in ast.walk(r.value)) for r in rets if r.value is not None)
        obs.append(ctx.ob("R09.1", getter, getter.node, status=OK if ok else VIOLATION, detail="centroid recomputed from current_population on every access" if ok else f"the centroid accessor does not derive its value from current_population: `{norm(rets[0].value) if rets else '?'}`", construct="centroid-getter"))
        # no leftover cache read anywhere
        for ci in ctx.concrete_demes():
            f = ctx.prog.lookup_method(ci, "run_metaepoch")
            obs.append(ctx.ob("R09.1", f, f.node, detail=f"{ci.name}: no memo to invalidate", construct=f"{ci.name}:no-memo", trivial=True))
        return obs
    M = memo[0]
    demes = ctx.concrete_demes()
    for ci in demes:
        funcs = [m for m in ci.methods.values()] + [m for c in ctx.prog.mro(ci)[1:] for m in c.methods.values() if m.name not in ci.methods and c is not base]
        for f in funcs:
            if f.is_property or not _appends_transitively(ctx, ci, f.name):
                continue
            init_states = ["EMPTY"] if f.name == "__init__" else ["EMPTY", "CURRENT"]
            viol = []
            exits = set()
            for st in init_states:
                exits |= _memo_transform(ctx, ci, f, st, M, viol, ())
            for n, s, msg, ff in viol[:1]:
                obs.append(ctx.ob("R09.1", ff, n.stmt, status=VIOLATION, detail=f"{ci.name}: {msg}", construct=f"{ci.name}.{f.name}:stale-read"))
            if "STALE" in exits:
                obs.append(ctx.ob("R09.1", f, f.node, status=VIOLATION, detail=f"{ci.name}.{f.name} appends a new generation to the history but leaves the centroid memo `{M}` set: later reads of `centroid` return the mean of an older population", construct=f"{ci.name}.{f.name}:stale-exit"))
            elif not viol:
                obs.append(ctx.ob("R09.1", f, f.node, detail=f"{ci.name}.{f.name}: memo reset after every history append", construct=f"{ci.name}.{f.name}:memo"))
    return obs


def _memo_transform(ctx, ci, f, state, M, viol, stack):
    """Exit states of the memo automaton {EMPTY, CURRENT, STALE} for method f of class ci entered in `state`."""
    if f.qualname in stack:
        return {state}
    fsn = f.self_name() or "self"
    cfg = ctx.cfg(f)

    def helpers(n):
        out = []
        if n.ast is None:
            return out
        for c in ast.walk(n.ast):
            if isinstance(c, ast.Call) and isinstance(c.func, ast.Attribute) and isinstance(c.func.value, ast.Name) and c.func.value.id == fsn and c.func.attr != "log":
                m = ctx.prog.lookup_method(ci, c.func.attr)
                if m is not None and _appends_transitively(ctx, ci, c.func.attr):
                    out.append(m)
        return out

    def node_fn(n, s):
        if n.kind == "stmt" and is_history_append(n.ast, fsn):
            return ["STALE" if s in ("CURRENT", "STALE") else "EMPTY"]
        hs = helpers(n)
        if hs:
            cur = {s}
            for m in hs:
                nxt = set()
                for x in cur:
                    nxt |= _memo_transform(ctx, ci, m, x, M, viol, stack + (f.qualname,))
                cur = nxt
            return sorted(cur)
        if n.kind == "stmt" and isinstance(n.ast, ast.Assign) and any(is_self_attr(t, M, fsn) for t in n.ast.targets) and isinstance(n.ast.value, ast.Constant) and n.ast.value.value is None:
            return ["EMPTY"]
        if n.ast is not None and _reads_centroid(ctx, f, n.ast, fsn):
            if s == "STALE":
                viol.append((n, s, f"the centroid is read (line {n.lineno}) while its memo `{M}` is stale: history appended, memo not reset", f))
                return [s]
            return ["CURRENT"]
        return [s]

    at, exits, parent = typestate(cfg, [state], node_fn)
    return set(exits)


def _appends_transitively(ctx, ci, meth, _seen=None):
    _seen = _seen or set()
    m = ctx.prog.lookup_method(ci, meth)
    if m is None or m.qualname in _seen:
        return False
    _seen.add(m.qualname)
    sn = m.self_name() or "self"
    for n in body_walk(m.node):
        if isinstance(n, ast.Expr) and is_history_append(n, sn):
            return True
        if isinstance(n, ast.Call) and isinstance(n.func, ast.Attribute) and isinstance(n.func.value, ast.Name) and n.func.value.id == sn:
            if _appends_transitively(ctx, ci, n.func.attr, _seen):
                return True
    return False


def _reads_centroid(ctx, f, node, selfn):
    for x in ast.walk(node):
        if is_self_attr(x, "centroid", selfn) or is_self_attr(x, "mean", selfn):
            return True
        if isinstance(x, ast.Call) and isinstance(x.func, ast.Attribute) and is_self_attr(x.func, "log", selfn):
            return True
    return False


def r09_2(ctx: Ctx):
    """R09.2 centroid = mean over axis 0 of the genomes of the population passed, and the accessor passes current_population."""
    obs = []
    base = ctx.prog.cls("AbstractDeme")
    getter = base.methods["centroid"]
    sn = getter.self_name()
    calls = [c for c in body_walk(getter.node) if isinstance(c, ast.Call) and norm(c.func).endswith("compute_centroid")]
    if calls:
        ok = all(len(c.args) == 1 and is_self_attr(c.args[0], "current_population", sn) for c in calls)
        obs.append(ctx.ob("R09.2", getter, calls[0], status=OK if ok else VIOLATION, detail="compute_centroid(self.current_population)" if ok else f"the accessor computes the centroid of `{norm(calls[0].args[0]) if calls[0].args else '?'}`, not of the current population"))
        cc = ctx.prog.func("pyhms.demes.abstract_deme", "compute_centroid")
        obs.extend(_check_mean(ctx, cc, cc.params()[0]))
    else:
        obs.extend(_check_mean(ctx, getter, None))
    return obs


def _check_mean(ctx, fn, param):
    obs = []
    rets = [r for r in body_walk(fn.node) if isinstance(r, ast.Return) and r.value is not None and not (isinstance(r.value, ast.Constant) and r.value.value is None)]
    if not rets:
        return [ctx.ob("R09.2", fn, fn.node, status=INCONCLUSIVE, detail="no value-returning path", construct="mean")]
    for r in rets:
        v = r.value
        ok = False
        why = f"`{norm(v)}` is not a recognised per-coordinate mean"
        if isinstance(v, ast.Call):
            name = norm(v.func)
            axis = next((k.value for k in v.keywords if k.arg == "axis"), v.args[1] if len(v.args) > 1 and name.split(".")[-1] in ("mean", "average") else None)
            if name.split(".")[-1] in ("mean", "average") and v.args or (isinstance(v.func, ast.Attribute) and v.func.attr == "mean"):
                src = v.args[0] if (v.args and name.split(".")[0] in ("np", "numpy")) else (v.func.value if isinstance(v.func, ast.Attribute) else None)
                if axis is None or not (isinstance(axis, ast.Constant) and axis.value == 0):
                    why = f"mean taken with axis={norm(axis) if axis is not None else 'None'} (must be axis=0: per coordinate, over individuals)"
                else:
                    # the averaged collection: genomes of the population parameter
                    srcs = [src]
                    txt = norm(src)
                    names = {x.id for x in ast.walk(src) if isinstance(x, ast.Name)}
                    over_param = param is None or param in names
                    genomes = ".genome" in txt
                    sliced = any(isinstance(x, ast.Subscript) and isinstance(x.slice, ast.Slice) and isinstance(x.value, ast.Name) and x.value.id == param for x in ast.walk(src))
                    filtered = any(isinstance(x, ast.comprehension) and x.ifs for x in ast.walk(src))
                    if over_param and genomes and not sliced and not filtered:
                        ok = True
                    else:
                        why = f"the mean ranges over `{txt}`, not over the genomes of the whole population passed"
        obs.append(ctx.ob("R09.2", fn, r, status=OK if ok else VIOLATION, detail="mean over axis 0 of the genomes of the population passed" if ok else why))
    return obs


def _sibling_filter_kind(ctx, f, comp_if: ast.AST, sib: str, selfn: str):
    t = norm(comp_if)
    if t == f"{sib}.is_active":
        return "active"
    if t.replace("(", "").replace(")", "") in (f"{sib}.is_active or not {selfn}.check_only_active", f"not {selfn}.check_only_active or {sib}.is_active"):
        return "active-or-all"
    return None


def _far_enough_filter(ctx: Ctx, cls_name: str, helper_name: str, want_filter: str, threshold_kind: str):
    obs = []
    ci = ctx.prog.cls(cls_name)
    f = ci.methods.get("__call__")
    if f is None:
        raise AnalysisError(f"{cls_name}.__call__ vanished")
    selfn = f.self_name()
    cand_p, tree_p = f.params()[1], f.params()[2]
    # outer loop over parents
    outer = [n for n in body_walk(f.node) if isinstance(n, ast.For) and norm(n.iter) in (f"{cand_p}.keys()", cand_p, f"list({cand_p}.keys())", f"list({cand_p})")]
    if len(outer) != 1:
        return [ctx.ob("R09.3", f, f.node, status=INCONCLUSIVE, detail=f"{cls_name}: cannot find the loop over candidate parents", construct="outer-loop")]
    deme_v = outer[0].target.id if isinstance(outer[0].target, ast.Name) else None
    body_defs = {}
    for n in ast.walk(outer[0]):
        if isinstance(n, ast.Assign) and len(n.targets) == 1 and isinstance(n.targets[0], ast.Name):
            body_defs.setdefault(n.targets[0].id, []).append(n)
    # sibling loop
    sib_loops = [n for n in ast.walk(outer[0]) if isinstance(n, ast.For) and n is not outer[0]]
    hits = 0
    for sl in sib_loops:
        if not isinstance(sl.target, ast.Name):
            continue
        sib = sl.target.id
        # re-filter statements in the sibling loop body
        refilters = [n for n in sl.body if isinstance(n, ast.Assign) and len(n.targets) == 1 and isinstance(n.targets[0], ast.Name) and isinstance(n.value, ast.ListComp)]
        if not refilters:
            continue
        hits += 1
        # (a) sibling set provenance
        src = sl.iter
        src_defs = [src]
        if isinstance(src, ast.Name) and src.id in body_defs:
            src_defs = [d.value for d in body_defs[src.id]]
        for sd in src_defs:
            okp = False
            why = f"sibling set `{norm(sd)}` is not a filtered view of {tree_p}.levels[{deme_v}.level + 1]"
            if isinstance(sd, ast.ListComp) and len(sd.generators) == 1:
                g = sd.generators[0]
                it = norm(g.iter).replace(" ", "")
                if it in (f"{tree_p}.levels[{deme_v}.level+1]", f"{tree_p}._levels[{deme_v}.level+1]") and isinstance(g.target, ast.Name) and norm(sd.elt) == g.target.id:
                    kinds = [_sibling_filter_kind(ctx, f, c, g.target.id, selfn) for c in g.ifs]
                    if want_filter == "active" and kinds == ["active"]:
                        okp = True
                    elif want_filter == "active-or-all" and kinds == ["active-or-all"]:
                        okp = True
                    elif not g.ifs:
                        why = "the filter compares with every deme of the target level, including stopped ones, although it is configured to consider active siblings" if want_filter == "active" else "sibling set ignores check_only_active"
                        okp = False
                    else:
                        why = f"sibling activity filter is `{' and '.join(norm(c) for c in g.ifs)}`; expected {'sibling.is_active' if want_filter == 'active' else 'sibling.is_active or not self.check_only_active'}"
            obs.append(ctx.ob("R09.3", f, sd, status=OK if okp else VIOLATION, detail=f"{cls_name}: siblings = configured demes of the target level" if okp else f"{cls_name}: {why}", construct="siblings"))
        # (b) the re-filter: [ind for ind in <cur> if pred(ind, sib.centroid, ...)], assigned back to <cur>
        for rf in refilters:
            comp = rf.value
            cur = rf.targets[0].id
            g = comp.generators[0]
            shape_ok = len(comp.generators) == 1 and isinstance(g.target, ast.Name) and norm(comp.elt) == g.target.id and norm(g.iter) == cur and g.ifs
            if not shape_ok:
                obs.append(ctx.ob("R09.3", f, rf, status=INCONCLUSIVE, detail=f"{cls_name}: candidate re-filter has an unrecognised shape", construct="refilter"))
                continue
            ind = g.target.id
            cond = g.ifs[0] if len(g.ifs) == 1 else ast.BoolOp(op=ast.And(), values=list(g.ifs))
            conj = cond.values if isinstance(cond, ast.BoolOp) and isinstance(cond.op, ast.And) else [cond]
            if isinstance(cond, ast.BoolOp) and isinstance(cond.op, ast.Or):
                obs.append(ctx.ob("R09.3", f, rf, status=VIOLATION, detail=f"{cls_name}: a candidate is kept if the distance test OR something else holds: `{norm(cond)}`", construct="refilter-pred"))
                continue
            calls = [c for c in conj if isinstance(c, ast.Call) and isinstance(c.func, ast.Attribute) and is_self_attr(c.func, helper_name, selfn)]
            others = [c for c in conj if c not in calls]
            if len(calls) != 1:
                obs.append(ctx.ob("R09.3", f, rf, status=VIOLATION if not calls else INCONCLUSIVE, detail=f"{cls_name}: the candidate filter does not apply the distance predicate `{helper_name}` (keeps `{norm(cond)}`)", construct="refilter-pred"))
                continue
            c = calls[0]
            args = [norm(a) for a in c.args]
            ok_args = len(args) >= 2 and args[0] == ind and args[1] == f"{sib}.centroid"
            obs.append(ctx.ob("R09.3", f, c, status=OK if ok_args else VIOLATION, detail=f"{cls_name}: distance measured between the candidate and the sibling's centroid accessor" if ok_args else f"{cls_name}: the distance predicate is applied to ({', '.join(args)}) instead of (candidate, {sib}.centroid)", construct="pred-args"))
            for o in others:
                t = norm(o)
                if t != f"{sib}.centroid is not None":
                    obs.append(ctx.ob("R09.3", f, o, status=INCONCLUSIVE, detail=f"{cls_name}: extra conjunct `{t}` in the candidate filter", construct="extra-conjunct"))
            if threshold_kind == "nbc":
                ok_thr = len(args) == 3 and args[2] == f"{cand_p}[{deme_v}].features.nbc_mean_distance"
                obs.append(ctx.ob("R09.3", f, c, status=OK if ok_thr else VIOLATION, detail=f"{cls_name}: threshold scaled by the parent's own nbc_mean_distance" if ok_thr else f"{cls_name}: the mean nearest-better distance passed is `{args[2] if len(args) > 2 else '?'}`, not that of the candidate's own parent", construct="thr-arg"))
        # (c) initial value and write-back
        cur = refilters[0].targets[0].id
        init = [d for d in body_defs.get(cur, []) if d not in refilters]
        ok_init = len(init) == 1 and norm(init[0].value) == f"{cand_p}[{deme_v}].individuals"
        wb = [n for n in ast.walk(outer[0]) if isinstance(n, ast.Assign) and norm(n.targets[0]) == f"{cand_p}[{deme_v}].individuals"]
        ok_wb = len(wb) == 1 and norm(wb[0].value) == cur and wb[0] in outer[0].body
        obs.append(ctx.ob("R09.3", f, init[0] if init else sl, status=OK if (ok_init and ok_wb) else VIOLATION, detail=f"{cls_name}: candidates filtered against every sibling in turn and written back" if (ok_init and ok_wb) else f"{cls_name}: the filtered list is not (initialised from / written back to) {cand_p}[{deme_v}].individuals after the loop over all siblings", construct="init-writeback"))
        # quantifier: no early exit from the sibling loop
        early = [n for n in ast.walk(sl) if isinstance(n, (ast.Break, ast.Return))]
        conts = [n for n in ast.walk(sl) if isinstance(n, ast.Continue)]
        if early:
            obs.append(ctx.ob("R09.3", f, early[0], status=VIOLATION, detail=f"{cls_name}: the loop over siblings can stop early: candidates are not compared with every sibling", construct="early-exit"))
        if conts:
            obs.append(ctx.ob("R09.3", f, conts[0], status=VIOLATION, detail=f"{cls_name}: some siblings are skipped in the distance loop", construct="sibling-skip"))
    if hits != 1:
        existential = [c for c in ast.walk(outer[0]) if isinstance(c, ast.Call) and norm(c.func) == "any" and any(isinstance(x, ast.Call) and isinstance(x.func, ast.Attribute) and x.func.attr == helper_name for x in ast.walk(c))]
        if existential:
            obs.append(ctx.ob("R09.3", f, existential[0], status=VIOLATION, detail=f"{cls_name}: a candidate is kept when it is far from SOME sibling (`any(...)`) instead of from every sibling", construct="existential"))
        else:
            obs.append(ctx.ob("R09.3", f, f.node, status=INCONCLUSIVE if hits == 0 else VIOLATION, detail=f"{cls_name}: found {hits} sibling loops that filter candidates (expected 1)", construct="sibling-loop"))
    # (d) the predicate helper: strict `>` against the threshold
    h = ci.methods.get(helper_name)
    if h is None:
        obs.append(ctx.ob("R09.3", f, f.node, status=INCONCLUSIVE, detail=f"{cls_name}: predicate helper {helper_name} not found", construct="helper"))
        return obs
    hs = h.self_name()
    rets = [r for r in body_walk(h.node) if isinstance(r, ast.Return)]
    okh = False
    why = "predicate is not `norm(candidate - centroid) > threshold`"
    if len(rets) == 1 and isinstance(rets[0].value, ast.Compare) and len(rets[0].value.ops) == 1:
        cmp = rets[0].value
        l, r, op = cmp.left, cmp.comparators[0], cmp.ops[0]
        if isinstance(op, ast.Lt):
            l, r, op = r, l, ast.Gt()
        ps = h.params()
        ind_p, cen_p = ps[1], ps[2]
        is_norm = isinstance(l, ast.Call) and norm(l.func).split(".")[-1] == "norm" and l.args and norm(l.args[0]).replace(" ", "") in (f"{ind_p}.genome-{cen_p}", f"{cen_p}-{ind_p}.genome")
        ord_ok = isinstance(l, ast.Call) and all(k.arg != "ord" or norm(k.value) == f"{hs}.norm_ord" for k in l.keywords)
        thr = norm(r).replace(" ", "")
        if threshold_kind == "abs":
            thr_ok = thr == f"{hs}.min_distance"
        else:
            thr_ok = thr in (f"{hs}.min_distance_factor*{ps[3]}", f"{ps[3]}*{hs}.min_distance_factor") if len(ps) > 3 else False
        if not isinstance(op, ast.Gt):
            why = f"the distance comparator is `{type(op).__name__}` (must be strict `>`: a candidate exactly at the threshold is rejected)"
        elif not is_norm:
            why = f"the compared quantity `{norm(l)}` is not the norm of (candidate genome - centroid)"
        elif not ord_ok:
            why = "the norm order is not the configured norm_ord"
        elif not thr_ok:
            why = f"the threshold `{norm(r)}` is not the configured {'min_distance' if threshold_kind == 'abs' else 'min_distance_factor x mean nearest-better distance'}"
        else:
            okh = True
    obs.append(ctx.ob("R09.3", h, rets[0] if rets else h.node, status=OK if okh else VIOLATION, detail=f"{cls_name}: strict `>` between ||candidate - centroid|| and the configured threshold" if okh else f"{cls_name}: {why}", construct="predicate"))
    return obs


def r09_3(ctx: Ctx):
    """R09.3 FarEnough / NBC_FarEnough: sibling set, accessor, universal quantifier, strict comparator, threshold."""
    return _far_enough_filter(ctx, "FarEnough", "_is_far_enough", "active", "abs") + _far_enough_filter(ctx, "NBC_FarEnough", "_is_nbc_far_enough", "active-or-all", "nbc")


def r09_4(ctx: Ctx):
    """R09.4 NBC generators export the mean distance of the same clustering (of deme.current_population) they take candidates from."""
    obs = []
    for cname in ("NBC_Generator", "NBCGeneratorWithLocalMethod"):
        ci = ctx.prog.cls(cname)
        f = ci.methods["__call__"]
        defs = local_defs(f)
        n_sites = 0
        for c in body_walk(f.node):
            if isinstance(c, ast.Call) and norm(c.func) == "DemeFeatures":
                kw = next((k.value for k in c.keywords if k.arg == "nbc_mean_distance"), None)
                if kw is None or (isinstance(kw, ast.Constant)):
                    continue
                n_sites += 1
                ok = False
                why = f"nbc_mean_distance = `{norm(kw)}`"
                if isinstance(kw, ast.Call) and norm(kw.func) in ("np.mean", "numpy.mean") and len(kw.args) == 1 and isinstance(kw.args[0], ast.Attribute) and kw.args[0].attr == "distances" and isinstance(kw.args[0].value, ast.Name):
                    nbc = kw.args[0].value.id
                    nd = defs.get(nbc, [])
                    built = len(nd) == 1 and isinstance(nd[0], ast.Call) and norm(nd[0].func) == "NearestBetterClustering" and nd[0].args and norm(nd[0].args[0]).endswith(".current_population")
                    # candidates come from nbc.cluster() of the same object
                    cand_ok = any(isinstance(d, ast.Call) and norm(d.func) == f"{nbc}.cluster" for ds in defs.values() for d in ds)
                    ok = built and cand_ok
                    if not built:
                        why = f"`{nbc}` is not NearestBetterClustering(<deme>.current_population, ...)"
                    elif not cand_ok:
                        why = "candidates are not taken from the same clustering object"
                obs.append(ctx.ob("R09.4", f, c, status=OK if ok else VIOLATION, detail=f"{cname}: feature and candidates come from one clustering of the deme's current population" if ok else f"{cname}: {why}"))
        if n_sites == 0:
            obs.append(ctx.ob("R09.4", f, f.node, status=INCONCLUSIVE, detail=f"{cname}: no computed nbc_mean_distance feature found", construct="no-feature"))
    return obs


def r09_5(ctx: Ctx):
    """R09.5 no deme class overrides the centroid accessor (CMADeme overrides mean/covariance only)."""
    base = ctx.prog.cls("AbstractDeme")
    obs = []
    for ci in ctx.prog.subclasses(base):
        if "centroid" in ci.methods:
            obs.append(ctx.ob("R09.5", ci.methods["centroid"], None, status=VIOLATION, detail=f"{ci.name} overrides `centroid`: the filters would no longer compare with the mean of its current population", construct=f"{ci.name}.centroid"))
        else:
            obs.append(ctx.ob("R09.5", ci, ci.node, detail=f"{ci.name} inherits the accessor", construct=f"{ci.name}:inherits", trivial=True))
    return obs


FACTORY_WIRING = {
    # factory -> {factory parameter: (class, constructor parameter)}; one line of reason each
    "get_NBC_sprout": {
        "gen_dist_factor": ("NBC_Generator", "distance_factor"),  # cut factor of the clustering that proposes candidates
        "trunc_factor": ("NBC_Generator", "truncation_factor"),
        "fil_dist_factor": ("NBC_FarEnough", "min_distance_factor"),  # the distance the *filter* enforces
        "level_limit": ("LevelLimit", "limit"),
    },
    "get_simple_sprout": {
        "far_enough": ("FarEnough", "min_distance"),
        "level_limit": ("LevelLimit", "limit"),
    },
}


def r09_6(ctx: Ctx):
    """R09.6 the shipped factories hand each of their parameters to the constructor parameter it is documented for (the filter threshold is the filter's, not the generator's)."""
    obs = []
    for fname, table in FACTORY_WIRING.items():
        fac = ctx.prog.func("pyhms.sprout.sprout_mechanisms", fname)
        got = {}
        for c in body_walk(fac.node):
            if not isinstance(c, ast.Call):
                continue
            ci = ctx.prog.resolve_class_expr(c.func, fac.module)
            if ci is None:
                continue
            init = ctx.prog.lookup_method(ci, "__init__")
            if init is None:
                continue
            pnames = init.params()[1:]
            for i, a in enumerate(c.args):
                if isinstance(a, ast.Name) and i < len(pnames):
                    got.setdefault(a.id, []).append((ci.name, pnames[i]))
            for k in c.keywords:
                if isinstance(k.value, ast.Name) and k.arg:
                    got.setdefault(k.value.id, []).append((ci.name, k.arg))
        for prm in fac.params():
            want = table.get(prm)
            if want is None:
                obs.append(ctx.ob("R09.6", fac, fac.node, status=INCONCLUSIVE, detail=f"{fname}: parameter `{prm}` is not in the wiring table", construct=f"{fname}:{prm}"))
                continue
            uses = got.get(prm, [])
            ok = uses == [want]
            obs.append(ctx.ob("R09.6", fac, fac.node, status=OK if ok else VIOLATION, detail=f"{fname}: {prm} -> {want[0]}.{want[1]}" if ok else f"{fname}: parameter `{prm}` is wired to {uses or 'nothing'}; it must configure {want[0]}({want[1]}=...) and only that", construct=f"{fname}:{prm}"))
    return obs


RULES = [
    ("R09.1", r09_1, 7),
    ("R09.2", r09_2, 2),
    ("R09.3", r09_3, 9),
    ("R09.4", r09_4, 2),
    ("R09.5", r09_5, 7),
    ("R09.6", r09_6, 6),
]
