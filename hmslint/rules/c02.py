"""C02 — stored individuals carry the true fitness of their genome; history is immutable."""
from __future__ import annotations

import ast

from ..cfg import typestate
from ..core import INCONCLUSIVE, OK, VIOLATION, Ctx, canon, is_self_attr, local_defs, parents_map
from ..model import AnalysisError, body_walk, norm
from . import c06, c13
from .common import is_history_append

CLAIM = """Decides the pairing / ownership / immutability discipline that keeps every stored fitness the objective value of its own
genome: (R02.1) at every Population construction the (genomes, fitnesses) arguments are co-derived — same index on both
arrays, copies of both, concatenations in the same order, the same individuals, or new genomes whose fitness is kept only for
rows equal to the old genome in EVERY coordinate (exact ==) and NaN otherwise; (R02.2) the only in-place writes to a
population's arrays are update_genome (rows that differ in ANY coordinate are overwritten and their fitness reset to NaN with
the same mask) and evaluate (exactly the NaN rows are evaluated from their own genomes); (R02.3) operators mutate only
populations they created (copies / constructor results), never their argument, and a population is not mutated after
to_individuals handed out row views; (R02.4) every operator pipeline ends with an operator that evaluates all rows it returns,
fitness-reading operators never follow a non-evaluating one, and DE/SHADE evaluate the trial population before reading its
fitness; (R02.5) `fitness`/`genome` of an Individual are stored only by Individual.__init__/evaluate/clone or on an individual
constructed in the same function, and no genome is modified in place; (R02.6) Individual.evaluate stores
problem.evaluate(own genome) under the NaN/None guard; (R02.7) arrays received by callbacks from external optimisers are copied
before they are stored (the pinned defect); (R02.8) histories are append-only, an appended generation list is never mutated
afterwards and nothing mutates lists obtained from history accessors; (R02.9) sign-adapted optimiser values are converted back. (R02.10) every constructed individual that is recorded was evaluated on every path (partial evaluation loops included); (R02.11) no objective value is kept in state shared between problems; (R02.12) no individual is created with another level's fitness or with the sign-adapted value prepared for a minimiser; (R02.13) refused / padded values; (R02.14) a kept clone() is evaluated; (R02.15) a recorded generation is not edited in place through an alias."""
NOTE = """Determinism of the user objective and freshness of cma's ask() results are assumptions. numpy semantics table: fancy/boolean
indexing, np.copy, np.array, np.where, np.concatenate allocate; basic slices and row iteration are views."""
TECHNIQUE = "co-derivation pattern analysis of (genomes, fitnesses) pairs, mask agreement, freshness/ownership dataflow, pipeline summaries and who-may-write tables (custom ast analysis)"
EXPLANATION = """
Each Population(...) construction (>= 11 sites) is matched against the co-derivation patterns listed in the claim; a site that
matches none is reported with the two mismatching derivations (e.g. np.any / np.isclose instead of np.all(==), different index
expressions). In-place stores into `.genomes` / `.fitnesses` are enumerated over all of pyhms. Receivers of mutating Population
methods are traced to their definitions inside the calling function. Operator classes get evaluate/reads-fitness summaries
from their CFGs, which are then applied to the pipeline literals of every BaseSEA.create.
"""
ASSUMPTIONS = ["the user objective is a function of its argument", "cma ask() returns freshly allocated points"]


def _pop_cls(ctx):
    return ctx.prog.cls("Population")


def _is_population_ctor(ctx, f, call: ast.Call) -> bool:
    fn = call.func
    ci = ctx.prog.resolve_class_expr(fn, f.module)
    if ci is not None and ci.name == "Population":
        return True
    if isinstance(fn, ast.Name) and fn.id == "cls" and f.cls is not None and f.cls.name == "Population" and f.is_classmethod:
        return True
    return False


def _strip_copy(e):
    """np.copy(x) / x.copy() / np.array(x) -> (x, True)"""
    if isinstance(e, ast.Call):
        fn = norm(e.func)
        if fn in ("np.copy", "numpy.copy", "np.array", "np.asarray") and e.args:
            return e.args[0], True
        if isinstance(e.func, ast.Attribute) and e.func.attr == "copy" and not e.args:
            return e.func.value, True
    return e, False


def _resolve1(e, defs, stop_at=None):
    hops = 0
    while isinstance(e, ast.Name) and e.id in defs and len(defs[e.id]) == 1 and hops < 5 and not isinstance(defs[e.id][0], ast.AugAssign):
        e = defs[e.id][0]
        hops += 1
    return e


def _last_def_before(f, name: str, before: ast.AST):
    """The textually last assignment to `name` before node `before` (straight-line approximation used for G/F pairs)."""
    best = None
    for n in body_walk(f.node):
        if isinstance(n, ast.Assign) and len(n.targets) == 1 and isinstance(n.targets[0], ast.Name) and n.targets[0].id == name:
            if n._ord < before._ord:
                if best is None or n._ord > best._ord:
                    best = n
    return best.value if best is not None else None


def _pair_pattern(ctx, f, call: ast.Call):
    """Returns (ok, description)."""
    if len(call.args) < 2:
        kws = {k.arg: k.value for k in call.keywords}
        G, F = (call.args + [None, None])[:2]
        G = G or kws.get("genomes")
        F = F or kws.get("fitnesses")
    else:
        G, F = call.args[0], call.args[1]
    if G is None or F is None:
        return False, "cannot find the genomes / fitnesses arguments"
    Gn = G.id if isinstance(G, ast.Name) else None
    Gr = _last_def_before(f, G.id, call) if isinstance(G, ast.Name) else G
    Fr = _last_def_before(f, F.id, call) if isinstance(F, ast.Name) else F
    if Gr is None:
        Gr = G
    if Fr is None:
        Fr = F
    # P2 copies
    g0, gc = _strip_copy(Gr)
    f0, fc = _strip_copy(Fr)
    # P4 from individuals
    if isinstance(g0, ast.ListComp) and isinstance(f0, ast.ListComp):
        gg, fg = g0.generators, f0.generators
        if len(gg) == len(fg) == 1 and canon(gg[0].iter) == canon(fg[0].iter) and not gg[0].ifs and not fg[0].ifs and isinstance(gg[0].target, ast.Name) and isinstance(fg[0].target, ast.Name):
            if canon(g0.elt) == f"{gg[0].target.id}.genome" and canon(f0.elt) == f"{fg[0].target.id}.fitness":
                return True, "genomes and fitnesses taken from the same individuals in the same order"
        return False, f"genomes come from `{norm(g0)[:60]}` but fitnesses from `{norm(f0)[:60]}` (different individuals / order / filter)"
    # P1 indexed with one index, P2 plain copies
    def base_and_index(e):
        if isinstance(e, ast.Subscript):
            return e.value, canon(e.slice)
        return e, None

    gb, gi = base_and_index(g0)
    fb, fi = base_and_index(f0)
    if isinstance(gb, ast.Attribute) and gb.attr == "genomes" and isinstance(fb, ast.Attribute) and fb.attr == "fitnesses":
        if canon(gb.value) != canon(fb.value):
            return False, f"genomes of `{norm(gb.value)}` are paired with fitnesses of `{norm(fb.value)}`"
        if gi != fi:
            return False, f"genomes are indexed with `{gi}` but fitnesses with `{fi}`: rows no longer carry their own fitness"
        if gi is None and not (gc and fc) and (gc or fc):
            return True, "same population, one side copied"
        return True, "same population, same index" if gi is not None else "both arrays of the same population"
    # P3 concatenations
    if isinstance(g0, ast.Call) and isinstance(f0, ast.Call) and norm(g0.func).endswith("concatenate") and norm(f0.func).endswith("concatenate"):
        def parts(c):
            a = c.args[0] if c.args else None
            return [x for x in a.elts] if isinstance(a, (ast.Tuple, ast.List)) else None

        gp, fp = parts(g0), parts(f0)
        if gp and fp and len(gp) == len(fp) and all(isinstance(a, ast.Attribute) and a.attr == "genomes" and isinstance(b, ast.Attribute) and b.attr == "fitnesses" and canon(a.value) == canon(b.value) for a, b in zip(gp, fp)):
            return True, "concatenations of paired arrays in the same order"
        return False, f"genomes are concatenated as `{norm(g0)[:60]}` but fitnesses as `{norm(f0)[:60]}` (order or operands differ)"
    # P5 new genomes, fitness kept only where the row is unchanged
    if isinstance(f0, ast.Call) and norm(f0.func) in ("np.where", "numpy.where") and len(f0.args) == 3:
        cond, keep, other = f0.args
        oth_ok = norm(other) in ("np.nan", "numpy.nan", "float('nan')", "math.nan", "np.NaN")
        if not oth_ok:
            return False, f"rows whose genome changed get fitness `{norm(other)}` instead of NaN"
        if not (isinstance(cond, ast.Call) and norm(cond.func) in ("np.all", "numpy.all") and cond.args):
            if isinstance(cond, ast.Call) and norm(cond.func) in ("np.any", "numpy.any"):
                return False, "a parent's fitness is kept when ANY coordinate of the new genome equals the old one (np.any): rows that changed in another coordinate keep a stale fitness"
            return None, f"unchanged-row test `{norm(cond)[:60]}` is not recognisably np.all(new == old, axis=1)"
        axis = next((k.value for k in cond.keywords if k.arg == "axis"), cond.args[1] if len(cond.args) > 1 else None)
        if axis is None or not (isinstance(axis, ast.Constant) and axis.value == 1):
            return False, "unchanged-row test reduces over the wrong axis (must be axis=1: all coordinates of a row)"
        eq = cond.args[0]
        if not (isinstance(eq, ast.Compare) and len(eq.ops) == 1 and isinstance(eq.ops[0], ast.Eq)):
            if not (isinstance(eq, ast.Call) and norm(eq.func).split(".")[-1] in ("isclose", "allclose")) and not (isinstance(eq, ast.Compare) and len(eq.ops) == 1 and isinstance(eq.ops[0], (ast.Lt, ast.LtE, ast.Gt, ast.GtE))):
                return None, f"cannot read the unchanged-row test `{norm(eq)[:60]}`"
            return False, f"rows count as unchanged under `{norm(eq)[:60]}` instead of exact equality: a slightly different genome keeps its parent's fitness without being evaluated"
        sides = [canon(eq.left), canon(eq.comparators[0])]
        if not (isinstance(keep, ast.Attribute) and keep.attr == "fitnesses"):
            return None, f"kept fitness `{norm(keep)}` is not a population's fitnesses"
        old = canon(keep.value) + ".genomes"
        newg = Gn or canon(G)
        if old not in sides:
            return False, f"the unchanged-row test compares with `{sides}` but keeps the fitness of `{norm(keep.value)}`"
        if newg not in sides:
            return False, f"the unchanged-row test is not about the genomes actually stored (`{newg}`): it compares `{sides}`"
        return True, "new genomes; fitness kept only for rows equal in every coordinate, NaN otherwise"
    if isinstance(f0, ast.Call) and norm(f0.func) in ("np.full", "np.full_like") and any(norm(a) in ("np.nan", "numpy.nan") for a in f0.args):
        return True, "all fitness values reset to NaN"
    # positive evidence: one side is a row selection of a population's array, the other a numeric reduction / sort (values no
    # longer tied to the selected rows)
    def _rows(e):
        return isinstance(e, ast.Subscript) and isinstance(e.value, ast.Attribute) and e.value.attr in ("genomes", "fitnesses")

    _RED = ("min", "max", "amin", "amax", "sort", "mean", "median", "sum", "nanmin", "nanmax", "minimum", "maximum", "fmin", "fmax")

    def _reduction(e):
        if isinstance(e, ast.IfExp):
            return _reduction(e.body) and _reduction(e.orelse)
        if not isinstance(e, ast.Call):
            return False
        if norm(e.func).split(".")[-1] in _RED:
            return True
        # the reducing function picked by the direction: `better = np.maximum if maximize else np.minimum; better(a, b)`
        fn_ = e.func
        if isinstance(fn_, ast.Name):
            d_ = local_defs(f).get(fn_.id, [])
            fn_ = d_[0] if len(d_) == 1 else fn_
        return isinstance(fn_, ast.IfExp) and all(norm(x).split(".")[-1] in _RED for x in (fn_.body, fn_.orelse))

    def _where_rows(e, attr):
        """np.where(mask, A.<attr>, B.<attr>): row-wise choice between two populations' arrays -> (mask text, A, B)"""
        if isinstance(e, ast.Call) and norm(e.func) in ("np.where", "numpy.where") and len(e.args) == 3 and all(isinstance(x, ast.Attribute) and x.attr == attr for x in e.args[1:]):
            return canon(e.args[0]), canon(e.args[1].value), canon(e.args[2].value)
        return None

    wg, wf = _where_rows(g0, "genomes"), _where_rows(f0, "fitnesses")
    if wg and wf:
        if (wg[1], wg[2]) == (wf[1], wf[2]) and (wg[0] == wf[0] or wg[0].replace("[:,None]", "").replace("[:,np.newaxis]", "") == wf[0]):
            return True, "genomes and fitnesses chosen row by row from the same two populations under the same mask"
        return False, f"genomes are chosen with `{wg[0][:50]}` between ({wg[1]}, {wg[2]}) but fitnesses with `{wf[0][:50]}` between ({wf[1]}, {wf[2]})"
    if wg and _reduction(f0):
        return False, f"each row's genome is chosen between `{wg[1]}` and `{wg[2]}` by a mask, but its fitness is `{norm(f0)[:60]}`, the element-wise extreme of both: whenever the mask keeps the row with the other value the stored fitness is not the fitness of the stored genome"
    if (_rows(g0) and _reduction(f0)) or (_rows(f0) and _reduction(g0)):
        return False, f"genomes `{norm(Gr)[:50]}` are rows selected by an index, but the fitnesses `{norm(Fr)[:50]}` are a reduction computed elsewhere: a row no longer carries its own objective value"
    return None, f"genomes `{norm(Gr)[:60]}` and fitnesses `{norm(Fr)[:60]}` are not recognisably co-derived"


def r02_1(ctx: Ctx):
    """R02.1 pairing at construction: (genomes, fitnesses) of every Population(...) are co-derived."""
    obs = []
    n = 0
    for f in ctx.prog.all_functions():
        if f.name == "<module>":
            continue
        for c in body_walk(f.node):
            if isinstance(c, ast.Call) and _is_population_ctor(ctx, f, c):
                n += 1
                ok, why = _pair_pattern(ctx, f, c)
                obs.append(ctx.ob("R02.1", f, c, status=OK if ok else INCONCLUSIVE if ok is None else VIOLATION, detail=why if ok else f"{f.short}: {why}"))
    if n < 8:
        raise AnalysisError(f"only {n} Population constructions found (11 confirmed by hand)")
    return obs


def _row_mask_kind(m, defs, a_txt, b_txt, depth=0):
    """Classify a boolean row mask over two (n, d) arrays a, b:  'changed' = rows differing in at least one coordinate
    (any(a != b, axis=1), ~all(a == b, axis=1), method forms), 'unchanged' = its complement, 'wrong' = a recognisable mask
    that is neither (all(a != b), any(a == b), another axis, other operands), None = not understood."""
    m = _resolve1(m, defs)
    if depth > 4:
        return None
    if isinstance(m, ast.UnaryOp) and isinstance(m.op, (ast.Invert, ast.Not)):
        k = _row_mask_kind(m.operand, defs, a_txt, b_txt, depth + 1)
        return {"changed": "unchanged", "unchanged": "changed"}.get(k, k)
    if isinstance(m, ast.Call) and norm(m.func) in ("np.logical_not", "numpy.logical_not", "np.invert") and len(m.args) == 1:
        k = _row_mask_kind(m.args[0], defs, a_txt, b_txt, depth + 1)
        return {"changed": "unchanged", "unchanged": "changed"}.get(k, k)
    red = cmp = axis = None
    if isinstance(m, ast.Call) and norm(m.func) in ("np.any", "numpy.any", "np.all", "numpy.all") and m.args:
        red, cmp = norm(m.func).split(".")[-1], _resolve1(m.args[0], defs)
        axis = next((k.value for k in m.keywords if k.arg == "axis"), m.args[1] if len(m.args) > 1 else None)
    elif isinstance(m, ast.Call) and isinstance(m.func, ast.Attribute) and m.func.attr in ("any", "all"):
        red, cmp = m.func.attr, _resolve1(m.func.value, defs)
        axis = next((k.value for k in m.keywords if k.arg == "axis"), m.args[0] if m.args else None)
    if red is None:
        return None
    ne = None
    if isinstance(cmp, ast.Compare) and len(cmp.ops) == 1 and isinstance(cmp.ops[0], (ast.NotEq, ast.Eq)):
        ne = isinstance(cmp.ops[0], ast.NotEq)
        sides = {canon(cmp.left, defs), canon(cmp.comparators[0], defs)}
    elif isinstance(cmp, ast.Call) and norm(cmp.func) in ("np.not_equal", "np.equal") and len(cmp.args) == 2:
        ne = norm(cmp.func) == "np.not_equal"
        sides = {canon(cmp.args[0], defs), canon(cmp.args[1], defs)}
    if ne is None:
        return None
    if sides != {a_txt, b_txt}:
        return "wrong" if all(isinstance(ast.parse(x, mode="eval").body, (ast.Name, ast.Attribute)) for x in sides) else None
    ax = axis.value if isinstance(axis, ast.Constant) else (-axis.operand.value if isinstance(axis, ast.UnaryOp) and isinstance(axis.op, ast.USub) and isinstance(axis.operand, ast.Constant) else "?")
    if ax == "?":
        return None
    if ax not in (1, -1):
        return "wrong"
    if red == "any" and ne:
        return "changed"
    if red == "all" and not ne:
        return "unchanged"
    return "wrong"


def _update_genome_status(stores, newp, sn, defs, ug):
    import re as _re

    mentions_fit = any(isinstance(x, ast.Attribute) and x.attr == "fitnesses" for x in ast.walk(ug.node))
    if "genomes" not in stores:
        return INCONCLUSIVE, "cannot find the masked store into genomes"
    if "fitnesses" not in stores:
        return (INCONCLUSIVE, "cannot find the masked store into fitnesses") if mentions_fit else (VIOLATION, "genomes are overwritten but the fitness of the changed rows is never invalidated")
    gsl, fsl = stores["genomes"].targets[0].slice, stores["fitnesses"].targets[0].slice
    gk = _row_mask_kind(gsl, defs, newp, f"{sn}.genomes")
    fk = _row_mask_kind(fsl, defs, newp, f"{sn}.genomes")
    gm, fm = canon(gsl, defs), canon(fsl, defs)
    if gk is None or fk is None:
        if gm == fm:
            return INCONCLUSIVE, f"cannot interpret the change mask `{norm(_resolve1(gsl, defs))[:70]}`"
        return INCONCLUSIVE, f"cannot relate the mask of the genome store `{gm[:50]}` to the mask of the fitness store `{fm[:50]}`"
    if gk != fk:
        return VIOLATION, f"genomes are overwritten under mask `{gm[:60]}` but fitness is reset under `{fm[:60]}`"
    if gk != "changed":
        return VIOLATION, f"the change mask `{norm(_resolve1(gsl, defs))[:70]}` is not `rows differing in any coordinate` (np.any(new != old, axis=1)): rows that changed in only some coordinates keep their old fitness"
    gv = stores["genomes"].value
    gvt = canon(gv, defs)
    if gvt not in (f"{newp}[{gm}]", f"{newp}[{canon(gsl)}]"):
        return (VIOLATION if newp not in {x.id for x in ast.walk(gv) if isinstance(x, ast.Name)} and newp not in gvt else INCONCLUSIVE), f"changed rows receive `{norm(gv)[:60]}` instead of the new genome's rows under the same mask"
    fv = _resolve1(stores["fitnesses"].value, defs)
    fvt = norm(fv)
    if fvt in ("np.nan", "numpy.nan", "math.nan", "np.NaN", "float('nan')", 'float("nan")', "np.float64('nan')"):
        return OK, ""
    if isinstance(fv, ast.Constant) or (isinstance(fv, ast.Subscript) and "fitnesses" in fvt):
        return VIOLATION, f"changed rows get fitness `{fvt[:50]}` instead of NaN"
    return INCONCLUSIVE, f"cannot tell whether `{fvt[:50]}` stored as the changed rows' fitness is NaN"


def _evaluate_status(ev):
    """Population.evaluate: exactly the rows whose fitness is NaN get problem.evaluate(their own genome)."""
    sn = ev.self_name()
    defs = local_defs(ev)
    st = [n for n in body_walk(ev.node) if isinstance(n, ast.Assign) and len(n.targets) == 1 and isinstance(n.targets[0], ast.Subscript) and is_self_attr(n.targets[0].value, "fitnesses", sn)]
    if len(st) != 1:
        return INCONCLUSIVE, f"{len(st)} subscript stores into fitnesses"
    mask = st[0].targets[0].slice
    m = _resolve1(mask, defs)

    def nan_rows(e, depth=0):
        """'nan' = selects exactly the NaN rows (boolean mask or index array), 'not-nan' = the complement, None = unknown"""
        e = _resolve1(e, defs)
        if depth > 4:
            return None
        if isinstance(e, ast.Call) and norm(e.func) in ("np.isnan", "numpy.isnan", "math.isnan") and e.args and canon(e.args[0], defs) == f"{sn}.fitnesses":
            return "nan"
        if isinstance(e, ast.Call) and norm(e.func) in ("np.flatnonzero", "np.nonzero", "np.argwhere", "np.where") and len(e.args) == 1 and not e.keywords:
            return nan_rows(e.args[0], depth + 1)
        if isinstance(e, ast.Subscript) and isinstance(e.slice, ast.Constant) and e.slice.value == 0 and isinstance(e.value, ast.Call) and norm(e.value.func) in ("np.nonzero", "np.where") and len(e.value.args) == 1:
            return nan_rows(e.value.args[0], depth + 1)
        if isinstance(e, ast.UnaryOp) and isinstance(e.op, (ast.Invert, ast.Not)):
            k = nan_rows(e.operand, depth + 1)
            return {"nan": "not-nan", "not-nan": "nan"}.get(k)
        if isinstance(e, ast.Call) and norm(e.func) in ("np.isfinite", "np.logical_not") and e.args:
            if norm(e.func) == "np.isfinite":
                return None
            k = nan_rows(e.args[0], depth + 1)
            return {"nan": "not-nan", "not-nan": "nan"}.get(k)
        return None

    k = nan_rows(mask)
    if k == "not-nan":
        return VIOLATION, f"rows to evaluate are chosen by `{norm(m)[:60]}`: the rows that already have a fitness, not the NaN rows"
    if k is None:
        return INCONCLUSIVE, f"cannot tell whether `{norm(m)[:60]}` selects exactly the rows whose fitness is NaN"
    vals = _resolve1(st[0].value, defs)
    # a list filled step by step: every element must be an objective value of its own row; an element stamped in without an
    # evaluation (a sentinel repeated for "the rest of the batch") is a fitness the objective never returned for that genome
    if isinstance(st[0].value, ast.Name):
        acc = st[0].value.id
        for c in body_walk(ev.node):
            if isinstance(c, ast.Call) and isinstance(c.func, ast.Attribute) and c.func.attr in ("extend", "append", "insert") and norm(c.func.value) == acc and c.args:
                a_ = c.args[-1]
                evaluated = any(isinstance(x, ast.Call) and isinstance(x.func, ast.Attribute) and x.func.attr == "evaluate" for x in ast.walk(a_))
                if not evaluated and (isinstance(a_, (ast.Constant, ast.List, ast.BinOp)) or (isinstance(a_, ast.Name) and not any(isinstance(x, ast.Call) and isinstance(x.func, ast.Attribute) and x.func.attr == "evaluate" for d_ in defs.get(a_.id, []) for x in ast.walk(d_)))):
                    return VIOLATION, f"`{norm(c)[:80]}` puts values into the stored fitness column that are not results of evaluating the rows they are stored for: those individuals carry a fitness their genome was never given by the objective"
    if not (isinstance(vals, ast.ListComp) and len(vals.generators) == 1 and not vals.generators[0].ifs):
        return INCONCLUSIVE, f"stored values `{norm(vals)[:80]}` are not a plain comprehension over the selected rows"
    g = vals.generators[0]
    it = canon(g.iter, defs)
    if it == f"{sn}.genomes":
        return VIOLATION, "the values are computed for ALL genomes but stored into the NaN rows only: rows receive another row's fitness"
    if it not in (f"{sn}.genomes[{canon(mask, defs)}]", f"{sn}.genomes[{canon(mask)}]"):
        gi = _resolve1(g.iter, defs)
        if isinstance(gi, ast.Subscript) and canon(gi.value, defs) == f"{sn}.genomes" and isinstance(gi.slice, ast.Slice):
            return VIOLATION, f"the values are computed for the contiguous rows `{norm(gi)[:60]}` but stored into the NaN rows: rows receive another row's fitness"
        return INCONCLUSIVE, f"cannot relate the evaluated rows `{it[:60]}` to the rows stored under `{canon(mask)[:40]}`"
    if not (isinstance(vals.elt, ast.Call) and norm(vals.elt.func) == f"{sn}.problem.evaluate" and vals.elt.args):
        return INCONCLUSIVE, f"stored values `{norm(vals.elt)[:60]}` are not problem.evaluate(row)"
    if norm(vals.elt.args[0]) != norm(g.target):
        return (VIOLATION if isinstance(vals.elt.args[0], (ast.Subscript, ast.Attribute)) else INCONCLUSIVE), f"problem.evaluate is given `{norm(vals.elt.args[0])[:50]}`, not the row being evaluated"
    return OK, ""


def r02_2(ctx: Ctx):
    """R02.2 in-place writes to population arrays: only update_genome / evaluate, with agreeing masks."""
    obs = []
    pop = _pop_cls(ctx)
    for f in ctx.prog.all_functions():
        if f.name == "<module>":
            continue
        for n in body_walk(f.node):
            tg = n.targets if isinstance(n, ast.Assign) else [n.target] if isinstance(n, (ast.AugAssign, ast.AnnAssign)) else []
            for t in tg:
                base = t
                sub = False
                while isinstance(base, ast.Subscript):
                    base = base.value
                    sub = True
                if isinstance(base, ast.Attribute) and base.attr in ("genomes", "fitnesses") and isinstance(t.ctx if hasattr(t, "ctx") else None, ast.Store):
                    inside = f.cls is pop
                    if not sub:
                        ok = inside and f.name == "__init__"
                        if not ok:
                            obs.append(ctx.ob("R02.2", f, n, status=VIOLATION, detail=f"`{norm(n)[:70]}` rebinds a population's array outside Population.__init__: genomes and fitnesses can get out of step"))
                    else:
                        ok = inside and f.name in ("update_genome", "evaluate")
                        if not ok:
                            obs.append(ctx.ob("R02.2", f, n, status=VIOLATION, detail=f"`{norm(n)[:70]}` writes rows of a population's array in place outside update_genome/evaluate"))
    # in-place numpy operations on a population's arrays through aliases / views (outside Population)
    INPLACE_METHODS = ("sort", "fill", "put", "itemset", "partition", "resize", "setfield", "clip")
    for f in ctx.prog.all_functions():
        if f.name == "<module>" or f.cls is pop:
            continue
        defs = local_defs(f)

        def array_source(e, depth=0):
            """text of the population array that e aliases (or is a view of), else None"""
            if depth > 4:
                return None
            if isinstance(e, ast.Attribute) and e.attr in ("genomes", "fitnesses"):
                return norm(e)
            if isinstance(e, ast.Subscript):
                # basic slices / single rows are views; boolean and integer-array indexing copy
                sl = e.slice
                basic = isinstance(sl, (ast.Slice, ast.Constant)) or (isinstance(sl, ast.Tuple) and all(isinstance(x, (ast.Slice, ast.Constant)) for x in sl.elts)) or (isinstance(sl, ast.Name) and sl.id in ("i", "j", "k", "idx", "index"))
                return array_source(e.value, depth + 1) if basic else None
            if isinstance(e, ast.Name) and e.id in defs:
                srcs = [array_source(d, depth + 1) for d in defs[e.id] if not isinstance(d, ast.AugAssign)]
                srcs = [x for x in srcs if x]
                return srcs[0] if srcs else None
            return None

        for n in body_walk(f.node):
            if isinstance(n, ast.AugAssign):
                src = array_source(n.target)
                if src and not (isinstance(n.target, ast.Subscript) and False):
                    obs.append(ctx.ob("R02.2", f, n, status=VIOLATION, detail=f"`{norm(n)[:70]}` modifies `{src}` in place (through an alias / view): the population's rows no longer carry the objective value of their genome"))
            elif isinstance(n, ast.Assign):
                for t in n.targets:
                    if isinstance(t, ast.Subscript) and isinstance(t.value, ast.Name):
                        src = array_source(t.value)
                        if src:
                            obs.append(ctx.ob("R02.2", f, n, status=VIOLATION, detail=f"`{norm(n)[:70]}` writes into `{src}` through the alias `{t.value.id}`"))
            elif isinstance(n, ast.Call):
                outk = next((k.value for k in n.keywords if k.arg == "out"), None)
                if outk is not None and array_source(outk):
                    obs.append(ctx.ob("R02.2", f, n, status=VIOLATION, detail=f"`{norm(n)[:70]}` writes its result into `{array_source(outk)}` (out=)"))
                if isinstance(n.func, ast.Attribute) and n.func.attr in INPLACE_METHODS and array_source(n.func.value) and (n.func.attr != "clip" or outk is not None):
                    obs.append(ctx.ob("R02.2", f, n, status=VIOLATION, detail=f"`{norm(n)[:70]}` reorders / overwrites `{array_source(n.func.value)}` in place"))
                fn = norm(n.func)
                if fn.split(".")[-1] in ("shuffle", "fill_diagonal", "copyto", "put", "place", "putmask") and fn.split(".")[0] in ("np", "numpy", "random") and n.args and array_source(n.args[0]):
                    obs.append(ctx.ob("R02.2", f, n, status=VIOLATION, detail=f"`{norm(n)[:70]}` mutates `{array_source(n.args[0])}` in place"))
    ug = pop.methods.get("update_genome")
    ev = pop.methods.get("evaluate")
    if ug is None or ev is None:
        raise AnalysisError("Population.update_genome / evaluate vanished")
    # update_genome
    sn = ug.self_name()
    newp = ug.params()[1]
    defs = local_defs(ug)
    stores = {}
    for n in body_walk(ug.node):
        if isinstance(n, ast.Assign) and len(n.targets) == 1 and isinstance(n.targets[0], ast.Subscript) and isinstance(n.targets[0].value, ast.Attribute) and is_self_attr(n.targets[0].value, None, sn):
            stores[n.targets[0].value.attr] = n
    st_u, why = _update_genome_status(stores, newp, sn, defs, ug)
    obs.append(ctx.ob("R02.2", ug, ug.node, status=st_u, detail="rows differing in any coordinate are overwritten and invalidated with one mask" if st_u == OK else f"Population.update_genome: {why}", construct="update_genome"))
    # evaluate
    st_e, why = _evaluate_status(ev)
    obs.append(ctx.ob("R02.2", ev, ev.node, status=st_e, detail="exactly the NaN rows are evaluated from their own genomes" if st_e == OK else f"Population.evaluate: {why}", construct="evaluate"))
    return obs


MUTATORS = ("update_genome", "evaluate")


def _fresh_local(ctx, f, name: str, before: ast.AST) -> tuple[bool, str]:
    """Is local `name` bound (last def before `before`) to a fresh population?"""
    v = _last_def_before(f, name, before)
    if v is None:
        if name in f.params():
            return False, f"`{name}` is a parameter of {f.short}"
        return False, f"`{name}` has no definition before use"
    if isinstance(v, ast.Call):
        fn = v.func
        if isinstance(fn, ast.Attribute) and fn.attr in ("copy", "merge", "topk", "from_individuals", "__getitem__"):
            return True, ""
        if _is_population_ctor(ctx, f, v):
            return True, ""
        # result of calling an operator object / helper: fresh by the operator contract (R02.3 checks operators themselves)
        t = ctx.res.type_of(fn, f)
        return True, ""
    if isinstance(v, ast.Subscript):
        return True, ""  # Population.__getitem__ allocates
    if isinstance(v, ast.Name):
        return _fresh_local(ctx, f, v.id, before) if v.id != name else (False, "self-alias")
    if isinstance(v, ast.Attribute):
        return False, f"`{name}` aliases `{norm(v)}`"
    return False, f"`{name}` = `{norm(v)[:40]}`"


def r02_3(ctx: Ctx):
    """R02.3 ownership: only freshly created populations are mutated; nothing is mutated after to_individuals."""
    obs = []
    pop = _pop_cls(ctx)
    n = 0
    for f in ctx.prog.all_functions():
        if f.name == "<module>" or f.cls is pop:
            continue
        for c in body_walk(f.node):
            if isinstance(c, ast.Call) and isinstance(c.func, ast.Attribute) and c.func.attr in MUTATORS:
                recv = c.func.value
                t = ctx.res.type_of(recv, f)
                is_pop = t is not None and any(x[0] == "inst" and x[1] == pop.qualname for x in ([t] if t[0] != "union" else t[1]))
                if not is_pop:
                    continue
                n += 1
                if isinstance(recv, ast.Name):
                    ok, why = _fresh_local(ctx, f, recv.id, c)
                    obs.append(ctx.ob("R02.3", f, c, status=OK if ok else VIOLATION, detail=f"`{recv.id}` is a population created in this function" if ok else f"{f.short} mutates a population it does not own: {why} (the caller's arrays — e.g. the parents kept for elitism — are overwritten)"))
                else:
                    obs.append(ctx.ob("R02.3", f, c, status=VIOLATION, detail=f"{f.short} mutates `{norm(recv)}` in place (not a population created here)"))
        # no mutation after to_individuals on the same population
        cfg = None
        for c in body_walk(f.node):
            if isinstance(c, ast.Call) and isinstance(c.func, ast.Attribute) and c.func.attr == "to_individuals" and isinstance(c.func.value, ast.Name):
                pname = c.func.value.id
                later = [m for m in body_walk(f.node) if isinstance(m, ast.Call) and isinstance(m.func, ast.Attribute) and m.func.attr in MUTATORS and isinstance(m.func.value, ast.Name) and m.func.value.id == pname and m._ord > c._ord]
                if later:
                    obs.append(ctx.ob("R02.3", f, later[0], status=VIOLATION, detail=f"`{pname}` is mutated after to_individuals() handed out views of its rows: already returned individuals change"))
    if n < 8:
        raise AnalysisError(f"only {n} mutating population calls found outside Population (>= 9 confirmed by hand)")
    return obs


def operator_summaries(ctx: Ctx):
    """class name -> {'evaluates': 'always'|'conditional'|'never', 'reads_fitness': bool}"""
    out = {}
    pop = _pop_cls(ctx)
    for ci in ctx.prog.classes.values():
        m = ci.methods.get("__call__")
        if m is None or len(m.params()) < 2:
            continue
        rt = ctx.res.return_type(m)
        if rt is None or not any(x[0] == "inst" and x[1] == pop.qualname for x in ([rt] if rt[0] != "union" else rt[1])):
            continue
        cfg = ctx.cfg(m)
        # does every path to a return evaluate the returned population?
        def node_fn(n, s):
            if n.ast is not None:
                for c in ast.walk(n.ast):
                    if isinstance(c, ast.Call) and isinstance(c.func, ast.Attribute) and c.func.attr == "evaluate" and not (isinstance(c.func.value, ast.Attribute) and c.func.value.attr in ("problem", "_problem")):
                        return [True]
            return [s]

        at, exits, parent = typestate(cfg, [False], node_fn)
        ev = "always" if exits == {True} else "never" if exits == {False} else "conditional"
        reads = False
        for n in body_walk(m.node):
            if isinstance(n, ast.Attribute) and n.attr == "fitnesses" and isinstance(n.ctx, ast.Load):
                par = None
                reads = True
        # reading fitness only to carry it along (np.where keep / same-index copy) is not a decision; decisions are order ops
        decides = False
        for n in body_walk(m.node):
            if isinstance(n, ast.Call) and norm(n.func).split(".")[-1] in ("argmax", "argmin", "argsort", "topk", "get_preferences", "evaluate_population"):
                decides = True
        out[ci.name] = {"evaluates": ev, "reads_fitness": decides, "method": m}
    return out


def r02_4(ctx: Ctx):
    """R02.4 pipelines end with an evaluating operator; fitness-reading operators see evaluated input; DE/SHADE evaluate before reading."""
    obs = []
    summ = operator_summaries(ctx)
    base = ctx.prog.cls("BaseSEA")
    n = 0
    for ci in ctx.prog.subclasses(base):
        cr = ci.methods.get("create")
        if cr is None:
            continue
        lists = [k.value for c in body_walk(cr.node) if isinstance(c, ast.Call) for k in c.keywords if k.arg == "variational_operators_pipeline" and isinstance(k.value, ast.List)]
        for L in lists:
            n += 1
            names = []
            for el in L.elts:
                c2 = ctx.prog.resolve_class_expr(el.func, cr.module) if isinstance(el, ast.Call) else None
                names.append((c2.name if c2 else norm(el)[:30], el))
            # conditional evaluators configured by a literal flag
            def evaluates(name, el):
                s = summ.get(name)
                if s is None:
                    return None
                if s["evaluates"] == "conditional" and isinstance(el, ast.Call):
                    flag = next((k.value for k in el.keywords if k.arg == "evaluate_fitness"), None)
                    if isinstance(flag, ast.Constant):
                        return "always" if flag.value else "never"
                return s["evaluates"]

            last_name, last_el = names[-1]
            ev = evaluates(last_name, last_el)
            if ev is None:
                obs.append(ctx.ob("R02.4", cr, L, status=INCONCLUSIVE, detail=f"{ci.name}: last operator `{last_name}` has no summary", construct=f"{ci.name}:last"))
            else:
                obs.append(ctx.ob("R02.4", cr, last_el, status=OK if ev == "always" else VIOLATION, detail=f"{ci.name}: pipeline ends with {last_name}, which evaluates every row it returns" if ev == "always" else f"{ci.name}: the pipeline ends with {last_name}, which does not (always) evaluate: individuals with NaN / stale fitness reach selection and the history", construct=f"{ci.name}:last"))
            evaluated = True  # the input is a copy of the evaluated parents
            for nm, el in names:
                s = summ.get(nm)
                if s is None:
                    continue
                if s["reads_fitness"] and not evaluated:
                    obs.append(ctx.ob("R02.4", cr, el, status=VIOLATION, detail=f"{ci.name}: {nm} selects by fitness but follows an operator that leaves rows unevaluated (NaN fitness decides the selection)", construct=f"{ci.name}:{nm}:reads-nan"))
                e2 = evaluates(nm, el)
                if e2 == "always":
                    evaluated = True
                elif s["reads_fitness"] and e2 == "never":
                    evaluated = evaluated  # selection keeps paired values
                else:
                    evaluated = False
    if n < 5:
        raise AnalysisError(f"only {n} operator pipelines found (5 confirmed by hand)")
    # DE / SHADE: evaluate precedes fitness reads of the trial population
    for cname in ("DE", "SHADE"):
        m = ctx.prog.own_method(cname, "run")
        cfg = ctx.cfg(m)
        evals = [c for c in body_walk(m.node) if isinstance(c, ast.Call) and isinstance(c.func, ast.Attribute) and c.func.attr == "evaluate" and isinstance(c.func.value, ast.Name)]
        if len(evals) != 1:
            obs.append(ctx.ob("R02.4", m, m.node, status=VIOLATION if not evals else INCONCLUSIVE, detail=f"{cname}.run evaluates the trial population {len(evals)} times", construct=f"{cname}:evaluate"))
            continue
        tv = evals[0].func.value.id
        # order by control flow, not by source position (inlined helper code keeps the helper's line numbers)
        ev_nodes = [n for n in cfg.nodes if n.ast is not None and any(x is evals[0] for x in ast.walk(n.ast))]
        early, rebinds = [], []
        if ev_nodes:
            E = ev_nodes[0]
            for n in cfg.nodes:
                if n.ast is None or n is E or n.kind in ("entry", "exit"):
                    continue
                reads = any(isinstance(a, ast.Attribute) and a.attr == "fitnesses" and isinstance(a.value, ast.Name) and a.value.id == tv for a in ast.walk(n.ast))
                if reads and cfg.can_reach(n, E) and not cfg.can_reach(E, n):
                    early.append(n)
                if n.kind == "stmt" and isinstance(n.ast, ast.Assign) and any(isinstance(t, ast.Name) and t.id == tv for t in n.ast.targets) and cfg.can_reach(E, n):
                    rebinds.append(n)
        ok = not early and not rebinds
        obs.append(ctx.ob("R02.4", m, evals[0], status=OK if ok else VIOLATION, detail=f"{cname}: `{tv}` is evaluated before its fitness is read and not rebound afterwards" if ok else f"{cname}: the trial population's fitness is read before evaluate() or the evaluated population is replaced afterwards", construct=f"{cname}:evaluate"))
        # what evaluate() finds: Population.evaluate only evaluates rows whose fitness is NaN, so on every path the last operator
        # applied to the trial population must have reset the fitness of every changed row (typestate over the CFG of run)
        if ev_nodes:
            kinds = {}

            def op_kind(call):
                cs = next((c_ for c_ in ctx.res.callsites(m) if c_.node is call), None)
                if cs is None or not cs.targets:
                    return "?"
                ks = set()
                for tg in cs.targets:
                    if tg.qualname not in kinds:
                        k = "?"
                        ctors = [c_ for c_ in body_walk(tg.node) if isinstance(c_, ast.Call) and _is_population_ctor(ctx, tg, c_)]
                        rets = [r for r in body_walk(tg.node) if isinstance(r, ast.Return)]
                        if len(ctors) == 1 and len(rets) == 1 and rets[0].value is ctors[0] and len(ctors[0].args) >= 2:
                            okp, _ = _pair_pattern(ctx, tg, ctors[0])
                            G, F = ctors[0].args[0], ctors[0].args[1]
                            Gr = _last_def_before(tg, G.id, ctors[0]) if isinstance(G, ast.Name) else G
                            Fr = _last_def_before(tg, F.id, ctors[0]) if isinstance(F, ast.Name) else F
                            Gr, Fr = Gr if Gr is not None else G, Fr if Fr is not None else F
                            if okp is True and isinstance(Fr, ast.Call):
                                k = "fresh"
                            elif okp is None and isinstance(Fr, ast.Attribute) and Fr.attr == "fitnesses" and isinstance(Fr.value, ast.Name) and Fr.value.id in tg.params() and not (isinstance(Gr, ast.Attribute) and Gr.attr == "genomes") and isinstance(Gr, (ast.Call, ast.BinOp)):
                                k = "stale"  # computed genomes handed on with the input's fitness column
                        kinds[tg.qualname] = k
                    ks.add(kinds[tg.qualname])
                return "stale" if "stale" in ks else "fresh" if ks == {"fresh"} else "?"

            def node_fn2(n, st):
                a = n.ast
                if n.kind == "stmt" and isinstance(a, ast.Assign) and len(a.targets) == 1 and isinstance(a.targets[0], ast.Name) and a.targets[0].id == tv:
                    if isinstance(a.value, ast.Call) and isinstance(a.value.func, ast.Attribute) and is_self_attr(a.value.func, None, m.self_name()):
                        k = op_kind(a.value)
                        return [(k, a) if k == "stale" else (k, None)]
                    if isinstance(a.value, ast.Call) and isinstance(a.value.func, ast.Attribute) and a.value.func.attr == "copy":
                        return [("clean", None)]
                    return [("?", None)]
                if n is ev_nodes[0]:
                    return [("at-eval:" + st[0], st[1])]
                return [st]

            at2, _ex2, _par2 = typestate(cfg, [("clean", None)], node_fn2)
            reach = at2.get(ev_nodes[0].id, set()) if isinstance(at2, dict) else set()
            stale = [x for x in reach if x[0] == "stale"]
            if stale:
                obs.append(ctx.ob("R02.4", m, stale[0][1], status=VIOLATION, detail=f"{cname}: on some path `{tv}` reaches evaluate() straight from `{norm(stale[0][1])[:70]}`, an operator that hands on its input's fitness column with newly computed genomes: evaluate() only evaluates NaN rows, so these rows are never evaluated and compete with their parents' values", construct=f"{cname}:stale-at-evaluate"))
            elif reach and all(x[0] in ("fresh", "clean") for x in reach):
                obs.append(ctx.ob("R02.4", m, evals[0], detail=f"{cname}: on every path the operator applied last before evaluate() resets the fitness of every changed row", construct=f"{cname}:fresh-at-evaluate"))
    return obs


def r02_5(ctx: Ctx):
    """R02.5 Individual.fitness / .genome are written only by Individual itself or on an individual constructed in the same function; genomes are never modified in place."""
    obs = []
    ind = ctx.prog.cls("Individual")
    n = 0
    for f in ctx.prog.all_functions():
        if f.name == "<module>":
            continue
        defs = local_defs(f)
        for st in body_walk(f.node):
            tg = st.targets if isinstance(st, ast.Assign) else [st.target] if isinstance(st, (ast.AugAssign, ast.AnnAssign)) else st.targets if isinstance(st, ast.Delete) else []
            for t in tg:
                base = t
                sub = False
                while isinstance(base, ast.Subscript):
                    base = base.value
                    sub = True
                if not (isinstance(base, ast.Attribute) and base.attr in ("fitness", "genome")):
                    continue
                bt = ctx.res.type_of(base.value, f)
                is_ind = bt is None or any(x[0] == "inst" and x[1] == ind.qualname for x in ([bt] if bt[0] != "union" else bt[1]))
                if bt is not None and not is_ind:
                    continue
                if f.cls is not None and f.cls.name in ("Cluster",):
                    continue
                n += 1
                if sub or isinstance(st, ast.AugAssign):
                    obs.append(ctx.ob("R02.5", f, st, status=VIOLATION, detail=f"`{norm(st)[:70]}` modifies an individual's {base.attr} in place: a recorded individual no longer carries the objective value of its genome"))
                    continue
                if f.cls is ind and f.name in ("__init__", "evaluate", "clone"):
                    obs.append(ctx.ob("R02.5", f, st, detail=f"Individual.{f.name} sets its own {base.attr}"))
                    continue
                fresh = False
                if isinstance(base.value, ast.Name):
                    ds = defs.get(base.value.id, [])
                    fresh = bool(ds) and all(isinstance(d, ast.Call) and (ctx.prog.resolve_class_expr(d.func, f.module) is ind) for d in ds)
                obs.append(ctx.ob("R02.5", f, st, status=OK if fresh else VIOLATION, detail=f"{base.attr} set on an individual constructed in this function" if fresh else f"{f.short} overwrites the {base.attr} of an existing individual (`{norm(st)[:60]}`)"))
        # numpy in-place operations on a genome
        for c in body_walk(f.node):
            if isinstance(c, ast.Call):
                for k in c.keywords:
                    if k.arg == "out" and any(isinstance(x, ast.Attribute) and x.attr == "genome" for x in ast.walk(k.value)):
                        obs.append(ctx.ob("R02.5", f, c, status=VIOLATION, detail=f"`{norm(c)[:60]}` writes into an individual's genome through out="))
                if isinstance(c.func, ast.Attribute) and c.func.attr in ("sort", "fill", "clip", "put", "itemset", "resize") and isinstance(c.func.value, ast.Attribute) and c.func.value.attr == "genome" and (c.func.attr != "clip" or any(k.arg == "out" for k in c.keywords)):
                    obs.append(ctx.ob("R02.5", f, c, status=VIOLATION, detail=f"`{norm(c)[:60]}` modifies an individual's genome in place"))
    if n < 5:
        raise AnalysisError(f"only {n} stores to individual fitness/genome found (6 confirmed by hand)")
    return obs


def r02_6(ctx: Ctx):
    """R02.6 Individual.evaluate stores problem.evaluate(own genome) under the NaN/None guard."""
    m = ctx.prog.own_method("Individual", "evaluate")
    sn = m.self_name()
    st = [n for n in body_walk(m.node) if isinstance(n, ast.Assign) and any(is_self_attr(t, "fitness", sn) for t in n.targets)]
    ok = len(st) == 1 and canon(st[0].value) == f"{sn}.problem.evaluate({sn}.genome)"
    obs = [ctx.ob("R02.6", m, st[0] if st else m.node, status=OK if ok else VIOLATION, detail="fitness = problem.evaluate(own genome)" if ok else f"Individual.evaluate stores `{norm(st[0].value) if st else '?'}`")]
    par = parents_map(m.node)
    guard = None
    if st:
        cur = st[0]
        while id(cur) in par:
            p = par[id(cur)]
            if isinstance(p, ast.If):
                guard = p.test
                break
            cur = p
    okg = guard is not None and "isnan" in norm(guard) and f"{sn}.fitness" in norm(guard)
    obs.append(ctx.ob("R02.6", m, guard if guard is not None else m.node, status=OK if okg else VIOLATION, detail="only unevaluated individuals (None / NaN) are evaluated" if okg else "Individual.evaluate is not guarded by the NaN/None test: already evaluated individuals are re-evaluated (counts, budget) or never evaluated", construct="guard"))
    rets = [r for r in body_walk(m.node) if isinstance(r, ast.Return)]
    return obs


def r02_7(ctx: Ctx):
    """R02.7 arrays handed to callbacks by external code are copied before being stored in an Individual."""
    obs = []
    n = 0
    for f in ctx.prog.all_functions():
        if f.name == "<module>":
            continue
        for cs in ctx.res.callsites(f):
            if not (cs.external and isinstance(cs.node, ast.Call)) or cs.external.startswith(("builtins.", "numpy.")):
                continue
            from ..core import effective_keywords

            for karg, kval in effective_keywords(cs.node, local_defs(f)).items():
                if karg not in ("callback", "callbacks"):
                    continue
                t = ctx.res.type_of(kval, f)
                for x in ([] if t is None else ([t] if t[0] != "union" else list(t[1]))):
                    if x[0] not in ("bound", "func"):
                        continue
                    cb = ctx.prog.functions.get(x[1])
                    if cb is None:
                        continue
                    n += 1
                    params = set(cb.params()[1:] if cb.cls is not None else cb.params())
                    bad = []
                    for c in body_walk(cb.node):
                        if isinstance(c, ast.Call) and ctx.prog.resolve_class_expr(c.func, cb.module) is ctx.prog.cls("Individual") and c.args:
                            g = c.args[0]
                            g0, copied = _strip_copy(g)
                            root = g0
                            while isinstance(root, (ast.Attribute, ast.Subscript)):
                                root = root.value
                            if isinstance(root, ast.Name) and root.id in params and not copied:
                                bad.append((c, g))
                    for c, g in bad:
                        obs.append(ctx.ob("R02.7", cb, c, status=VIOLATION, detail=f"{cb.short} stores `{norm(g)}`, an array owned by {cs.external} (its work buffer, updated in place), in an Individual without copying: all recorded iterates end up sharing the optimiser's final point"))
                    if not bad:
                        obs.append(ctx.ob("R02.7", cb, cb.node, detail=f"callback of {cs.external}: borrowed arrays are copied before they are stored", construct=cb.short))
    if n == 0:
        raise AnalysisError("no callback handed to an external optimiser found (LocalDeme._history_callback confirmed by hand)")
    return obs


LIST_MUT = ("append", "extend", "insert", "pop", "remove", "clear", "sort", "reverse")


GROW_ONLY = {"append", "extend", "insert"}


def r02_8(ctx: Ctx, growth_is_harmless: bool = False):
    """R02.8 append-only history: appended generation lists are not mutated afterwards; nothing mutates lists obtained from the history accessors.
    With growth_is_harmless (C04: the maximum over a growing multiset never decreases) only destructive mutations count."""
    obs = []
    for o in ([] if growth_is_harmless else c06.r06_3(ctx)):
        if "history changed" in o.detail:  # how often a metaepoch appends is C06's concern, not immutability
            o.rule = "R02.8"
            obs.append(o)
    n_app = 0
    for ci in ctx.concrete_demes():
        for f in ctx.prog.functions_in(ci):
            if f.parent is not None:
                continue
            sn = f.self_name() or "self"
            cfg = ctx.cfg(f)
            for node in cfg.nodes:
                if node.kind == "stmt" and is_history_append(node.ast, sn):
                    n_app += 1
                    arg = node.ast.value.args[0] if node.ast.value.args else None
                    names = set()
                    if isinstance(arg, ast.Name):
                        names.add(arg.id)
                    if isinstance(arg, ast.List):
                        names |= {e.id for e in arg.elts if isinstance(e, ast.Name)}
                    attr_lists = [e for e in ([arg] if not isinstance(arg, ast.List) else arg.elts) if isinstance(e, ast.Attribute)]

                    def mutates(n2):
                        if n2.ast is None:
                            return False
                        for c in ast.walk(n2.ast):
                            if isinstance(c, ast.Call) and isinstance(c.func, ast.Attribute) and c.func.attr in LIST_MUT and isinstance(c.func.value, ast.Name) and c.func.value.id in names and not (growth_is_harmless and c.func.attr in GROW_ONLY):
                                return True
                            if isinstance(c, (ast.Assign, ast.AugAssign, ast.Delete)):
                                for t in (c.targets if isinstance(c, (ast.Assign, ast.Delete)) else [c.target]):
                                    if isinstance(t, ast.Subscript) and isinstance(t.value, ast.Name) and t.value.id in names:
                                        return True
                        return False

                    escapes = [n2 for n2 in cfg.nodes if n2.kind == "stmt" and isinstance(n2.ast, (ast.Assign, ast.AnnAssign)) and getattr(n2.ast, "value", None) is not None and isinstance(n2.ast.value, ast.Name) and n2.ast.value.id in names and any(isinstance(t, ast.Attribute) for t in (n2.ast.targets if isinstance(n2.ast, ast.Assign) else [n2.ast.target]))]
                    if growth_is_harmless:
                        # the alias matters only if something destructive is done through it
                        kept = []
                        for e2 in escapes:
                            attrs = [t.attr for t in (e2.ast.targets if isinstance(e2.ast, ast.Assign) else [e2.ast.target]) if isinstance(t, ast.Attribute)]
                            destructive = [c for g in ctx.prog.functions_in(ci) for c in body_walk(g.node) if isinstance(c, ast.Call) and isinstance(c.func, ast.Attribute) and c.func.attr in LIST_MUT and c.func.attr not in GROW_ONLY and isinstance(c.func.value, ast.Attribute) and c.func.value.attr in attrs]
                            if destructive:
                                kept.append(e2)
                        escapes = kept
                    for e2 in escapes:
                        # the second reference matters when something is written through it: a mutating call or an item store
                        # on that attribute anywhere in the class (for need `growth_is_harmless` only the destructive ones, above)
                        attrs2 = [t.attr for t in (e2.ast.targets if isinstance(e2.ast, ast.Assign) else [e2.ast.target]) if isinstance(t, ast.Attribute)]
                        writes2 = [c for g in ctx.prog.functions_in(ci) for c in body_walk(g.node) if (isinstance(c, ast.Call) and isinstance(c.func, ast.Attribute) and c.func.attr in LIST_MUT and isinstance(c.func.value, ast.Attribute) and c.func.value.attr in attrs2) or (isinstance(c, (ast.Assign, ast.AugAssign)) and any(isinstance(t, ast.Subscript) and isinstance(t.value, ast.Attribute) and t.value.attr in attrs2 for t in (c.targets if isinstance(c, ast.Assign) else [c.target])))]
                        if writes2:
                            obs.append(ctx.ob("R02.8", f, e2.stmt, status=VIOLATION, detail=f"{f.short}: `{e2.label[:60]}` keeps a second reference (an attribute) to a list that is recorded in the history, and `{norm(writes2[0])[:60]}` writes through it: the recorded generation changes after it was recorded"))
                        else:
                            obs.append(ctx.ob("R02.8", f, e2.stmt, detail=f"{f.short}: `{e2.label[:60]}` keeps a second reference to a recorded list; nothing is written through it"))
                    later = [n2 for n2 in cfg.nodes if n2 is not node and mutates(n2) and cfg.can_reach(node, n2)]
                    if later:
                        obs.append(ctx.ob("R02.8", f, later[0].stmt, status=VIOLATION, detail=f"{f.short}: `{later[0].label[:60]}` mutates a list after it was recorded in the history (the recorded metaepoch changes afterwards)"))
                    else:
                        obs.append(ctx.ob("R02.8", f, node.stmt, detail="recorded list is not touched after the append", construct=f"{f.short}:{node.label[:50]}"))
                    for a in ([] if growth_is_harmless else attr_lists):
                        # a list held in an attribute is recorded: tabled only for the one-shot local deme
                        one_shot = any(o2.detail.startswith("one-shot") for o2 in c06.r06_4(ctx) if o2.subject.endswith(ci.name + ".run_metaepoch"))
                        obs.append(ctx.ob("R02.8", f, node.stmt, status=OK if one_shot else VIOLATION, detail=f"attribute-held list `{norm(a)}` recorded by a one-shot deme (filled before the append, deme deactivated after)" if one_shot else f"`{norm(a)}` stays reachable through the deme after being recorded and can be appended to later", construct=f"{f.short}:attr-list"))
    if n_app < 14:
        raise AnalysisError(f"only {n_app} history append sites found (17 confirmed by hand)")
    # mutation of lists obtained from accessors
    acc = ("current_population", "history", "all_individuals", "_history", "children")
    for f in ctx.prog.all_functions():
        if f.name == "<module>":
            continue
        for c in body_walk(f.node):
            if isinstance(c, ast.Call) and isinstance(c.func, ast.Attribute) and c.func.attr in LIST_MUT:
                holder = c.func.value
                while isinstance(holder, ast.Subscript):
                    holder = holder.value
                src = None
                if isinstance(holder, ast.Attribute) and holder.attr in ("current_population", "history", "all_individuals"):
                    src = norm(holder)
                elif isinstance(holder, ast.Name):
                    s2 = ctx.eff._alias_source(f, holder.id)
                    if s2 is not None and s2.rsplit(".", 1)[-1] in ("current_population", "history", "_history") :
                        src = s2
                if src is not None and not (c.func.attr == "append" and src.endswith("_history")) and not (growth_is_harmless and c.func.attr in GROW_ONLY):
                    obs.append(ctx.ob("R02.8", f, c, status=VIOLATION, detail=f"`{norm(c)[:60]}` mutates a list obtained from `{src}`: a recorded generation changes after the fact"))
    return obs


def r02_9(ctx: Ctx):
    """R02.9 sign-adapted optimiser values are converted back before being stored as fitness (shared with R13.6)."""
    out = []
    for o in c13.r13_6(ctx):
        o.rule = "R02.9"
        out.append(o)
    return out


def r02_10(ctx: Ctx):
    """R02.10 a population of freshly constructed individuals is evaluated on every path before it is recorded in the history (typestate per list variable)."""
    from ..cfg import typestate, witness_path

    obs = []
    n_sinks = 0
    for ci in ctx.concrete_demes():
        for f in ctx.prog.functions_in(ci):
            if f.parent is not None:
                continue
            sn = f.self_name() or "self"
            cfg = ctx.cfg(f)
            # local lists that end up in the history: appended to self._history directly or through a generation list
            gen_lists = set()
            for n in cfg.nodes:
                if n.kind == "stmt" and is_history_append(n.ast, sn):
                    for x in ast.walk(n.ast.value.args[0]) if n.ast.value.args else []:
                        if isinstance(x, ast.Name):
                            gen_lists.add(x.id)

            def fresh(e):
                if isinstance(e, ast.Call) and norm(e.func).endswith("create_population"):
                    return True
                if isinstance(e, ast.ListComp) and isinstance(e.elt, ast.Call) and norm(e.elt.func).split(".")[-1] == "Individual":
                    has_fit = len(e.elt.args) > 2 or any(k.arg == "fitness" for k in e.elt.keywords)
                    return not has_fit
                return False

            viol = []

            def node_fn(n, st):
                nonlocal n_sinks
                if n.ast is None or n.kind in ("entry", "exit"):
                    return [st]
                a = n.ast
                # sinks first (an argument is recorded as it is at this point)
                for c in ast.walk(a):
                    if isinstance(c, ast.Call) and isinstance(c.func, ast.Attribute) and c.func.attr in ("append", "extend", "insert") and c.args:
                        recv_hist = is_self_attr(c.func.value, "_history", sn) or (isinstance(c.func.value, ast.Name) and c.func.value.id in gen_lists)
                        if recv_hist:
                            names = {x.id for arg in c.args for x in ast.walk(arg) if isinstance(x, ast.Name)}
                            if names & (gen_lists | set(st)) or is_self_attr(c.func.value, "_history", sn):
                                n_sinks += 1
                            bad = names & set(st)
                            if bad:
                                viol.append((n, st, sorted(bad)[0]))
                # evaluation: evaluate_population(X); `for v in X: v.evaluate()`; any other call that is handed X (a helper may evaluate it)
                for c in ast.walk(a):
                    if isinstance(c, ast.Call) and not (isinstance(c.func, ast.Attribute) and c.func.attr in ("append", "extend", "insert")):
                        for arg in list(c.args) + [k.value for k in c.keywords]:
                            if isinstance(arg, ast.Name) and arg.id in st:
                                st = frozenset(st - {arg.id})
                loop = n.stmt if n.kind == "forhead" else None
                if isinstance(loop, ast.For) and isinstance(loop.iter, ast.Name) and loop.iter.id in st and isinstance(loop.target, ast.Name):
                    # every element is evaluated: the call is an unconditional statement of the body and nothing leaves the loop early
                    uncond = any(isinstance(b, ast.Expr) and isinstance(b.value, ast.Call) and isinstance(b.value.func, ast.Attribute) and b.value.func.attr == "evaluate" and isinstance(b.value.func.value, ast.Name) and b.value.func.value.id == loop.target.id for b in loop.body)
                    early = any(isinstance(x, (ast.Break, ast.Continue, ast.Return)) for b in loop.body for x in ast.walk(b))
                    if uncond and not early:
                        st = frozenset(st - {loop.iter.id})
                for c in ast.walk(a):
                    if isinstance(c, (ast.ListComp, ast.GeneratorExp)) and len(c.generators) == 1 and isinstance(c.generators[0].iter, ast.Name) and c.generators[0].iter.id in st and isinstance(c.elt, ast.Call) and isinstance(c.elt.func, ast.Attribute) and c.elt.func.attr == "evaluate":
                        st = frozenset(st - {c.generators[0].iter.id})
                if n.kind == "stmt" and isinstance(a, (ast.Assign, ast.AnnAssign)) and getattr(a, "value", None) is not None:
                    tg = a.targets if isinstance(a, ast.Assign) else [a.target]
                    for t in tg:
                        if isinstance(t, ast.Name):
                            if fresh(a.value) or (isinstance(a.value, ast.Name) and a.value.id in st):
                                st = frozenset(st | {t.id})
                            else:
                                st = frozenset(st - {t.id})
                return [st]

            typestate(cfg, [frozenset()], node_fn)
            seen = set()
            for n, st, nm in viol:
                if (n.id, nm) in seen:
                    continue
                seen.add((n.id, nm))
                obs.append(ctx.ob("R02.10", f, n.stmt, status=VIOLATION, detail=f"{f.short}: `{nm}` holds freshly constructed individuals that are recorded by `{n.label[:60]}` without having been evaluated on some path: the history exposes individuals with no (NaN / None) fitness", construct=f"{f.short}:{nm}"))
            if not any(o.subject.endswith(f.short) and o.rule == "R02.10" for o in obs) and any(n.kind == "stmt" and is_history_append(n.ast, sn) for n in cfg.nodes):
                obs.append(ctx.ob("R02.10", f, f.node, detail="every freshly constructed population is evaluated before it is recorded", construct=f"{f.short}:evaluated-before-recorded"))
    if n_sinks < 10:
        raise AnalysisError(f"only {n_sinks} recording sites of populations found")
    return obs


def shared_module_state(ctx: Ctx, rule: str, attrs: tuple | None = None):
    """A module-level mutable container that an instance keeps BY REFERENCE (`self.options = DEFAULT_OPTIONS`, or a parameter
    whose default is that global) and that pyhms then writes through the instance: the write lands in the module-level object,
    i.e. in every other instance that fell back to the default, now and later in the process.
    -> obligations; `attrs` restricts to the named instance attributes."""
    obs = []
    MUT = {"append", "extend", "insert", "update", "setdefault", "add", "pop", "popitem", "clear", "remove"}
    n = 0
    for ci in ctx.prog.classes.values():
        init = ci.methods.get("__init__")
        if init is None:
            continue
        isn = init.self_name()
        glob = ci.module.globals_

        def mutable_global(name):
            st = glob.get(name)
            v = getattr(st, "value", None)
            return v is not None and (isinstance(v, (ast.Dict, ast.List, ast.Set)) or (isinstance(v, ast.Call) and norm(v.func) in ("dict", "list", "set", "defaultdict")))

        a = init.node.args
        pos = a.posonlyargs + a.args
        dmap = dict(zip([x.arg for x in pos][len(pos) - len(a.defaults):], a.defaults)) if a.defaults else {}
        dmap.update({k.arg: d for k, d in zip(a.kwonlyargs, a.kw_defaults) if d is not None})
        aliased = {}
        for y in body_walk(init.node):
            if isinstance(y, (ast.Assign, ast.AnnAssign)) and getattr(y, "value", None) is not None and isinstance(y.value, ast.Name):
                g = None
                if mutable_global(y.value.id) and y.value.id not in init.params():
                    g = y.value.id
                elif y.value.id in dmap and isinstance(dmap[y.value.id], ast.Name) and mutable_global(dmap[y.value.id].id):
                    g = dmap[y.value.id].id
                if g is not None:
                    for t in (y.targets if isinstance(y, ast.Assign) else [y.target]):
                        if is_self_attr(t, None, isn) and (attrs is None or t.attr in attrs):
                            aliased[t.attr] = (g, y)
        if not aliased:
            continue
        n += 1
        writes = {}
        for f in ctx.prog.all_functions():
            if f.name == "<module>":
                continue
            for x in body_walk(f.node):
                tgt = None
                if isinstance(x, ast.Call) and isinstance(x.func, ast.Attribute) and x.func.attr in MUT:
                    tgt = x.func.value
                elif isinstance(x, (ast.Assign, ast.AugAssign, ast.Delete)):
                    for t in (x.targets if isinstance(x, (ast.Assign, ast.Delete)) else [x.target]):
                        if isinstance(t, ast.Subscript):
                            tgt = t.value
                        elif isinstance(x, ast.AugAssign) and isinstance(t, ast.Attribute):
                            tgt = t
                if not (isinstance(tgt, ast.Attribute) and tgt.attr in aliased):
                    continue
                own = f.cls is ci and is_self_attr(tgt, None, f.self_name())
                typed = False
                if not own:
                    t_ = ctx.res.type_of(tgt.value, f)
                    ms = [t_] if t_ is not None and t_[0] != "union" else list(t_[1]) if t_ is not None else []
                    typed = any(m_[0] == "inst" and m_[1] == ci.qualname for m_ in ms)
                if own or typed:
                    writes.setdefault(tgt.attr, (f, x))
        for attr, (g, y) in aliased.items():
            if attr in writes:
                f, x = writes[attr]
                obs.append(ctx.ob(rule, f, x, status=VIOLATION, detail=f"{ci.name}.{attr} can be the module-level `{g}` itself (kept by reference: `{norm(y)[:60]}`) and {f.short} writes into it (`{norm(x)[:60]}`): the write changes `{g}` for every other {ci.name} that relies on the defaults, in this and in every later run of the process", construct=f"{ci.name}.{attr}:aliased-global"))
            else:
                obs.append(ctx.ob(rule, init, y, detail=f"{ci.name}.{attr} may alias the module-level `{g}`, and nothing in pyhms writes into it", construct=f"{ci.name}.{attr}:aliased-global"))
    return obs


def r02_11(ctx: Ctx, every_module: bool = False):
    """R02.11 no evaluation result is kept in state shared between instances: a mutable container defined in a class body and mutated through `self` is one object for all instances (e.g. a fitness cache shared by different objectives)."""
    obs = []
    n = 0
    MUT = {"append", "extend", "insert", "update", "setdefault", "add", "pop", "clear", "remove", "__setitem__"}
    for ci in ctx.prog.classes.values():
        if not every_module and not ci.module.name.startswith(("pyhms.core", "pyhms.utils.cache", "pyhms.demes", "pyhms.sprout", "pyhms.stop_conditions")):
            continue
        n += 1
        shared = {}
        for st in ci.node.body:
            tgt, val = None, None
            if isinstance(st, ast.Assign) and len(st.targets) == 1 and isinstance(st.targets[0], ast.Name):
                tgt, val = st.targets[0].id, st.value
            elif isinstance(st, ast.AnnAssign) and isinstance(st.target, ast.Name) and st.value is not None:
                tgt, val = st.target.id, st.value
            if tgt and (isinstance(val, (ast.Dict, ast.List, ast.Set)) or (isinstance(val, ast.Call) and norm(val.func) in ("dict", "list", "set", "defaultdict", "collections.defaultdict", "OrderedDict"))):
                shared[tgt] = st
        if not shared:
            continue
        for m in ci.methods.values():
            sn = m.self_name()
            if sn is None:
                continue
            rebinds = {t.attr for x in body_walk(m.node) if isinstance(x, (ast.Assign, ast.AnnAssign)) for t in (x.targets if isinstance(x, ast.Assign) else [x.target]) if is_self_attr(t, None, sn)}
            for x in body_walk(m.node):
                hit = None
                if isinstance(x, ast.Call) and isinstance(x.func, ast.Attribute) and x.func.attr in MUT and is_self_attr(x.func.value, None, sn) and x.func.value.attr in shared:
                    hit = x.func.value.attr
                if isinstance(x, (ast.Assign, ast.AugAssign)):
                    for t in (x.targets if isinstance(x, ast.Assign) else [x.target]):
                        if isinstance(t, ast.Subscript) and is_self_attr(t.value, None, sn) and t.value.attr in shared:
                            hit = t.value.attr
                if hit is not None:
                    init = ci.methods.get("__init__")
                    init_rebinds = init is not None and hit in {t.attr for y in body_walk(init.node) if isinstance(y, (ast.Assign, ast.AnnAssign)) for t in (y.targets if isinstance(y, ast.Assign) else [y.target]) if is_self_attr(t, None, init.self_name())}
                    if not init_rebinds:
                        obs.append(ctx.ob("R02.11", m, x, status=VIOLATION, detail=f"{ci.name}.{hit} is a mutable container defined in the class body and written by {m.short} through `self`: one object shared by every instance (values stored for one problem are handed out for another)", construct=f"{ci.name}.{hit}"))
        # the other classic way to share one container between instances: a mutable DEFAULT ARGUMENT of the constructor that
        # is kept on the instance (`def __init__(self, cache={}): self._cache = cache`) and then written
        pass
    for ci in ctx.prog.classes.values():
        if not every_module and not ci.module.name.startswith(("pyhms.core", "pyhms.utils.cache", "pyhms.demes", "pyhms.sprout", "pyhms.stop_conditions")):
            continue
        init = ci.methods.get("__init__")
        if init is None:
            continue
        a = init.node.args
        pos = a.posonlyargs + a.args
        dmap = dict(zip([x.arg for x in pos][len(pos) - len(a.defaults):], a.defaults)) if a.defaults else {}
        dmap.update({k.arg: d for k, d in zip(a.kwonlyargs, a.kw_defaults) if d is not None})
        mut_params = {p_ for p_, d in dmap.items() if isinstance(d, (ast.Dict, ast.List, ast.Set)) or (isinstance(d, ast.Call) and norm(d.func) in ("dict", "list", "set", "defaultdict"))}
        if not mut_params:
            continue
        isn = init.self_name()
        kept = {}
        for y in body_walk(init.node):
            if isinstance(y, (ast.Assign, ast.AnnAssign)) and getattr(y, "value", None) is not None and isinstance(y.value, ast.Name) and y.value.id in mut_params:
                for t in (y.targets if isinstance(y, ast.Assign) else [y.target]):
                    if is_self_attr(t, None, isn):
                        kept[t.attr] = y
        for m in ci.methods.values():
            sn = m.self_name()
            if sn is None:
                continue
            for x in body_walk(m.node):
                hit = None
                if isinstance(x, ast.Call) and isinstance(x.func, ast.Attribute) and x.func.attr in MUT and is_self_attr(x.func.value, None, sn) and x.func.value.attr in kept:
                    hit = x.func.value.attr
                if isinstance(x, (ast.Assign, ast.AugAssign)):
                    for t in (x.targets if isinstance(x, ast.Assign) else [x.target]):
                        if isinstance(t, ast.Subscript) and is_self_attr(t.value, None, sn) and t.value.attr in kept:
                            hit = t.value.attr
                if hit is not None:
                    obs.append(ctx.ob("R02.11", m, x, status=VIOLATION, detail=f"{ci.name}.{hit} is the constructor's mutable default argument (`{norm(kept[hit])}`), one object for every instance built without that argument, and {m.short} writes to it: values stored for one problem are handed out for another", construct=f"{ci.name}.{hit}:default-arg"))
    if n < 40:
        raise AnalysisError(f"only {n} classes scanned for shared mutable class state")
    if not obs:
        obs.append(ctx.ob("R02.11", None, None, subject="pyhms", loc="-", detail=f"{n} classes: no container defined in a class body is mutated through an instance", construct="no-shared-class-state"))
    return obs


def r02_12(ctx: Ctx):
    """R02.12 an individual is never created with another level's fitness: `Individual(g, problem=<this deme's problem>, fitness=<sprout seed>.fitness)` pairs a genome with a value computed by the parent level's objective."""
    obs = []
    n = 0
    for ci in ctx.concrete_demes():
        for f in ctx.prog.functions_in(ci):
            defs = local_defs(f)
            for c in body_walk(f.node):
                if not (isinstance(c, ast.Call) and ctx.prog.resolve_class_expr(c.func, f.module) is ctx.prog.cls("Individual")):
                    continue
                n += 1
                fit = next((k.value for k in c.keywords if k.arg == "fitness"), c.args[2] if len(c.args) > 2 else None)
                if fit is None:
                    continue
                ft = canon(fit, defs)
                # a value taken from an external minimiser's bookkeeping (cma result.fbest, scipy result.fun) is the value the
                # minimiser was told - the sign-adapted objective - not the objective value itself
                ext = [x for x in ast.walk(fit) if isinstance(x, ast.Attribute) and x.attr in ("fbest", "fun", "f_best", "best_f")]
                if not ext and isinstance(fit, ast.Name):
                    ext = [x for d in defs.get(fit.id, []) for x in ast.walk(d) if isinstance(x, ast.Attribute) and x.attr in ("fbest", "fun", "f_best", "best_f")]
                if ext:
                    from . import c13

                    kinds = c13.Kinds(ctx, f)
                    signs = c13._sign_names(ctx, f)
                    adapted = c13._is_sign_adapted(fit, signs, kinds)
                    obs.append(ctx.ob("R02.12", f, c, status=OK if adapted else VIOLATION, detail=f"{ci.name}: fitness taken from the minimiser's bookkeeping and turned back into the objective's own sign" if adapted else f"{ci.name}: `{norm(c)[:90]}` stores `{norm(fit)}`, the value an external minimiser was told (the sign-adapted objective), as the individual's fitness: on a maximisation problem that is -f(genome)", construct=f"{ci.name}:minimiser-value"))
                    continue
                # the value handed to / prepared for a minimiser (`sign * f`) stored as the individual's fitness
                from . import c13 as _c13

                src_ = fit
                if isinstance(fit, ast.Name):
                    # a comprehension variable over zip(A, B): the corresponding operand
                    for comp in body_walk(f.node):
                        if isinstance(comp, ast.comprehension) and isinstance(comp.target, ast.Tuple) and isinstance(comp.iter, ast.Call) and norm(comp.iter.func) == "zip":
                            for el, a_ in zip(comp.target.elts, comp.iter.args):
                                if isinstance(el, ast.Name) and el.id == fit.id:
                                    src_ = a_
                kinds_ = _c13.Kinds(ctx, f)
                signs_ = _c13._sign_names(ctx, f)
                if _c13._is_sign_adapted(src_, signs_, kinds_):
                    obs.append(ctx.ob("R02.12", f, c, status=VIOLATION, detail=f"{ci.name}: `{norm(c)[:80]}` stores the SIGN-ADAPTED value (`{norm(src_)[:50]}`, what a minimiser is told) as the individual's fitness: on a maximisation problem the individual carries -f(genome), a value the objective never returned", construct=f"{ci.name}:sign-adapted-fitness"))
                    continue
                if ft.endswith(("sprout_seed.fitness", "_sprout_seed.fitness")) or (".sprout_seed" in ft and ft.endswith(".fitness")):
                    obs.append(ctx.ob("R02.12", f, c, status=VIOLATION, detail=f"{ci.name}: `{norm(c)[:80]}` attaches the sprout seed's fitness — computed by the parent level's problem — to an individual of this deme's own problem: with different objectives per level the stored value is not the objective value of the genome", construct=f"{ci.name}:seed-fitness"))
    if n < 8:
        raise AnalysisError(f"only {n} Individual constructions in deme classes found")
    if not obs:
        obs.append(ctx.ob("R02.12", None, None, subject="pyhms.demes", loc="-", detail=f"{n} Individual constructions in deme classes: none inherits the sprout seed's fitness", construct="no-foreign-fitness"))
    return obs


def r02_13(ctx: Ctx):
    """R02.13 genomes of recorded individuals are not rows of a buffer the deme keeps and overwrites: no `out=self.<attr>` / in-place arithmetic on an attribute-held array whose rows are wrapped in Individuals."""
    obs = []
    n = 0
    for ci in ctx.concrete_demes():
        for f in ctx.prog.functions_in(ci):
            if f.parent is not None:
                continue
            sn = f.self_name() or "self"
            n += 1
            buf_alias = {}
            for st in body_walk(f.node):
                if isinstance(st, ast.Assign) and len(st.targets) == 1 and isinstance(st.targets[0], ast.Name) and isinstance(st.value, ast.Call):
                    o = next((k.value for k in st.value.keywords if k.arg == "out"), None)
                    if o is not None and is_self_attr(o, None, sn):
                        buf_alias[st.targets[0].id] = o.attr
                if isinstance(st, ast.Assign) and len(st.targets) == 1 and isinstance(st.targets[0], ast.Name) and is_self_attr(st.value, None, sn):
                    # plain alias of an attribute that is written in place somewhere in the class
                    attr = st.value.attr
                    inplace = any(isinstance(y, ast.Call) and any(k.arg == "out" and is_self_attr(k.value, attr, (g.self_name() or "self")) for k in y.keywords) for g in ctx.prog.functions_in(ci) for y in body_walk(g.node)) or any(isinstance(y, ast.AugAssign) and is_self_attr(y.target, attr, (g.self_name() or "self")) for g in ctx.prog.functions_in(ci) for y in body_walk(g.node))
                    if inplace:
                        buf_alias[st.targets[0].id] = attr
            if not buf_alias:
                continue
            for c in body_walk(f.node):
                if isinstance(c, (ast.ListComp, ast.GeneratorExp)) and isinstance(c.elt, ast.Call) and norm(c.elt.func).split(".")[-1] == "Individual" and c.elt.args:
                    g = c.generators[0]
                    if isinstance(g.iter, ast.Name) and g.iter.id in buf_alias and isinstance(g.target, ast.Name) and norm(c.elt.args[0]) == g.target.id:
                        obs.append(ctx.ob("R02.13", f, c, status=VIOLATION, detail=f"{ci.name}: the individuals' genomes are rows (views) of `{g.iter.id}`, which is the deme's reusable buffer `self.{buf_alias[g.iter.id]}` written in place: the next sample overwrites the genomes of every generation already recorded in the history", construct=f"{ci.name}:{buf_alias[g.iter.id]}"))
    if n < 10:
        raise AnalysisError(f"only {n} deme methods scanned")
    if not obs:
        obs.append(ctx.ob("R02.13", None, None, subject="pyhms.demes", loc="-", detail=f"{n} deme methods: no recorded genome is a view of a buffer the deme keeps writing", construct="no-buffer-views"))
    return obs


def r02_14(ctx: Ctx):
    """R02.14 `Individual.clone()` hands out an individual WITHOUT fitness (it is the offspring helper): a clone that is kept -
    stored in an attribute, recorded, returned as a seed - without being evaluated first is a stored individual that does not
    carry the objective value of its genome."""
    obs = []
    n = 0
    for f in ctx.prog.all_functions():
        if f.name == "<module>" or f.module.name.startswith("pyhms.utils.visualisation"):
            continue
        defs = local_defs(f)
        for c in body_walk(f.node):
            if not (isinstance(c, ast.Call) and isinstance(c.func, ast.Attribute) and c.func.attr == "clone" and not c.args):
                continue
            cs = next((s_ for s_ in ctx.res.callsites(f) if s_.node is c), None)
            if cs is not None and cs.targets and not any(t.cls is not None and t.cls.name == "Individual" for t in cs.targets):
                continue
            n += 1
            # where does the clone go?
            kept = None
            names = set()
            for y in body_walk(f.node):
                if isinstance(y, (ast.Assign, ast.AnnAssign)) and getattr(y, "value", None) is not None and any(x is c for x in ast.walk(y.value)):
                    for t in (y.targets if isinstance(y, ast.Assign) else [y.target]):
                        if isinstance(t, ast.Attribute):
                            kept = y
                        elif isinstance(t, ast.Name):
                            names.add(t.id)
            evaluated = any(isinstance(y, ast.Call) and ((isinstance(y.func, ast.Attribute) and y.func.attr in ("evaluate", "evaluate_population") and (norm(y.func.value) in names or any(isinstance(a, ast.Name) and a.id in names for a in y.args))) or (isinstance(y.func, ast.Attribute) and y.func.attr == "evaluate" and any(x is c for x in ast.walk(y.func.value)))) for y in body_walk(f.node))
            if kept is None and names:
                for y in body_walk(f.node):
                    if isinstance(y, (ast.Assign, ast.AnnAssign)) and isinstance(getattr(y, "value", None), ast.Name) and y.value.id in names and any(isinstance(t, ast.Attribute) for t in (y.targets if isinstance(y, ast.Assign) else [y.target])):
                        kept = y
            if kept is not None and not evaluated:
                obs.append(ctx.ob("R02.14", f, kept, status=VIOLATION, detail=f"{f.short} keeps `{norm(kept)[:70]}`: clone() resets the fitness, so the stored individual has a genome and no objective value of it", construct=f"{f.short}:clone-kept"))
            else:
                obs.append(ctx.ob("R02.14", f, c, detail=f"{f.short}: the clone is {'evaluated' if evaluated else 'not kept in an attribute'}", construct=f"{f.short}:clone"))
    if n == 0:
        obs.append(ctx.ob("R02.14", None, None, subject="pyhms", loc="-", detail="no individual is cloned in pyhms (clone() is a helper for user-defined operators)", construct="no-clone"))
    return obs


def r02_15(ctx: Ctx):
    """R02.15 a recorded generation is not edited in place: no store / remove / insert through a local alias of
    `self._history[...]` or of `current_population` (the last recorded generation) - the record would show other individuals
    than the ones that were registered."""
    from .common import foreign_history_writes

    return foreign_history_writes(ctx, "R02.15", "the genomes / fitness values of a generation change after it was recorded", foreign=False)


RULES = [
    ("R02.1", r02_1, 8),
    ("R02.2", r02_2, 2),
    ("R02.3", r02_3, 8),
    ("R02.4", r02_4, 7),
    ("R02.5", r02_5, 5),
    ("R02.6", r02_6, 2),
    ("R02.7", r02_7, 1),
    ("R02.8", r02_8, 14),
    ("R02.9", r02_9, 1),
    ("R02.10", r02_10, 8),
    ("R02.11", r02_11, 1),
    ("R02.12", r02_12, 1),
    ("R02.13", r02_13, 1),
    ("R02.14", r02_14, 1),
    ("R02.15", r02_15, 1),
]
