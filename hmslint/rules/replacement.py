"""Three-valued semantics of the slot-wise replacement mask of DE / SHADE (shared by C04, C12 and C13).

The survivor selection of DE.run / SHADE.run has the shape  T[m].merge(P[~m])  with one boolean mask m computed from
the trial fitness array t and the parent fitness array p.  For each optimisation direction and each relation of a
(trial, parent) pair in the problem's direction — better / tie / worse — the mask expression is evaluated to
T (trial kept), F (parent kept), M (depends on the values: e.g. np.isclose for unequal values) or ? (not understood).
Each property then states its own requirement on that table:

  C12  never lose ground        worse  -> F   in both directions
  C04  best observed is kept    better -> T   in both directions (a discarded parent was recorded a generation earlier)
  C13  direction symmetry       the row for maximize equals the row for minimize
"""
from __future__ import annotations

import ast
import copy

from ..core import INCONCLUSIVE, OK, VIOLATION, Ctx, _Subst, canon, local_defs
from ..direction import _reads_maximize
from ..model import body_walk, norm

T, F, M, U = "T", "F", "M", "?"


def _or(a, b):
    if T in (a, b):
        return T
    if U in (a, b):
        return U
    if M in (a, b):
        return M
    return F


def _and(a, b):
    if F in (a, b):
        return F
    if U in (a, b):
        return U
    if M in (a, b):
        return M
    return T


def _not(a):
    return {T: F, F: T}.get(a, a)


def _atom(e: ast.AST, t_txt: str, p_txt: str, order: str) -> str:
    """order in {'lt','eq','gt'}: numeric relation of the trial's fitness to the parent's."""
    if isinstance(e, ast.Compare) and len(e.ops) == 1:
        # (a - b) OP 0  ==  a OP b ;  0 OP (a - b)  ==  b OP a
        for side, other, flip in ((e.left, e.comparators[0], False), (e.comparators[0], e.left, True)):
            if isinstance(side, ast.BinOp) and isinstance(side.op, ast.Sub) and isinstance(other, ast.Constant) and other.value == 0 and not isinstance(other.value, bool):
                a_, b_ = (side.left, side.right) if not flip else (side.right, side.left)
                return _atom(ast.Compare(left=a_, ops=e.ops, comparators=[b_]), t_txt, p_txt, order)
        l, r = canon(e.left), canon(e.comparators[0])
        op = type(e.ops[0])
        if {l, r} == {t_txt, p_txt}:
            if l == p_txt:  # p OP t  ==  t OP' p
                op = {ast.Lt: ast.Gt, ast.Gt: ast.Lt, ast.LtE: ast.GtE, ast.GtE: ast.LtE}.get(op, op)
            table = {
                ast.Lt: {"lt": T, "eq": F, "gt": F},
                ast.LtE: {"lt": T, "eq": T, "gt": F},
                ast.Gt: {"lt": F, "eq": F, "gt": T},
                ast.GtE: {"lt": F, "eq": T, "gt": T},
                ast.Eq: {"lt": F, "eq": T, "gt": F},
                ast.NotEq: {"lt": T, "eq": F, "gt": T},
            }
            if op in table:
                return table[op][order]
    if isinstance(e, ast.Call):
        fn = norm(e.func)
        args = [canon(a) for a in e.args]
        if fn.split(".")[-1] in ("isclose",) and set(args[:2]) == {t_txt, p_txt}:
            return T if order == "eq" else M
        if fn.split(".")[-1] in ("less", "less_equal", "greater", "greater_equal", "equal", "not_equal") and len(e.args) == 2:
            op = {"less": ast.Lt, "less_equal": ast.LtE, "greater": ast.Gt, "greater_equal": ast.GtE, "equal": ast.Eq, "not_equal": ast.NotEq}[fn.split(".")[-1]]
            return _atom(ast.Compare(left=e.args[0], ops=[op()], comparators=[e.args[1]]), t_txt, p_txt, order)
    return U


def mask_value(e: ast.AST, t_txt: str, p_txt: str, maximize: bool, order: str) -> str:
    if isinstance(e, ast.IfExp):
        pol = _reads_maximize(e.test)
        if pol:
            arm = e.body if (pol == 1) == maximize else e.orelse
            return mask_value(arm, t_txt, p_txt, maximize, order)
        return U
    if isinstance(e, ast.BinOp) and isinstance(e.op, (ast.BitOr, ast.BitAnd)):
        a, b = mask_value(e.left, t_txt, p_txt, maximize, order), mask_value(e.right, t_txt, p_txt, maximize, order)
        return _or(a, b) if isinstance(e.op, ast.BitOr) else _and(a, b)
    if isinstance(e, ast.BinOp) and isinstance(e.op, ast.BitXor):
        # mask ^ maximize-flag style inversion is not modelled
        return U
    if isinstance(e, ast.UnaryOp) and isinstance(e.op, (ast.Invert, ast.Not)):
        return _not(mask_value(e.operand, t_txt, p_txt, maximize, order))
    if isinstance(e, ast.Call):
        fn = norm(e.func).split(".")[-1]
        if fn in ("logical_or", "logical_and") and len(e.args) == 2:
            a, b = mask_value(e.args[0], t_txt, p_txt, maximize, order), mask_value(e.args[1], t_txt, p_txt, maximize, order)
            return _or(a, b) if fn == "logical_or" else _and(a, b)
        if fn == "logical_not" and len(e.args) == 1:
            return _not(mask_value(e.args[0], t_txt, p_txt, maximize, order))
        if fn == "where" and len(e.args) == 3:
            pol = _reads_maximize(e.args[0])
            if pol:
                arm = e.args[1] if (pol == 1) == maximize else e.args[2]
                return mask_value(arm, t_txt, p_txt, maximize, order)
    return _atom(e, t_txt, p_txt, order)


def replacement_table(ctx: Ctx, cname: str):
    """-> dict(status, why, node, table) where table[(maximize, rel)] in {T, F, M, ?}, rel in better / tie / worse."""
    r = ctx.prog.own_method(cname, "run")
    d = local_defs(r)
    # a name that is both the flag of a switch and reassigned is not substituted
    def masky(x):
        return any(isinstance(y, ast.Compare) for y in ast.walk(x)) or any(isinstance(y, ast.Call) and norm(y.func).split(".")[-1] in ("isclose", "logical_or", "logical_and", "logical_not", "less", "greater", "less_equal", "greater_equal", "where") for y in ast.walk(x)) or (isinstance(x, ast.Attribute) and x.attr in ("fitnesses", "maximize")) or (isinstance(x, ast.BinOp) and isinstance(x.op, ast.Sub) and all(isinstance(y, ast.Attribute) and y.attr == "fitnesses" for y in (x.left, x.right)))

    sub = _Subst({k: v for k, v in d.items() if len(v) == 1 and not isinstance(v[0], ast.AugAssign) and masky(v[0])}, 5)
    def res1(e):
        hops = 0
        while isinstance(e, ast.Name) and len(d.get(e.id, [])) == 1 and isinstance(d[e.id][0], (ast.Subscript, ast.Name)) and hops < 3:
            e = d[e.id][0]
            hops += 1
        return e

    # X.merge(Y) with X / Y possibly named first: rebuild the call over the resolved operands
    merges = []
    for c0 in body_walk(r.node):
        if isinstance(c0, ast.Call) and isinstance(c0.func, ast.Attribute) and c0.func.attr == "merge" and len(c0.args) == 1:
            a, b = res1(c0.func.value), res1(c0.args[0])
            if isinstance(a, ast.Subscript) and isinstance(b, ast.Subscript):
                c = ast.Call(func=ast.Attribute(value=a, attr="merge", ctx=ast.Load()), args=[b], keywords=[])
                ast.copy_location(c, c0)
                ast.fix_missing_locations(c)
                merges.append(c)
    # the same selection written with integer positions into the merged population:
    #   A.merge(B)[concatenate((flatnonzero(M1), flatnonzero(M2) + A.size))]   ==   A[M1].merge(B[M2])
    def resolve(e, hops=0):
        while isinstance(e, ast.Name) and len(d.get(e.id, [])) == 1 and not isinstance(d[e.id][0], ast.AugAssign) and hops < 4:
            e = d[e.id][0]
            hops += 1
        return e

    def positions_of(e):
        """mask M such that e == positions where M is true, else None"""
        e = resolve(e)
        if isinstance(e, ast.Call) and norm(e.func) in ("np.flatnonzero", "numpy.flatnonzero") and len(e.args) == 1:
            return e.args[0]
        if isinstance(e, ast.Subscript) and isinstance(e.slice, ast.Constant) and e.slice.value == 0 and isinstance(e.value, ast.Call) and norm(e.value.func) in ("np.where", "np.nonzero") and len(e.value.args) == 1:
            return e.value.args[0]
        return None

    for sb in body_walk(r.node):
        if not (isinstance(sb, ast.Subscript) and isinstance(resolve(sb.value), ast.Call)):
            continue
        mg = resolve(sb.value)
        if not (isinstance(mg.func, ast.Attribute) and mg.func.attr == "merge" and len(mg.args) == 1):
            continue
        idx = resolve(sb.slice)
        parts = None
        if isinstance(idx, ast.Call) and norm(idx.func) in ("np.concatenate", "np.hstack") and len(idx.args) == 1 and isinstance(idx.args[0], (ast.Tuple, ast.List)) and len(idx.args[0].elts) == 2:
            parts = idx.args[0].elts
        elif isinstance(idx, ast.Call) and norm(idx.func) == "np.append" and len(idx.args) == 2:
            parts = idx.args
        if parts is None:
            continue
        a_pop, b_pop = mg.func.value, mg.args[0]
        m1 = positions_of(parts[0])
        p2 = resolve(parts[1])
        m2 = None
        if isinstance(p2, ast.BinOp) and isinstance(p2.op, ast.Add):
            for x, y in ((p2.left, p2.right), (p2.right, p2.left)):
                if positions_of(x) is not None and canon(y, d) in (f"{norm(a_pop)}.size", f"len({norm(a_pop)}.fitnesses)", f"len({norm(a_pop)}.genomes)", f"{norm(a_pop)}.genomes.shape[0]"):
                    m2 = positions_of(x)
        if m1 is not None and m2 is not None:
            c = ast.Call(func=ast.Attribute(value=ast.Subscript(value=a_pop, slice=m1, ctx=ast.Load()), attr="merge", ctx=ast.Load()), args=[ast.Subscript(value=b_pop, slice=m2, ctx=ast.Load())], keywords=[])
            ast.copy_location(c, sb)
            ast.fix_missing_locations(c)
            merges.append(c)
    half = [c for c in body_walk(r.node) if isinstance(c, ast.Call) and isinstance(c.func, ast.Attribute) and c.func.attr == "merge" and c.args and (isinstance(c.func.value, ast.Subscript) != isinstance(c.args[0], ast.Subscript)) and isinstance(c.func.value, (ast.Subscript, ast.Name)) and isinstance(c.args[0], (ast.Subscript, ast.Name))]
    if not merges and half:
        c = half[0]
        whole = c.args[0] if isinstance(c.func.value, ast.Subscript) else c.func.value
        return {"status": VIOLATION, "why": f"`{norm(c)[:90]}` keeps every row of `{norm(whole)}` in addition to the masked rows of the other population: the population grows", "node": c, "table": None, "f": r, "grows": True}
    if not merges:
        return {"status": INCONCLUSIVE, "why": "no `T[mask].merge(P[~mask])` found", "node": r.node, "table": None, "f": r}
    # the trial population is the one evaluated in this function
    evaluated = {norm(c.func.value) for c in body_walk(r.node) if isinstance(c, ast.Call) and isinstance(c.func, ast.Attribute) and c.func.attr == "evaluate" and not c.args}
    for c in merges:
        a_pop, a_mask = c.func.value.value, c.func.value.slice
        b_pop, b_mask = c.args[0].value, c.args[0].slice
        am = sub.visit(copy.deepcopy(a_mask))
        bm = sub.visit(copy.deepcopy(b_mask))

        def is_complement(x, y):
            cx, cy = canon(x), canon(y)
            return cx in (f"~{cy}", f"~({cy})", f"np.logical_not({cy})", f"np.invert({cy})") or cy in (f"~{cx}", f"~({cx})", f"np.logical_not({cx})", f"np.invert({cx})")

        complement_why = None
        if not is_complement(am, bm):
            same = canon(am) == canon(bm)
            complement_why = (VIOLATION if same else INCONCLUSIVE, f"the rows kept are `{norm(c.func.value)}` and `{norm(c.args[0])}`: the second mask is not the complement of the first, slots are lost or duplicated")
        # orient: which side is the trial
        if norm(a_pop) in evaluated and norm(b_pop) not in evaluated:
            t_pop, p_pop, mask = a_pop, b_pop, am
        elif norm(b_pop) in evaluated and norm(a_pop) not in evaluated:
            t_pop, p_pop, mask = b_pop, a_pop, bm
        else:
            return {"status": INCONCLUSIVE, "why": "cannot tell which of the merged populations is the freshly evaluated trial population", "node": c, "table": None, "f": r}
        t_txt, p_txt = f"{norm(t_pop)}.fitnesses", f"{norm(p_pop)}.fitnesses"
        table = {}
        for mx in (True, False):
            for rel in ("better", "tie", "worse"):
                order = "eq" if rel == "tie" else ("gt" if (rel == "better") == mx else "lt")
                table[(mx, rel)] = mask_value(mask, t_txt, p_txt, mx, order)
        return {"status": OK, "why": "", "node": c, "table": table, "f": r, "mask": norm(mask)[:120], "complement": complement_why}
    return {"status": INCONCLUSIVE, "why": "merge not understood", "node": r.node, "table": None, "f": r}


def obligations(ctx: Ctx, rule: str, need: str):
    """need: 'never-worse' (C12), 'keep-better' (C04), 'symmetric' (C13)"""
    obs = []
    for cname in ("DE", "SHADE"):
        rt = replacement_table(ctx, cname)
        f, node, tb = rt["f"], rt["node"], rt["table"]
        cons = f"{cname}:greedy"
        if tb is None:
            st = rt["status"]
            if st == VIOLATION and need != "never-worse":
                st = INCONCLUSIVE  # slot bookkeeping (sizes) is C12's concern
            obs.append(ctx.ob(rule, f, node, status=st, detail=f"{cname}: {rt['why']}", construct=cons))
            continue
        if need == "never-worse" and rt.get("complement") is not None:
            st, why = rt["complement"]
            obs.append(ctx.ob(rule, f, node, status=st, detail=f"{cname}: {why}", construct=cons))
            continue
        row = lambda mx: {rel: tb[(mx, rel)] for rel in ("better", "tie", "worse")}  # noqa: E731
        desc = f"mask `{rt['mask']}`: maximise {row(True)}, minimise {row(False)}"
        if need == "never-worse":
            vals = [tb[(mx, "worse")] for mx in (True, False)]
            if all(v == F for v in vals):
                obs.append(ctx.ob(rule, f, node, detail=f"{cname}: a trial that is worse than its parent never replaces it ({desc})", construct=cons))
            elif any(v in (T, M) for v in vals):
                obs.append(ctx.ob(rule, f, node, status=VIOLATION, detail=f"{cname}: a trial that is WORSE than its parent can replace it ({desc}): the population loses ground", construct=cons))
            else:
                obs.append(ctx.ob(rule, f, node, status=INCONCLUSIVE, detail=f"{cname}: cannot evaluate the replacement mask for a worse trial ({desc})", construct=cons))
        elif need == "keep-better":
            vals = [tb[(mx, "better")] for mx in (True, False)]
            if all(v == T for v in vals):
                obs.append(ctx.ob(rule, f, node, detail=f"{cname}: a trial that is better than its parent is always kept ({desc})", construct=cons))
            elif any(v == F for v in vals):
                obs.append(ctx.ob(rule, f, node, status=VIOLATION, detail=f"{cname}: a trial that is BETTER than its parent is discarded ({desc}): an evaluated point better than everything recorded can be lost", construct=cons))
            else:
                obs.append(ctx.ob(rule, f, node, status=INCONCLUSIVE, detail=f"{cname}: cannot evaluate the replacement mask for a better trial ({desc})", construct=cons))
        else:
            diff = [rel for rel in ("better", "tie", "worse") if tb[(True, rel)] != tb[(False, rel)]]
            definite = [rel for rel in diff if {tb[(True, rel)], tb[(False, rel)]} == {T, F}]
            if not diff and U not in tb.values():
                obs.append(ctx.ob(rule, f, node, detail=f"{cname}: the replacement decision is the same for (f, maximise) and (-f, minimise) ({desc})", construct=cons))
            elif definite:
                obs.append(ctx.ob(rule, f, node, status=VIOLATION, detail=f"{cname}: for a trial that is {definite[0]} {'than' if definite[0] != 'tie' else 'with'} its parent the decision differs between maximising and minimising ({desc})", construct=cons))
            else:
                obs.append(ctx.ob(rule, f, node, status=INCONCLUSIVE, detail=f"{cname}: cannot compare the replacement decision of the two directions ({desc})", construct=cons))
    return obs
