"""C13 — maximising f behaves exactly like minimising -f (decided decision by decision)."""
from __future__ import annotations

import ast

from ..core import INCONCLUSIVE, OK, VIOLATION, Ctx, canon, is_self_attr, local_defs, parents_map
from ..direction import NP_ORDER_FUNCS, PY_ORDER_FUNCS, Kinds, Switch, _reads_maximize, dual, find_switches, polarity, token
from ..model import AnalysisError, body_walk, norm

CLAIM = """Decides the direction discipline of every comparison-based decision in pyhms: (R13.1) every order-sensitive use of
objective values (<, >, <=, >=, sort/min/max/argsort/argmin/argmax with a fitness operand or key, and the objective / values
handed to the external minimisers cma and scipy) is either inside an arm of a `maximize` switch, applied to a value multiplied
by a sign that is itself a maximize switch (-1 when maximising), or tabled as direction-free / documented exception;
(R13.2) the two arms of every maximize switch are images of each other under the max<->min dual map (argmax/argmin, front/back
of an argsort, >=/<=, </>, -inf/+inf, -1/+1) and the maximising arm has the polarity its role demands; (R13.3) ordering
operations on Individual objects use the direction-aware order exactly once: max(...) for best, sorted/sort(reverse=True) for
best-first, `>` for better-than, with no further dependence on the direction (a reverse= computed from maximize is a double
application) and no min()/ascending sort; (R13.4) Individual.__lt__/__eq__ delegate to problem.worse_than/equivalent with
(self, other) in that order; (R13.5) both call sites that hand an objective to scipy agree on sign adaptation; (R13.6) values
obtained from a sign-adapted optimiser are converted back with the same sign before being stored as fitness. (R13.7) only NaN tests precede the switch of worse_than and no operand is replaced by a fixed signed stand-in; (R13.8) a direction kept or lazily cached in an object is the problem's own; (R13.9) the index-stable engines select in the same order in both directions; (R13.10) no inherited fixed infinite sentinel; (R13.11) comparison operands are not shifted by a fixed-sign amount. (R13.12) no fixed position is read out of a top-k population outside a maximize switch; a direction resolved once in a constructor from a direction-named parameter is followed to every construction site (R13.8); the value of a sign-adapted objective reported by an optimiser is not handed to worse_than / equivalent (R13.11); an argsort used as a whole permutation selects nothing."""
NOTE = """The whole-run identity of twin runs on (f, max) and (-f, min) is not decided (it quantifies over executions); only that every
decision is taken through a direction-symmetric construct. FitnessSteadiness (mean minus minimum of raw values) and the
multiwinner utility are documented exceptions named in the property. cma and scipy minimise what they are given (external summary)."""
TECHNIQUE = "value-kind inference + order-sensitive sink detection + polarity/duality analysis of maximize switches (custom ast abstract interpretation)"
EXPLANATION = """
Fitness-kind expressions are inferred per function (attribute names fitness/fitnesses, results of evaluate, parameters named
*fitness*, and everything defined from them). Each order-sensitive operation on such a value is a sink that must be covered
as stated in the claim; every `maximize` test found in pyhms (>= 12 switches) is paired into (maximising arm, minimising arm),
both arms are abstracted to polarity tokens, the dual of one must equal the other, and the maximising arm's polarity is
compared with the role table below (one line of reason per site); untabled new switches are held to the defaults
(select LARGE / at-least-as-large / sign -1).
"""
ASSUMPTIONS = ["numpy argsort is ascending; argmax/argmin/max/min select a largest/smallest element", "cma tell() and scipy.optimize.minimize minimise"]

# role of each existing switch: expected polarity of the arm taken when maximising (reason)
ROLES = {
    "FunctionProblem.worse_than": ("LT", "worse-than predicate: when maximising the smaller value is the worse one"),
    "EvalCutoffProblem.evaluate": ("SMALLEST", "refusal returns the worst possible value"),
    "Population.topk": ("LARGE", "best-k selector"),
    "TournamentSelection.__call__": ("LARGE", "tournament winner = best of the group"),
    "CurrentToPBestMutation.__call__": ("LARGE", "p-best candidates = front of a best-first order"),
    "DE.run": ("GE", "trial replaces parent when at least as good"),
    "SHADE.run": ("GE", "trial replaces parent when at least as good"),
    "LocalOptimizationMergeCondition._local_optimization.objective": ("NEG", "sign adapter for scipy's minimiser"),
    "LocalOptimizationMergeCondition._local_optimization": ("NEG", "sign adapter for scipy's minimiser"),
    "HillValleyMergeCondition._hill_valley_function": ("SMALL", "hill-valley test compares with the WORSE of the two end points"),
    "CMADeme.run_metaepoch": ("NEG", "sign adapter for CMA-ES, which minimises"),
    "LocalDeme.__init__": ("NEG", "sign adapter for scipy's minimiser"),
    "LocalDeme.run_metaepoch": ("NEG", "sign adapter for scipy's minimiser"),
    "UtilityFunction.evaluate": ("TABLED", "multiwinner utility is direction-specific by design (named in the property)"),
}
DEFAULT_POLARITY = {"LARGE": "LARGE", "SMALL": "LARGE", "GE": "GE", "LE": "GE", "NEG": "NEG", "POS": "NEG"}

# functions whose raw use of fitness values is a documented exception (reason)
RAW_EXCEPTIONS = {
    "FitnessSteadiness.__call__": "documented as mean-minus-minimum of raw values (named in the property)",
    "UtilityFunction.evaluate_population": "shifts fitness to be non-negative for the multiwinner utility (direction-specific by design)",
}
# modules that only plot / analyse finished runs (no search decision is taken there)
NON_DECISION_MODULES = ("pyhms.utils.visualisation", "pyhms.utils.deme_performance", "pyhms.cluster.kriging", "pyhms.cluster.landscape_approximator")


def _enclosing_switch_arm(node, parents, f) -> bool:
    cur = node
    dirloc = getattr(f, "_dir_locals", {})
    while id(cur) in parents:
        par = parents[id(cur)]
        if isinstance(par, (ast.IfExp, ast.If)):
            t = par.test
            p = _reads_maximize(t)
            if not p:
                tt = t
                while isinstance(tt, ast.UnaryOp) and isinstance(tt.op, ast.Not):
                    tt = tt.operand
                if isinstance(tt, ast.Name) and tt.id in dirloc:
                    p = 1
            if p and cur is not par.test:
                return True
        cur = par
    return False


def _sign_names(ctx, f) -> set[str]:
    """Locals / self attributes defined as `-1 if maximize else 1` (sign adapters)."""
    out = set()
    defs = local_defs(f)
    for name, ds in defs.items():
        if ds and all(isinstance(d, ast.IfExp) and _reads_maximize(d.test) and token([d.body])[0] == "SIGN" and token([d.orelse])[0] == "SIGN" for d in ds):
            out.add(name)
    if f.cls is not None:
        for c in ctx.prog.mro(f.cls):
            for m in c.methods.values():
                sn = m.self_name()
                for n in body_walk(m.node):
                    if isinstance(n, ast.Assign) and len(n.targets) == 1 and is_self_attr(n.targets[0], None, sn) and isinstance(n.value, ast.IfExp) and _reads_maximize(n.value.test) and token([n.value.body])[0] == "SIGN":
                        out.add("self." + n.targets[0].attr)
    return out


def _is_inline_sign(a: ast.AST) -> bool:
    return isinstance(a, ast.IfExp) and bool(_reads_maximize(a.test)) and token([a.body])[0] == "SIGN" and token([a.orelse])[0] == "SIGN"


def _is_sign_adapted(e: ast.AST, signs: set[str], kinds: Kinds, depth=0) -> bool:
    """Is e (a fitness-kind expression) multiplied by a sign adapter?"""
    if depth > 6:
        return False
    if isinstance(e, ast.BinOp) and isinstance(e.op, ast.Mult):
        for a, b in ((e.left, e.right), (e.right, e.left)):
            if norm(a) in signs or _is_inline_sign(a):
                return True
    if isinstance(e, ast.Subscript):
        # rows picked out of a sign-adapted array
        return _is_sign_adapted(e.value, signs, kinds, depth + 1)
    if isinstance(e, ast.IfExp) and _reads_maximize(e.test):
        # `-v if maximize else v`
        arms = (e.body, e.orelse)
        neg = [isinstance(x, ast.UnaryOp) and isinstance(x.op, ast.USub) for x in arms]
        if neg[0] != neg[1]:
            plain = arms[1] if neg[0] else arms[0]
            negd = arms[0].operand if neg[0] else arms[1].operand
            if norm(plain) == norm(negd):
                return True
    if isinstance(e, (ast.ListComp, ast.GeneratorExp)):
        # projection of a list of tuples built elsewhere: [v for _, v in pairs] with pairs = [(g, s * f) for ...]
        if len(e.generators) == 1 and isinstance(e.generators[0].target, ast.Tuple) and isinstance(e.elt, ast.Name) and isinstance(e.generators[0].iter, ast.Name) and e.generators[0].iter.id in kinds.defs:
            pos = [k for k, x in enumerate(e.generators[0].target.elts) if isinstance(x, ast.Name) and x.id == e.elt.id]
            ds = [d for d in kinds.defs[e.generators[0].iter.id] if not isinstance(d, ast.AugAssign)]
            if len(pos) == 1 and ds and all(isinstance(d, (ast.ListComp, ast.GeneratorExp)) and isinstance(d.elt, ast.Tuple) and len(d.elt.elts) == len(e.generators[0].target.elts) for d in ds):
                return all(_is_sign_adapted(d.elt.elts[pos[0]], signs, kinds, depth + 1) for d in ds)
        return _is_sign_adapted(e.elt, signs, kinds, depth + 1)
    if isinstance(e, ast.Name) and e.id in kinds.defs:
        ds = [d for d in kinds.defs[e.id] if not isinstance(d, ast.AugAssign)]
        return bool(ds) and all(_is_sign_adapted(d, signs, kinds, depth + 1) for d in ds)
    if isinstance(e, ast.Call) and norm(e.func).split(".")[-1] in ("array", "asarray", "list") and e.args:
        return _is_sign_adapted(e.args[0], signs, kinds, depth + 1)
    return False


_LOG_METHODS = ("debug", "info", "warning", "warn", "error", "critical", "exception", "log", "log_debug", "msg")


def _is_log_call(c) -> bool:
    return isinstance(c, ast.Call) and isinstance(c.func, ast.Attribute) and c.func.attr in _LOG_METHODS and ("log" in norm(c.func).lower())


def _only_logged(f, node, parents) -> bool:
    """the value of `node` ends in the arguments of a logging call and nowhere else (directly, or through one local that is only
    read inside logging calls)"""
    q = node
    while q is not None and not isinstance(q, ast.stmt):
        p_ = parents.get(id(q))
        if _is_log_call(p_) and q is not p_.func:
            return True
        if isinstance(p_, (ast.If, ast.While, ast.IfExp)) and q is getattr(p_, "test", None):
            return False
        q = p_
    if isinstance(q, ast.Assign) and len(q.targets) == 1 and isinstance(q.targets[0], ast.Name):
        nm = q.targets[0].id
        reads = [x for x in body_walk(f.node) if isinstance(x, ast.Name) and x.id == nm and isinstance(x.ctx, ast.Load)]
        if not reads:
            return False
        for x in reads:
            y, inside = x, False
            while y is not None and not isinstance(y, ast.stmt):
                p_ = parents.get(id(y))
                if _is_log_call(p_) and y is not p_.func:
                    inside = True
                    break
                y = p_
            if not inside:
                return False
        return True
    return False


def _whole_permutation(f, call, parents) -> bool:
    """the argsort result is only ever used as a complete index (`A[perm]`), never cut or read at a position"""
    p_ = parents.get(id(call))
    names = []
    if isinstance(p_, ast.Assign) and len(p_.targets) == 1 and isinstance(p_.targets[0], ast.Name) and p_.value is call:
        names = [p_.targets[0].id]
        uses = [x for x in body_walk(f.node) if isinstance(x, ast.Name) and x.id == names[0] and isinstance(x.ctx, ast.Load)]
    elif isinstance(p_, ast.Subscript) and p_.slice is call:
        # X[np.argsort(..)]: whole use, provided the subscripted value is then not cut either (that is the caller's rows)
        return True
    else:
        return False
    if not uses:
        return False
    for u in uses:
        q = parents.get(id(u))
        if not (isinstance(q, ast.Subscript) and q.slice is u):
            return False
    return True


def r13_1(ctx: Ctx):
    """R13.1 no raw order-sensitive use of objective values outside a maximize switch / sign adapter / tabled exception."""
    find_switches(ctx)  # fills f._dir_locals
    obs = []
    n_sinks = 0
    for f in ctx.prog.all_functions():
        if f.name == "<module>" or f.module.name.startswith(NON_DECISION_MODULES):
            continue
        if f.cls is not None and f.cls.name == "DemeTree" and f.name.startswith(("plot_", "animate")):
            continue
        kinds = Kinds(ctx, f)
        parents = parents_map(f.node)
        signs = _sign_names(ctx, f)
        sinks = []
        for n in body_walk(f.node):
            if isinstance(n, ast.Compare) and any(isinstance(o, (ast.Lt, ast.Gt, ast.LtE, ast.GtE)) for o in n.ops):
                ops = [n.left] + list(n.comparators)
                fit = [x for x in ops if kinds.is_fitness(x) and not (isinstance(x, ast.Call) and norm(x.func).split(".")[-1] in ("abs", "fabs", "absolute", "isnan", "len"))]
                if fit:
                    sinks.append((n, fit, "comparison"))
            if isinstance(n, ast.Call):
                fn = norm(n.func)
                last = fn.split(".")[-1]
                if last in NP_ORDER_FUNCS | PY_ORDER_FUNCS | {"sort"}:
                    args = list(n.args[:1]) if fn.split(".")[0] in ("np", "numpy") or last in PY_ORDER_FUNCS else []
                    if last in ("min", "max") and fn in ("min", "max"):
                        args = list(n.args)
                    if isinstance(n.func, ast.Attribute) and fn.split(".")[0] not in ("np", "numpy"):
                        args.append(n.func.value)
                    key = next((kw.value for kw in n.keywords if kw.arg == "key"), None)
                    fit = [a for a in args if kinds.is_fitness(a)]
                    if isinstance(key, ast.Lambda) and kinds.is_fitness(key.body):
                        fit.append(key.body)
                    elif isinstance(key, ast.Lambda) and any(isinstance(x, ast.Attribute) and x.attr in ("fitness", "fitnesses") for x in ast.walk(key.body)):
                        fit.append(key.body)
                    elif key is not None and isinstance(key, (ast.Name, ast.Attribute)) and "fitness" in norm(key).lower():
                        fit.append(key)
                    if fit:
                        sinks.append((n, fit, f"{last}()"))
        for n, fit, what in sinks:
            n_sinks += 1
            if _only_logged(f, n, parents):
                obs.append(ctx.ob("R13.1", f, n, detail=f"{what} on fitness values feeds a log record only: reported, not decided on", trivial=True))
                continue
            if _enclosing_switch_arm(n, parents, f):
                obs.append(ctx.ob("R13.1", f, n, detail=f"{what} on fitness inside an arm of a maximize switch (duality checked by R13.2)"))
                continue
            if all(_is_sign_adapted(x, signs, kinds) for x in fit):
                # an inline adapter `(F if maximize else -F)` has an orientation: larger-is-better; its dual `(-F if maximize
                # else F)` smaller-is-better. A selector must take the matching end.
                ori = None
                for x in fit:
                    y = x
                    while isinstance(y, ast.Subscript):
                        y = y.value
                    if isinstance(y, ast.IfExp) and _reads_maximize(y.test):
                        pol = _reads_maximize(y.test)
                        plain_when_true = not (isinstance(y.body, ast.UnaryOp) and isinstance(y.body.op, ast.USub))
                        ori = 1 if (plain_when_true == (pol == 1)) else -1
                last_ = what.rstrip("()")
                takes = 1 if last_ in ("argmax", "max", "amax", "nanmax", "nanargmax") else -1 if last_ in ("argmin", "min", "amin", "nanmin", "nanargmin") else 0
                if ori is not None and takes and ori != takes:
                    obs.append(ctx.ob("R13.1", f, n, status=VIOLATION, detail=f"{what} on `{norm(fit[0])[:70]}`: the values are oriented so that {'larger' if ori == 1 else 'smaller'} is better, but the selector takes the {'largest' if takes == 1 else 'smallest'}: the WORST individual is selected in both directions"))
                    continue
                obs.append(ctx.ob("R13.1", f, n, detail=f"{what} on sign-adapted fitness"))
                continue
            if f.short in RAW_EXCEPTIONS or (f.parent is not None and f.parent.short in RAW_EXCEPTIONS):
                obs.append(ctx.ob("R13.1", f, n, detail=f"tabled exception: {RAW_EXCEPTIONS.get(f.short, '')}", trivial=True))
                continue
            if what == "argsort()" and _whole_permutation(f, n, parents):
                # the ascending permutation is used whole (`rows[perm]`): nothing is selected by it, the rows are only put in
                # ascending order. Population.topk's rows ARE ascending by contract (R13.12 checks its readers); elsewhere the
                # order may matter to a caller this rule does not follow.
                is_topk = f.cls is not None and f.cls.name == "Population" and f.name == "topk"
                obs.append(ctx.ob("R13.1", f, n, status=OK if is_topk else INCONCLUSIVE, detail=f"argsort() of `{norm(fit[0])[:50]}` used as a whole permutation: orders the rows ascending, selects none" + ("" if is_topk else " - cannot tell whether a caller relies on the order"), construct=norm(n)[:120]))
                continue
            obs.append(ctx.ob("R13.1", f, n, status=VIOLATION, detail=f"raw {what} on objective values `{', '.join(norm(x) for x in fit)[:90]}` outside any maximize switch: the decision is taken as if the problem were a minimisation (or maximisation) regardless of its direction", construct=norm(n)[:120]))
    # external minimisers
    for f in ctx.prog.all_functions():
        if f.name == "<module>":
            continue
        kinds = None
        for cs in ctx.res.callsites(f):
            if not (cs.external and isinstance(cs.node, ast.Call)):
                continue
            c = cs.node
            if cs.external.endswith("CMAEvolutionStrategy.tell") and len(c.args) >= 2:
                kinds = kinds or Kinds(ctx, f)
                signs = _sign_names(ctx, f)
                n_sinks += 1
                ok = _is_sign_adapted(c.args[1], signs, kinds)
                # positive evidence: the values are the raw fitnesses (an expression over `.fitness` with no multiplication, no
                # conditional and no call in it); anything else that is not recognised stays undecided
                def some_def_raw(e, depth=0):
                    """some value the expression can take is the fitness itself, unscaled"""
                    if depth > 6:
                        return False
                    if isinstance(e, ast.Attribute):
                        return e.attr in ("fitness", "fitnesses")
                    if isinstance(e, ast.Name) and e.id in kinds.defs:
                        return any(some_def_raw(d, depth + 1) for d in kinds.defs[e.id] if not isinstance(d, ast.AugAssign))
                    if isinstance(e, (ast.ListComp, ast.GeneratorExp)):
                        return some_def_raw(e.elt, depth + 1)
                    if isinstance(e, ast.Call) and norm(e.func).split(".")[-1] in ("array", "asarray", "list") and e.args:
                        return some_def_raw(e.args[0], depth + 1)
                    return False

                raw = some_def_raw(c.args[1])
                obs.append(ctx.ob("R13.1", f, c, status=OK if ok else VIOLATION if raw else INCONCLUSIVE, detail="CMA-ES is told sign-adapted values" if ok else f"CMA-ES (a minimiser) is told `{norm(c.args[1])}` without sign adaptation: on a maximisation problem the deme descends", construct="cma.tell"))
            if cs.external == "scipy.optimize.minimize" and _fun_arg(c, f) is not None:
                n_sinks += 1
                ok, why = _objective_sign_adapted(ctx, f, _fun_arg(c, f))
                obs.append(ctx.ob("R13.1", f, c, status=OK if ok else INCONCLUSIVE if ok is None else VIOLATION, detail="scipy minimises a sign-adapted objective" if ok else f"scipy.optimize.minimize is handed {why}" + (": on a maximisation problem the local search descends" if ok is False else ""), construct="scipy.minimize"))
    if n_sinks < 12:
        raise AnalysisError(f"only {n_sinks} order-sensitive sinks found (>= 14 confirmed by hand)")
    return obs


def _fun_arg(c: ast.Call, f=None):
    from ..core import effective_keywords

    return c.args[0] if c.args else effective_keywords(c, local_defs(f) if f is not None else None).get("fun")


def _is_sign_expr(a, signs) -> bool:
    if norm(a) in signs:
        return True
    return isinstance(a, ast.IfExp) and _reads_maximize(a.test) != 0 and token([a.body])[0] == "SIGN" and token([a.orelse])[0] == "SIGN"


def _objective_sign_adapted(ctx, f, arg):
    """(True, "") | (False, reason) | (None, reason: form not understood)"""
    from .common import objective_function

    kind, node, owner, rets = objective_function(ctx, f, arg)
    if kind == "method-ref":
        return False, f"the raw objective `{norm(node)}`"
    if kind == "unknown":
        return None, f"an objective `{norm(arg)}` the analyser cannot resolve"
    signs = _sign_names(ctx, f)
    if owner is not None:
        signs = signs | _sign_names(ctx, owner)
    nd = {}
    if not isinstance(node, ast.Lambda):
        for st in ast.walk(node):
            if isinstance(st, ast.Assign) and len(st.targets) == 1 and isinstance(st.targets[0], ast.Name):
                nd[st.targets[0].id] = st.value
    if not rets:
        return None, "an objective with no return"
    for r in rets:
        r0 = r
        hops = 0
        while isinstance(r0, ast.Name) and r0.id in nd and hops < 4:
            r0 = nd[r0.id]
            hops += 1
        okr = False
        if isinstance(r0, ast.BinOp) and isinstance(r0.op, ast.Mult):
            for a, b in ((r0.left, r0.right), (r0.right, r0.left)):
                a0 = nd.get(a.id, a) if isinstance(a, ast.Name) else a
                if (_is_sign_expr(a, signs) or _is_sign_expr(a0, signs)) and any(isinstance(x, ast.Call) and norm(x.func).endswith(".evaluate") for x in ast.walk(b) if True) or ((_is_sign_expr(a, signs) or _is_sign_expr(a0, signs)) and isinstance(b, ast.Name) and isinstance(nd.get(b.id), ast.Call) and norm(nd[b.id].func).endswith(".evaluate")):
                    okr = True
        if not okr:
            evaluates = any(isinstance(x, ast.Call) and norm(x.func).endswith(".evaluate") for x in ast.walk(r0)) or (isinstance(r0, ast.Name))
            if isinstance(r0, ast.Call) and norm(r0.func).endswith(".evaluate"):
                return False, f"an objective returning the raw value `{norm(r0)}` (no sign adapter)"
            return None, f"an objective returning `{norm(r0)[:60]}` (sign adaptation not recognised)"
    return True, ""


def r13_2(ctx: Ctx, check_roles: bool = True):
    """R13.2 every maximize switch has dual arms (and, for the properties that need it, the polarity its role demands)."""
    sw = find_switches(ctx)
    if len(sw) < 11:
        raise AnalysisError(f"only {len(sw)} maximize switches found (12 confirmed by hand)")
    obs = []
    for s in sw:
        if s.f.module.name.startswith(NON_DECISION_MODULES):
            continue
        ta, tb = token(s.max_arm), token(s.min_arm)
        role = ROLES.get(s.f.short)
        if role and role[0] == "TABLED":
            obs.append(ctx.ob("R13.2", s.f, s.node, detail=f"tabled: {role[1]}", trivial=True))
            continue
        if not s.min_arm:
            obs.append(ctx.ob("R13.2", s.f, s.node, status=VIOLATION, detail=f"a decision depends on `maximize` but has no counterpart for the other direction: `{norm(s.test)}`", construct="one-armed:" + norm(s.test)))
            continue
        if ta[0] == "OTHER" or tb[0] == "OTHER":
            # compound arms: compare statement by statement
            if not s.is_expr and len(s.max_arm) == len(s.min_arm) and len(s.max_arm) > 1:
                pairs = [(token([a]), token([b])) for a, b in zip(s.max_arm, s.min_arm)]
                if all(dual(x) == y or x == y for x, y in pairs) and any(dual(x) == y and x != y for x, y in pairs):
                    obs.append(ctx.ob("R13.2", s.f, s.node, detail="arms are statement-wise duals"))
                    continue
            obs.append(ctx.ob("R13.2", s.f, s.node, status=INCONCLUSIVE, detail=f"switch arms not understood: `{norm(s.max_arm[0])[:60]}` / `{norm(s.min_arm[0])[:60]}`", construct="arms:" + norm(s.test)))
            continue
        if dual(ta) != tb:
            obs.append(ctx.ob("R13.2", s.f, s.node, status=VIOLATION, detail=f"the two arms of the maximize switch are not duals of each other: maximise -> {ta}, minimise -> {tb}", construct="dual:" + s.f.short))
            continue
        pol = polarity(ta)
        if not check_roles:
            # C13 itself: (f, maximise) and (-f, minimise) take the same decision as soon as the two arms are duals
            obs.append(ctx.ob("R13.2", s.f, s.node, detail=f"dual arms ({pol} when maximising)", construct="dual:" + s.f.short))
            continue
        want = role[0] if role else DEFAULT_POLARITY.get(pol)
        if want is None:
            obs.append(ctx.ob("R13.2", s.f, s.node, detail=f"dual arms ({pol} when maximising); role not tabled, no default for this kind", construct="dual:" + s.f.short))
        elif pol == want:
            obs.append(ctx.ob("R13.2", s.f, s.node, detail=f"dual arms; maximising arm is {pol}" + (f" ({role[1]})" if role else " (default role)"), construct="dual:" + s.f.short))
        else:
            obs.append(ctx.ob("R13.2", s.f, s.node, status=VIOLATION if role else INCONCLUSIVE, detail=f"the arms of the maximize switch are swapped: when maximising it takes {pol}, its role demands {want}" + (f" ({role[1]})" if role else ""), construct="dual:" + s.f.short))
    return obs


def r13_2_c13(ctx: Ctx):
    """R13.2 (as C13 needs it) every maximize switch has dual arms; the DE / SHADE replacement mask decides the same way in both directions."""
    from . import replacement

    return r13_2(ctx, check_roles=False) + replacement.obligations(ctx, "R13.2", "symmetric")


def _is_individual_collection(ctx, f, e) -> bool:
    t = ctx.res.type_of(e, f)
    if t is None:
        return False
    ms = [t] if t[0] != "union" else list(t[1])
    for x in ms:
        if x[0] in ("list", "iter", "set") and x[1] is not None:
            el = [x[1]] if x[1][0] != "union" else list(x[1][1])
            if any(y[0] == "inst" and y[1].endswith(".Individual") for y in el):
                return True
    return False


def _is_individual(ctx, f, e) -> bool:
    t = ctx.res.type_of(e, f)
    if t is None:
        return False
    ms = [t] if t[0] != "union" else list(t[1])
    return any(y[0] == "inst" and y[1].endswith(".Individual") for y in ms)


def r13_3(ctx: Ctx, symmetric_only: bool = False):
    """R13.3 ordering operations on Individuals use the direction-aware order once: max / sorted(reverse=True) / `>`; no min, no ascending sort, no direction-dependent reverse=."""
    find_switches(ctx)
    obs = []
    n = 0
    for f in ctx.prog.all_functions():
        if f.name == "<module>" or f.module.name.startswith(NON_DECISION_MODULES):
            continue
        dirloc = getattr(f, "_dir_locals", {})
        for c in body_walk(f.node):
            if isinstance(c, ast.Call):
                fn = norm(c.func)
                key = next((k.value for k in c.keywords if k.arg == "key"), None)
                rev = next((k.value for k in c.keywords if k.arg == "reverse"), None)
                target = None
                kind = None
                if fn in ("max", "min") and len(c.args) == 1 and key is None and _is_individual_collection(ctx, f, c.args[0]):
                    target, kind = c.args[0], fn
                elif fn in ("max", "min") and len(c.args) >= 2 and key is None and all(_is_individual(ctx, f, a) for a in c.args):
                    target, kind = c.args[0], fn
                elif fn == "sorted" and c.args and key is None and _is_individual_collection(ctx, f, c.args[0]):
                    target, kind = c.args[0], "sorted"
                elif isinstance(c.func, ast.Attribute) and c.func.attr == "sort" and key is None and _is_individual_collection(ctx, f, c.func.value):
                    target, kind = c.func.value, "sort"
                if target is None:
                    continue
                n += 1
                if symmetric_only and (kind in ("min", "max") or rev is None or isinstance(rev, ast.Constant)):
                    # C13 itself: any fixed use of the direction-aware order picks the same individuals for (f, max) and (-f, min)
                    obs.append(ctx.ob("R13.3", f, c, detail=f"`{norm(c)[:60]}`: fixed use of the direction-aware order"))
                elif kind == "min":
                    obs.append(ctx.ob("R13.3", f, c, status=VIOLATION, detail=f"`{norm(c)[:80]}` selects the WORST individual in the problem's direction (best = max under the Individual order)"))
                elif kind == "max":
                    obs.append(ctx.ob("R13.3", f, c, detail="best individual via max() under the direction-aware order"))
                else:
                    if rev is None:
                        obs.append(ctx.ob("R13.3", f, c, status=VIOLATION, detail=f"`{norm(c)[:80]}` sorts individuals worst-first (ascending in the direction-aware order); best-first is reverse=True"))
                    elif isinstance(rev, ast.Constant) and rev.value is True:
                        obs.append(ctx.ob("R13.3", f, c, detail="best-first order of individuals"))
                    elif isinstance(rev, ast.Constant):
                        obs.append(ctx.ob("R13.3", f, c, status=VIOLATION, detail=f"`{norm(c)[:80]}` sorts individuals worst-first"))
                    else:
                        names = {x.id for x in ast.walk(rev) if isinstance(x, ast.Name)}
                        dep = bool(names & set(dirloc)) or _reads_maximize(rev) != 0 or any(isinstance(x, ast.Attribute) and x.attr == "maximize" for x in ast.walk(rev))
                        obs.append(ctx.ob("R13.3", f, c, status=VIOLATION if dep else INCONCLUSIVE, detail=f"`reverse={norm(rev)}` makes the order of individuals depend on the direction a second time (Individual ordering is already direction-aware): the sort is worst-first for one of the two directions" if dep else f"reverse= is not a constant: `{norm(rev)}`"))
            if isinstance(c, ast.Compare) and len(c.ops) == 1 and isinstance(c.ops[0], (ast.Lt, ast.Gt, ast.LtE, ast.GtE)):
                if _is_individual(ctx, f, c.left) and _is_individual(ctx, f, c.comparators[0]) and not (f.cls is not None and f.cls.name == "Individual"):
                    n += 1
                    obs.append(ctx.ob("R13.3", f, c, detail=f"individuals compared with the direction-aware order (`{norm(c)}`)"))
    if n < 8:
        raise AnalysisError(f"only {n} ordering operations on individuals found (>= 10 confirmed by hand)")
    return obs


def r13_3_c13(ctx: Ctx):
    """R13.3 (as C13 needs it) the order of individuals never depends on the direction a second time (no `reverse=<direction>`)."""
    return r13_3(ctx, symmetric_only=True)


def _const_fold(e):
    """Boolean constant folding of IfExp / and / or / not."""
    if isinstance(e, ast.IfExp):
        t, a, b = _const_fold(e.test), _const_fold(e.body), _const_fold(e.orelse)
        if isinstance(t, ast.Constant):
            return a if t.value else b
        if isinstance(a, ast.Constant) and a.value is False:
            return _const_fold(ast.BoolOp(op=ast.And(), values=[ast.UnaryOp(op=ast.Not(), operand=t), b]))
        if isinstance(b, ast.Constant) and b.value is False:
            return _const_fold(ast.BoolOp(op=ast.And(), values=[t, a]))
        return ast.IfExp(test=t, body=a, orelse=b)
    if isinstance(e, ast.UnaryOp) and isinstance(e.op, ast.Not):
        o = _const_fold(e.operand)
        if isinstance(o, ast.Constant):
            return ast.Constant(value=not o.value)
        if isinstance(o, ast.UnaryOp) and isinstance(o.op, ast.Not):
            return o.operand
        return ast.UnaryOp(op=ast.Not(), operand=o)
    if isinstance(e, ast.BoolOp):
        vals = []
        for v in (_const_fold(x) for x in e.values):
            if isinstance(v, ast.Constant) and isinstance(v.value, bool):
                if isinstance(e.op, ast.And) and not v.value:
                    return ast.Constant(value=False)
                if isinstance(e.op, ast.Or) and v.value:
                    return ast.Constant(value=True)
                continue
            if isinstance(v, ast.BoolOp) and type(v.op) is type(e.op):
                vals.extend(v.values)
            else:
                vals.append(v)
        if not vals:
            return ast.Constant(value=isinstance(e.op, ast.And))
        return vals[0] if len(vals) == 1 else ast.BoolOp(op=e.op, values=vals)
    return e


def r13_4(ctx: Ctx, with_equivalence: bool = False, strict_ties: bool = False):
    """R13.4 Individual.__lt__ / __eq__ delegate to problem.worse_than / equivalent with (self, other) in that order."""
    obs = []
    for meth, target in (("__lt__", "worse_than"), ("__eq__", "equivalent")):
        m = ctx.prog.own_method("Individual", meth)
        sn, other = m.params()[0], m.params()[1]
        rets = [r for r in body_walk(m.node) if isinstance(r, ast.Return) and not (isinstance(r.value, ast.Constant))]
        mdefs = local_defs(m)
        import copy as _copy

        from ..core import _Subst

        rv = _Subst(mdefs, 4).visit(_copy.deepcopy(rets[0].value)) if len(rets) == 1 else None
        all_rets = [r for r in body_walk(m.node) if isinstance(r, ast.Return)]
        if rv is None or len(all_rets) > 1:
            # several exits: reduce the body to one expression and drop the `other is None` guard
            from ..normalize import _expr_of_block, _simplify_bool

            body = [x for x in m.node.body if not (isinstance(x, ast.Expr) and isinstance(x.value, ast.Constant))]
            E = _expr_of_block(body, ast.Constant(value=None))
            if E is not None:
                class G(ast.NodeTransformer):
                    def visit_Compare(self, node):
                        if len(node.ops) == 1 and isinstance(node.ops[0], (ast.Is, ast.IsNot, ast.Eq, ast.NotEq)) and canon(node.left) == other and canon(node.comparators[0]) == "None":
                            return ast.Constant(value=isinstance(node.ops[0], (ast.IsNot, ast.NotEq)))
                        return node

                rv = _const_fold(_simplify_bool(G().visit(E)))
                rets = rets[-1:]
        want_args = [f"{sn}.fitness", f"{other}.fitness"]
        if rv is not None and len(all_rets) == 1:
            # single exit with the None guard folded into the expression: `other is not None and <core>`
            class G1(ast.NodeTransformer):
                def visit_Compare(self, node):
                    if len(node.ops) == 1 and isinstance(node.ops[0], (ast.Is, ast.IsNot, ast.Eq, ast.NotEq)) and canon(node.left) == other and canon(node.comparators[0]) == "None":
                        return ast.Constant(value=isinstance(node.ops[0], (ast.IsNot, ast.NotEq)))
                    return node

            from ..normalize import _simplify_bool as _sb

            rv = _const_fold(_sb(G1().visit(rv)))
        if rv is not None:
            class _StripEval(ast.NodeTransformer):
                """X.evaluate() returns X: irrelevant for which values are compared (its side effect is other rules' concern)"""

                def visit_Call(self, node):
                    self.generic_visit(node)
                    if isinstance(node.func, ast.Attribute) and node.func.attr == "evaluate" and not node.args and isinstance(node.func.value, ast.Name) and node.func.value.id in (sn, other):
                        return node.func.value
                    return node

            rv = _StripEval().visit(rv)
        st = INCONCLUSIVE
        if isinstance(rv, ast.Call) and norm(rv.func) in (f"{sn}.problem.{target}", f"{sn}._problem.{target}") and [canon(a) for a in rv.args] == want_args:
            st = OK
        elif isinstance(rv, ast.BoolOp) and any(isinstance(x, ast.Call) and norm(x.func).endswith(f".{target}") and [canon(a) for a in x.args] == want_args for x in rv.values) and len(rv.values) > 1:
            # e.g. __eq__ = equivalent(...) and <more>: finer than the order's own equivalence, so the `>` that total_ordering
            # derives (not < and not ==) holds between fitness-tied individuals. That matters only where a strict comparison is
            # relied on to exclude ties (the LevelLimit cut, C08.O7); the direction symmetry (C13) and best-of queries (C04) are
            # unaffected as long as the extra conjuncts do not look at the fitness.
            extra_reads_fitness = any(isinstance(y, ast.Attribute) and y.attr in ("fitness", "_fitness") for x in rv.values if not (isinstance(x, ast.Call) and norm(x.func).endswith(f".{target}")) for y in ast.walk(x))
            st = VIOLATION if strict_ties else INCONCLUSIVE if extra_reads_fitness else OK
        elif isinstance(rv, ast.Call) and norm(rv.func).endswith((".worse_than", ".equivalent")):
            st = VIOLATION  # the other predicate, swapped operands, or the other individual's problem
        elif isinstance(rv, ast.UnaryOp) and isinstance(rv.op, ast.Not) and isinstance(rv.operand, ast.Call) and norm(rv.operand.func).endswith((".worse_than", ".equivalent")):
            st = VIOLATION
        elif isinstance(rv, ast.Compare) and all(canon(x) in want_args for x in [rv.left] + rv.comparators) and meth == "__lt__":
            st = VIOLATION  # raw fitness comparison: not direction-aware
        elif isinstance(rv, ast.Compare) and meth == "__eq__" and len(rv.ops) == 1 and isinstance(rv.ops[0], ast.Eq) and sorted(canon(x) for x in [rv.left] + rv.comparators) == sorted(want_args):
            st = OK  # exact equality of the fitness values is what every shipped `equivalent` computes
        elif isinstance(rv, ast.Call) and norm(rv.func).split(".")[-1] in ("isclose", "allclose"):
            st = VIOLATION
        obs.append(ctx.ob("R13.4", m, rets[0] if rets else m.node, status=st, detail=f"{meth} = problem.{target}(self.fitness, other.fitness)" if st == OK else f"Individual.{meth} is `{norm(rets[0].value) if rets else '?'}`: the direction-aware order of individuals is broken or reversed"))
    ci = ctx.prog.cls("Individual")
    ok = "total_ordering" in " ".join(ci.decorators)
    extra = [n for n in ("__gt__", "__le__", "__ge__") if n in ci.methods]
    obs.append(ctx.ob("R13.4", ci, ci.node, status=OK if (ok and not extra) else INCONCLUSIVE, detail="remaining comparisons derived by functools.total_ordering" if (ok and not extra) else f"Individual defines {extra or 'no total_ordering'}: the derived comparisons may disagree with __lt__/__eq__", construct="total_ordering"))
    if not with_equivalence:
        return obs
    # (C04 only) the equivalence every problem inherits is exact equality: a tolerance is not transitive, the order stops being
    # a total preorder and max() / sorted() can return a non-best individual. Symmetric under f -> -f, so C13 is not concerned.
    pe = ctx.prog.own_method("Problem", "equivalent")
    a, b = pe.params()[1], pe.params()[2]
    rets = [r for r in body_walk(pe.node) if isinstance(r, ast.Return) and r.value is not None]
    rv = __import__("hmslint.core", fromlist=["subst_expr"]).subst_expr(rets[0].value, local_defs(pe)) if len(rets) == 1 else None
    st = INCONCLUSIVE
    if isinstance(rv, ast.Compare) and len(rv.ops) == 1 and isinstance(rv.ops[0], ast.Eq) and sorted([canon(rv.left), canon(rv.comparators[0])]) == sorted([a, b]):
        st = OK
    elif rv is not None and any(isinstance(x, ast.Call) and norm(x.func).split(".")[-1] in ("isclose", "allclose", "abs", "fabs", "round") for x in ast.walk(rv)):
        st = VIOLATION
    elif isinstance(rv, ast.Compare) and len(rv.ops) == 1 and isinstance(rv.ops[0], (ast.LtE, ast.GtE, ast.Lt, ast.Gt, ast.NotEq)):
        st = VIOLATION
    obs.append(ctx.ob("R13.4", pe, rets[0] if rets else pe.node, status=st, detail="Problem.equivalent is exact equality of the two fitness values" if st == OK else f"Problem.equivalent is `{norm(rets[0].value) if rets else '?'}`: equality up to a tolerance is not transitive, so Individual's order is no longer a total preorder (max / sorted / the strict `>` cut can return a non-best individual)", construct="equivalent"))
    for ci2 in ctx.prog.subclasses(ctx.prog.cls("Problem")):
        m2 = ci2.methods.get("equivalent")
        if m2 is None or ci2.name in ("ProblemWrapper",) or any(c.name == "ProblemWrapper" for c in ctx.prog.mro(ci2)):
            continue
        obs.append(ctx.ob("R13.4", m2, m2.node, status=INCONCLUSIVE, detail=f"{ci2.name} overrides `equivalent`: the analyser does not know this equivalence", construct=f"{ci2.name}.equivalent"))
    return obs


def r13_5(ctx: Ctx):
    """R13.5 sibling cross-check: every call site handing an objective to scipy.optimize.minimize adapts the sign."""
    obs = []
    sites = []
    for f in ctx.prog.all_functions():
        if f.name == "<module>":
            continue
        for cs in ctx.res.callsites(f):
            if cs.external == "scipy.optimize.minimize" and isinstance(cs.node, ast.Call) and _fun_arg(cs.node, f) is not None:
                sites.append((f, cs.node))
    if len(sites) < 2:
        raise AnalysisError(f"only {len(sites)} scipy.optimize.minimize call sites found (2 confirmed by hand)")
    verdicts = [(f, c) + _objective_sign_adapted(ctx, f, _fun_arg(c, f)) for f, c in sites]
    for f, c, ok, why in verdicts:
        obs.append(ctx.ob("R13.5", f, c, status=OK if ok else INCONCLUSIVE if ok is None else VIOLATION, detail="objective sign-adapted like its sibling call site(s)" if ok else f"this scipy call site gets {why} while a sibling site adapts the sign" if any(v[2] for v in verdicts) else f"scipy gets {why}"))
    return obs


def r13_6(ctx: Ctx):
    """R13.6 a value reported by a sign-adapted optimiser is converted back with the same sign before it is stored as a fitness."""
    obs = []
    n = 0
    for f in ctx.prog.all_functions():
        if f.name == "<module>" or f.cls is None:
            continue
        signs = _sign_names(ctx, f)
        if not signs:
            continue
        defs = local_defs(f)
        kinds = Kinds(ctx, f)
        cands = []
        for st in body_walk(f.node):
            if isinstance(st, ast.Assign) and len(st.targets) == 1 and isinstance(st.targets[0], ast.Attribute) and st.targets[0].attr in ("fitness", "_fitness"):
                cands.append((st, st.value))
            elif isinstance(st, ast.Call) and norm(st.func).split(".")[-1] == "Individual":
                kv = next((k.value for k in st.keywords if k.arg == "fitness"), st.args[1] if len(st.args) > 1 else None)
                if kv is not None:
                    cands.append((st, kv))
        for st, v0 in cands:
            v = __import__("hmslint.core", fromlist=["subst_expr"]).subst_expr(v0, defs)
            while isinstance(v, ast.Call) and norm(v.func) in ("float", "np.float64") and len(v.args) == 1:
                v = v.args[0]
            reads_opt = any(isinstance(x, ast.Attribute) and x.attr in ("fun",) for x in ast.walk(v))
            if not reads_opt:
                continue
            n += 1
            if _is_sign_adapted(v, signs, kinds):
                status = OK
            elif isinstance(v, ast.Attribute) and v.attr == "fun":
                status = VIOLATION
            elif isinstance(v, ast.UnaryOp) and isinstance(v.op, (ast.USub, ast.UAdd)) and isinstance(v.operand, ast.Attribute):
                status = VIOLATION  # unconditional negation: wrong for one of the two directions
            else:
                status = INCONCLUSIVE
            obs.append(ctx.ob("R13.6", f, st, status=status, detail="optimiser's value converted back with the sign adapter" if status == OK else f"`{norm(st)[:80]}` stores the optimiser's (sign-adapted) value as a fitness without converting it back: recorded individuals carry -f on maximisation problems" if status == VIOLATION else f"cannot tell whether `{norm(v)[:60]}` converts the optimiser's value back", construct="fun->fitness"))
    if n == 0:
        obs.append(ctx.ob("R13.6", None, None, subject="pyhms", loc="-", status=INCONCLUSIVE, detail="no store of an optimiser-reported value into a fitness found (LocalDeme._history_callback confirmed by hand)", construct="none"))
    return obs


def _follow_direction_param(ctx, obs, ci, m, y, pname, attr):
    """the constructor parameter `pname` decides a direction kept in `ci`: look at every construction site in pyhms"""
    from .common import ctor_arguments

    a = m.node.args
    pos = a.posonlyargs + a.args
    dmap = dict(zip([x.arg for x in pos][len(pos) - len(a.defaults):], a.defaults)) if a.defaults else {}
    dmap.update({k.arg: d for k, d in zip(a.kwonlyargs, a.kw_defaults) if d is not None})
    sites = []
    for g in ctx.prog.all_functions():
        for c in body_walk(g.node):
            if isinstance(c, ast.Call) and ctx.prog.resolve_class_expr(c.func, g.module) is ci:
                sites.append((g, c))
    if not sites:
        obs.append(ctx.ob("R13.8", m, y, status=INCONCLUSIVE if pname in dmap else OK, detail=f"{ci.name}.{attr} comes from constructor parameter `{pname}`; no construction site in pyhms", construct=f"{ci.name}.{attr}"))
    for g, c in sites:
        am = ctor_arguments(ctx, c, ci.name)
        arg = (am or {}).get(pname)
        if am is None:
            st, why = INCONCLUSIVE, "its arguments cannot be mapped"
        elif arg is None and pname in dmap:
            st, why = VIOLATION, f"does not pass `{pname}`, so the default `{norm(dmap[pname])}` decides the direction: on a {'maximisation' if not (isinstance(dmap[pname], ast.Constant) and dmap[pname].value) else 'minimisation'} problem the engine's comparisons point the wrong way"
        elif arg is None:
            st, why = INCONCLUSIVE, f"does not pass `{pname}`"
        elif isinstance(arg, ast.Constant):
            st, why = VIOLATION, f"passes the constant {norm(arg)} as the direction"
        elif _reads_maximize(arg) * (1 if "max" in pname else -1 if "min" in pname else 0) * (1 if "max" in attr else -1) > 0 and not isinstance(arg, ast.Name):
            st, why = OK, f"passes `{norm(arg)}`"
        elif _reads_maximize(arg) and not isinstance(arg, ast.Name) and attr.startswith("maximize-derived:"):
            st, why = INCONCLUSIVE, f"passes `{norm(arg)}` for `{pname}`: the sense of the derived attribute is not followed"
        elif _reads_maximize(arg) and not isinstance(arg, ast.Name):
            st, why = VIOLATION, f"passes `{norm(arg)}` for `{pname}`: the direction is inverted"
        else:
            st, why = INCONCLUSIVE, f"passes `{norm(arg)[:60]}`, not recognisably the problem's direction"
        obs.append(ctx.ob("R13.8", g, c, status=st, detail=f"{g.short} builds {ci.name} and {why}" , construct=f"{ci.name}.{attr}:{g.short}"))


def r13_8(ctx: Ctx):
    """R13.8 a direction kept in an object is the problem's own: every attribute a maximize switch reads through `self` is
    assigned from `<problem>.maximize`, or from a constructor parameter that EVERY construction site in pyhms fills from
    `<problem>.maximize` (a defaulted / constant direction makes the engine a minimiser for every problem)."""
    from .common import ctor_arguments

    obs = []
    n = 0
    problem_base = ctx.prog.cls("Problem")
    for ci in ctx.prog.classes.values():
        if ci.module.name.startswith(NON_DECISION_MODULES):
            continue
        if ctx.prog.is_subclass(ci, problem_base):
            continue  # a problem's `maximize` is the direction itself, not a copy of it
        read = set()
        for m in ci.methods.values():
            sn = m.self_name()
            if sn is None:
                continue
            for x in body_walk(m.node):
                if isinstance(x, ast.Attribute) and x.attr in ("_maximize", "maximize", "_minimize", "minimize") and isinstance(x.ctx, ast.Load) and is_self_attr(x, None, sn) and not (x.attr == "maximize" and ci.name.endswith("Problem")):
                    read.add(x.attr)
        if not read:
            continue
        for attr in sorted(read):
            writes = []
            for m in ci.methods.values():
                sn = m.self_name()
                if sn is None:
                    continue
                for y in body_walk(m.node):
                    if isinstance(y, (ast.Assign, ast.AnnAssign)) and getattr(y, "value", None) is not None:
                        for t in (y.targets if isinstance(y, ast.Assign) else [y.target]):
                            if is_self_attr(t, attr, sn):
                                writes.append((m, y))
            if not writes:
                continue  # a property / inherited field: not an object-kept copy
            n += 1
            for m, y in writes:
                v = y.value
                pol = _reads_maximize(v)
                if pol and not isinstance(v, ast.Name):
                    obs.append(ctx.ob("R13.8", m, y, detail=f"{ci.name}.{attr} = `{norm(v)}` (the problem's own direction)", construct=f"{ci.name}.{attr}"))
                    continue
                if isinstance(v, ast.Constant):
                    obs.append(ctx.ob("R13.8", m, y, status=VIOLATION, detail=f"{ci.name}.{attr} is the constant {norm(v)}: the engine decides in one fixed direction whatever the problem's is", construct=f"{ci.name}.{attr}"))
                    continue
                if isinstance(v, ast.Name) and m.name == "__init__" and v.id in m.params():
                    _follow_direction_param(ctx, obs, ci, m, y, v.id, attr)
                    continue
                obs.append(ctx.ob("R13.8", m, y, status=INCONCLUSIVE, detail=f"{ci.name}.{attr} = `{norm(v)[:60]}`: not recognisably the problem's direction", construct=f"{ci.name}.{attr}"))
    # a choice resolved ONCE in the constructor from a direction-named parameter (`self._argbest = np.argmax if maximize else
    # np.argmin`): the same provenance question, one step earlier
    for ci in ctx.prog.classes.values():
        if ci.module.name.startswith(NON_DECISION_MODULES) or ctx.prog.is_subclass(ci, problem_base):
            continue
        m = ci.methods.get("__init__")
        if m is None or m.self_name() is None:
            continue
        dparams = [p_ for p_ in m.params() if any(w in p_.lower() for w in ("maximi", "minimi"))]
        for y in body_walk(m.node):
            if not (isinstance(y, (ast.Assign, ast.AnnAssign)) and getattr(y, "value", None) is not None) or isinstance(y.value, ast.Name):
                continue
            tg = [t for t in (y.targets if isinstance(y, ast.Assign) else [y.target]) if is_self_attr(t, None, m.self_name())]
            used = [p_ for p_ in dparams if any(isinstance(x, ast.Name) and x.id == p_ for x in ast.walk(y.value))]
            if tg and used:
                n += 1
                _follow_direction_param(ctx, obs, ci, m, y, used[0], tg[0].attr if "max" in tg[0].attr or "min" in tg[0].attr else "maximize-derived:" + tg[0].attr)
    # a direction-derived value cached at first use in an object that serves several problems: sprout filters / generators /
    # stop conditions belong to the configuration and are shared by every tree built from it, also trees of the other direction
    for ci in ctx.prog.classes.values():
        if not ci.module.name.startswith(("pyhms.sprout", "pyhms.stop_conditions")):
            continue
        stores = {}
        for m in ci.methods.values():
            sn = m.self_name()
            if sn is None or m.name == "__init__":
                continue
            for y in body_walk(m.node):
                if isinstance(y, (ast.Assign, ast.AnnAssign)) and getattr(y, "value", None) is not None:
                    for t in (y.targets if isinstance(y, ast.Assign) else [y.target]):
                        if is_self_attr(t, None, sn) and any(isinstance(x, ast.Attribute) and x.attr in ("maximize", "_maximize") for x in ast.walk(y.value)):
                            stores[t.attr] = (m, y)
        for attr, (m, y) in stores.items():
            lazy = None
            for m2 in ci.methods.values():
                sn2 = m2.self_name()
                if sn2 is None:
                    continue
                for x in body_walk(m2.node):
                    if isinstance(x, ast.If):
                        t_ = x.test
                        while isinstance(t_, ast.UnaryOp) and isinstance(t_.op, ast.Not):
                            t_ = t_.operand
                        if (isinstance(t_, ast.Compare) and is_self_attr(t_.left, attr, sn2) and len(t_.comparators) == 1 and isinstance(t_.comparators[0], ast.Constant) and t_.comparators[0].value is None) or is_self_attr(t_, attr, sn2) or (isinstance(t_, ast.Call) and norm(t_.func) == "hasattr" and len(t_.args) == 2 and isinstance(t_.args[1], ast.Constant) and t_.args[1].value == attr):
                            lazy = lazy or x
            if lazy is not None:
                obs.append(ctx.ob("R13.8", m, y, status=VIOLATION, detail=f"{ci.name}.{attr} is derived from the problem's direction (`{norm(y)[:70]}`) the first time it is needed (`{norm(lazy.test)}`) and kept: the object belongs to the configuration and serves every tree built from it, so a later tree of the OTHER direction is decided with the first tree's direction", construct=f"{ci.name}.{attr}:lazy-direction"))
            else:
                obs.append(ctx.ob("R13.8", m, y, detail=f"{ci.name}.{attr} is recomputed from the problem's direction whenever {m.short} runs", construct=f"{ci.name}.{attr}:lazy-direction"))
    if not obs:
        obs.append(ctx.ob("R13.8", None, None, subject="pyhms", loc="-", detail="no object keeps its own copy of the optimisation direction: every switch reads the problem's live `maximize`", construct="no-kept-direction"))
    return obs


INDEX_STABLE_MODULES = ("pyhms.demes.single_pop_eas.de", "pyhms.demes.de_deme", "pyhms.demes.shade_deme", "pyhms.demes.cma_deme", "pyhms.demes.local_deme")


def r13_9(ctx: Ctx):
    """R13.9 in the engines whose whole seeded runs must coincide on (f, max) and (-f, min) (DE, SHADE, CMA-ES, local search) a
    direction switch selects the same individuals IN THE SAME ORDER: taking the head of an ascending order when minimising and
    its tail when maximising yields the same set mirrored, and the positional / random pick that follows lands on a
    different individual."""
    obs = []
    n = 0
    for s_ in find_switches(ctx):
        if not s_.f.module.name.startswith(INDEX_STABLE_MODULES):
            continue
        n += 1
        defs = local_defs(s_.f)

        def arm_expr(arm):
            if len(arm) != 1:
                return None
            a = arm[0]
            if isinstance(a, ast.Return):
                a = a.value
            elif isinstance(a, ast.Assign):
                a = a.value
            elif isinstance(a, ast.Expr):
                a = a.value
            return a if isinstance(a, ast.expr) else None

        A, B = arm_expr(s_.max_arm), arm_expr(s_.min_arm)

        def slice_kind(e):
            if isinstance(e, ast.Subscript) and isinstance(e.slice, ast.Slice) and e.slice.step is None:
                sl = e.slice
                if sl.lower is None and sl.upper is not None and not (isinstance(sl.upper, ast.UnaryOp) and isinstance(sl.upper.op, ast.USub)):
                    return "head", canon(e.value, defs), canon(sl.upper, defs)
                if sl.upper is None and isinstance(sl.lower, ast.UnaryOp) and isinstance(sl.lower.op, ast.USub):
                    return "tail", canon(e.value, defs), canon(sl.lower.operand, defs)
            return None

        ka, kb = slice_kind(A) if A is not None else None, slice_kind(B) if B is not None else None
        if ka and kb and {ka[0], kb[0]} == {"head", "tail"} and ka[1] == kb[1]:
            obs.append(ctx.ob("R13.9", s_.f, s_.node, status=VIOLATION, detail=f"{s_.f.short}: when maximising the selection is `{norm(A)}`, when minimising `{norm(B)}`: head and tail of ONE ascending order hold the same individuals in mirrored order (best last vs best first), so in this index-stable engine the same random draw / position picks a different individual on (f, max) than on (-f, min)", construct=f"mirrored:{s_.f.short}"))
        else:
            obs.append(ctx.ob("R13.9", s_.f, s_.node, detail=f"{s_.f.short}: the arms do not take head and tail of one order", construct=f"order:{s_.f.short}", trivial=True))
    if n < 3:
        raise AnalysisError(f"only {n} maximize switches found in the index-stable engines (4 confirmed by hand)")
    return obs


def r13_10(ctx: Ctx):
    """R13.10 a problem class never hands out a fixed signed infinite value: every `return +/-inf` of a Problem method or
    property stands under a maximize switch with the opposite sign in the other arm (R13.2 checks the arms). A base-class
    default such as `worst = +inf` is inherited by every wrapper that does not forward it and is the BEST value when
    maximising."""
    from .wrappers import inf_sign

    obs = []
    base = ctx.prog.cls("Problem")
    n = 0
    for ci in ctx.prog.classes.values():
        if not (ci is base or ctx.prog.is_subclass(ci, base)):
            continue
        for m in ci.methods.values():
            par = parents_map(m.node)
            for r in body_walk(m.node):
                if not (isinstance(r, ast.Return) and r.value is not None):
                    continue
                for x in ast.walk(r.value):
                    if not inf_sign(x) or (isinstance(par.get(id(x)), ast.UnaryOp)):
                        continue
                    # an operand of a comparison / a call argument is not what is returned
                    q0, consumed = x, False
                    while q0 is not r.value and q0 is not None:
                        p0 = par.get(id(q0))
                        if isinstance(p0, (ast.Compare, ast.Call, ast.BoolOp)) and not (isinstance(p0, ast.Call) and norm(p0.func) in ("float", "np.float64")):
                            consumed = True
                            break
                        q0 = p0
                    if consumed:
                        continue
                    n += 1
                    # under a maximize switch (conditional expression or if statement)?
                    q, under = x, False
                    while q is not None and q is not m.node:
                        p_ = par.get(id(q))
                        if isinstance(p_, (ast.IfExp, ast.If)) and q is not p_.test and (_reads_maximize(p_.test) or any(isinstance(y, ast.Attribute) and y.attr in ("maximize", "_maximize") for y in ast.walk(p_.test))):
                            under = True
                            break
                        q = p_
                    if not under:
                        users = [c2.name for c2 in ctx.prog.classes.values() if (c2 is ci or ctx.prog.is_subclass(c2, ci)) and not ctx.prog.is_abstract_class(c2) and ctx.prog.lookup_method(c2, m.name) is m]
                        if not users:
                            obs.append(ctx.ob("R13.10", m, r, detail=f"{m.short}: fixed `{norm(x)}`, but every concrete problem class of pyhms overrides it", construct=f"{m.short}:inf"))
                            continue
                    obs.append(ctx.ob("R13.10", m, r, status=OK if under else VIOLATION, detail=f"{m.short}: the infinite value is chosen by the direction" if under else f"{m.short} returns the fixed value `{norm(x)}` whatever the direction: the problem classes that inherit it ({', '.join(users[:4])}) report, when maximising, the best possible fitness for a solution that was never evaluated", construct=f"{m.short}:inf"))
    if n < 1:
        # the sentinel is not spelled as a returned literal (a table, a local): nothing is returned unconditionally
        obs.append(ctx.ob("R13.10", None, None, subject="core.problem", loc="-", detail="no problem method returns a literal infinite value", construct="no-literal-inf"))
    return obs


def _adapted_optimiser_value(ctx, f, args):
    """an operand `<res>.fun` where <res> is the result of an optimiser run on a sign-adapted objective defined in f"""
    defs = local_defs(f)
    nested = {d.name: d for d in ast.walk(f.node) if isinstance(d, (ast.FunctionDef,)) and d is not f.node}
    signs = _sign_names(ctx, f)
    for a in args:
        if not (isinstance(a, ast.Attribute) and a.attr == "fun" and isinstance(a.value, ast.Name)):
            continue
        ds = defs.get(a.value.id, [])
        if len(ds) != 1 or not isinstance(ds[0], ast.Call):
            continue
        call = ds[0]
        g = next((k.value for k in call.keywords if k.arg == "fun"), call.args[0] if call.args else None)
        body = None
        if isinstance(g, ast.Lambda):
            body = [g.body]
        elif isinstance(g, ast.Name) and g.id in nested:
            body = [r.value for r in ast.walk(nested[g.id]) if isinstance(r, ast.Return) and r.value is not None]
        if not body:
            continue
        def adapted(e):
            if isinstance(e, ast.BinOp) and isinstance(e.op, ast.Mult):
                return any(norm(x) in signs or _is_inline_sign(x) for x in (e.left, e.right))
            if isinstance(e, ast.IfExp) and _reads_maximize(e.test):
                return isinstance(e.body, ast.UnaryOp) != isinstance(e.orelse, ast.UnaryOp)
            return False
        if all(adapted(e) for e in body):
            return a
    return None


def r13_11(ctx: Ctx):
    """R13.11 the values handed to the direction-aware comparison are the fitness values themselves: an operand shifted by a
    fixed-sign amount (`worse_than(f, best + TOLERANCE)`) relaxes the test in one direction and tightens it in the other, so
    (f, max) and (-f, min) are decided differently."""
    obs = []
    n = 0
    for f in ctx.prog.all_functions():
        if f.name == "<module>":
            continue
        for c in body_walk(f.node):
            if not (isinstance(c, ast.Call) and isinstance(c.func, ast.Attribute) and c.func.attr in ("worse_than", "equivalent") and len(c.args) == 2):
                continue
            if f.cls is not None and f.name == c.func.attr and ctx.prog.is_subclass(f.cls, ctx.prog.cls("Problem")) and norm(c.func.value).endswith("_inner"):
                continue  # a wrapper forwarding the comparison
            n += 1
            shifted = None
            for a in c.args:
                if isinstance(a, ast.BinOp) and isinstance(a.op, (ast.Add, ast.Sub)):
                    for side in (a.left, a.right):
                        fixed = (isinstance(side, ast.Constant) and isinstance(side.value, (int, float)) and side.value != 0) or (isinstance(side, ast.Name) and side.id.isupper()) or (isinstance(side, ast.Attribute) and side.attr.isupper())
                        if fixed:
                            shifted = a
            adapted = _adapted_optimiser_value(ctx, f, c.args)
            if adapted is not None:
                obs.append(ctx.ob("R13.11", f, c, status=VIOLATION, detail=f"{f.short}: `{norm(c)[:90]}` hands `{norm(adapted)}` - the value of a SIGN-ADAPTED objective (-f when maximising) reported by the optimiser - to the direction-aware comparison as if it were a fitness: on a maximisation problem a value of the wrong sign is compared, so the decision on (f, max) differs from the one on (-f, min)", construct=f"{f.short}:adapted-operand"))
                continue
            if shifted is not None:
                obs.append(ctx.ob("R13.11", f, c, status=VIOLATION, detail=f"{f.short}: `{norm(c)[:90]}` compares a fitness shifted by a fixed-sign amount (`{norm(shifted)}`): under minimisation the shift makes the test easier to pass, under maximisation harder (or the reverse), so the decision on (f, max) differs from the one on (-f, min)", construct=f"{f.short}:shifted-operand"))
            else:
                obs.append(ctx.ob("R13.11", f, c, detail=f"{f.short}: compares the fitness values as they are", construct=f"{f.short}:shifted-operand", trivial=True))
    if n < 2:
        raise AnalysisError(f"only {n} calls of worse_than / equivalent found")
    return obs


def r13_12(ctx: Ctx):
    """R13.12 no fixed position is read out of a top-k population: `Population.topk` returns its rows best-FIRST when minimising
    and best-LAST when maximising (head / tail of one ascending argsort), so `topk(k).fitnesses[0]` is the best elite in one
    direction and the worst of them in the other; a decision taken on it differs between (f, max) and (-f, min)."""
    obs = []
    n = 0
    for f in ctx.prog.all_functions():
        if f.name == "<module>" or f.module.name.startswith(NON_DECISION_MODULES):
            continue
        defs = local_defs(f)
        par = parents_map(f.node)
        for x in body_walk(f.node):
            if not (isinstance(x, ast.Subscript) and isinstance(x.slice, (ast.Constant, ast.UnaryOp)) and isinstance(x.value, ast.Attribute) and x.value.attr in ("fitnesses", "genomes")):
                continue
            idx = x.slice
            if isinstance(idx, ast.UnaryOp) and not (isinstance(idx.op, ast.USub) and isinstance(idx.operand, ast.Constant)):
                continue
            base = x.value.value
            hops = 0
            while isinstance(base, ast.Name) and len(defs.get(base.id, [])) == 1 and hops < 3:
                base = defs[base.id][0]
                hops += 1
            if not (isinstance(base, ast.Call) and isinstance(base.func, ast.Attribute) and base.func.attr == "topk"):
                continue
            n += 1
            # under a maximize switch the position may be chosen per direction
            q, under = x, False
            while q is not None and q is not f.node:
                p_ = par.get(id(q))
                if isinstance(p_, (ast.IfExp, ast.If)) and q is not p_.test and _reads_maximize(p_.test):
                    under = True
                    break
                q = p_
            obs.append(ctx.ob("R13.12", f, x, status=OK if under else VIOLATION, detail=f"{f.short}: position chosen per direction" if under else f"{f.short}: `{norm(x)}` reads a fixed position of a top-k population; top-k rows are best-first when minimising and best-last when maximising, so this is the best of them in one direction and the WORST of them in the other: the decision taken on it is not the same on (f, max) and (-f, min)", construct=f"{f.short}:topk-position"))
    if not obs:
        obs.append(ctx.ob("R13.12", None, None, subject="pyhms", loc="-", detail="no fixed position is read out of a top-k population", construct="no-topk-position"))
    return obs


_NAN_TESTS = {"isnan"}
_NONFINITE_TESTS = {"isfinite", "isinf", "isneginf", "isposinf"}


def r13_7(ctx: Ctx, need: str = "symmetric"):
    """R13.7 what `worse_than` does before its maximize switch concerns missing values (NaN) only: a guard that looks at the
    VALUE of a fitness (finite / infinite / beyond a threshold) decides the order of two proper values by something other
    than their order (need='by-value', C04: the best kept value is then not the reported best); a fitness replaced by a
    fixed signed stand-in (`inf`) before the switch is the worst value in one direction and the best in the other
    (both needs: the mirrored problem is decided differently)."""
    obs = []
    n = 0
    for ci in ctx.prog.classes.values():
        m = ci.methods.get("worse_than")
        if m is None or not ci.module.name.startswith("pyhms.core.problem"):
            continue
        ps = m.params()
        if len(ps) < 3:
            continue
        body = [x for x in m.node.body if not (isinstance(x, ast.Expr) and isinstance(x.value, ast.Constant))]
        if len(body) == 1 and isinstance(body[0], ast.Raise):
            continue
        if len(body) == 1 and isinstance(body[0], ast.Return) and isinstance(body[0].value, ast.Call) and norm(body[0].value.func).endswith(".worse_than"):
            continue  # a wrapper delegating to the wrapped problem (R16.x follow the delegation)
        n += 1
        a, b = ps[1], ps[2]
        defs = local_defs(m)
        alias = {k: v[0] for k, v in defs.items() if len(v) == 1 and k not in (a, b) and not isinstance(v[0], ast.AugAssign)}

        def expand(e, depth=0):
            if isinstance(e, ast.Name) and e.id in alias and depth < 4:
                return expand(alias[e.id], depth + 1)
            return e

        def atoms(t):
            t = expand(t)
            if isinstance(t, ast.BoolOp):
                return [y for v in t.values for y in atoms(v)]
            if isinstance(t, ast.UnaryOp) and isinstance(t.op, ast.Not):
                return atoms(t.operand)
            return [t]

        def kind(t):
            if isinstance(t, ast.Call) and t.args:
                tail = norm(t.func).split(".")[-1]
                arg = expand(t.args[0])
                on_fit = any(isinstance(x, ast.Name) and x.id in (a, b) for x in ast.walk(arg))
                if tail in _NAN_TESTS and on_fit:
                    return "nan"
                if tail in _NONFINITE_TESTS and on_fit:
                    return "value"
            if isinstance(t, ast.Compare) and len(t.ops) == 1:
                l, r = expand(t.left), expand(t.comparators[0])
                names = lambda e: {x.id for x in ast.walk(e) if isinstance(x, ast.Name) and x.id in (a, b)}  # noqa: E731
                if isinstance(t.ops[0], (ast.NotEq, ast.Eq)) and canon(l) == canon(r) and names(l):
                    return "nan"  # x != x
                one = names(l) | names(r)
                if len(one) == 1 and (not names(l) or not names(r)) and isinstance(t.ops[0], (ast.Lt, ast.LtE, ast.Gt, ast.GtE, ast.Eq, ast.NotEq)):
                    other = r if names(l) else l
                    if _is_signed_constant(other):
                        return "value"
            return "?"

        bad_guard = unknown_guard = stand_in = None

        def walk(stmts):
            nonlocal bad_guard, unknown_guard, stand_in
            for s_ in stmts:
                if isinstance(s_, ast.If):
                    if _reads_maximize(s_.test) or any(isinstance(x, ast.Attribute) and x.attr == "maximize" for x in ast.walk(s_.test)):
                        continue  # the direction switch itself: R13.2
                    ks = [(kind(t), t) for t in atoms(s_.test)]
                    for k, t in ks:
                        if k == "value" and bad_guard is None:
                            bad_guard = (s_, t)
                        elif k == "?" and unknown_guard is None:
                            unknown_guard = (s_, t)
                    walk(s_.body)
                    walk(s_.orelse)
                elif isinstance(s_, (ast.Assign, ast.AnnAssign)) and getattr(s_, "value", None) is not None:
                    tg = s_.targets if isinstance(s_, ast.Assign) else [s_.target]
                    if any(isinstance(t, ast.Name) and t.id in (a, b) for t in tg):
                        v = s_.value
                        arms = [v.body, v.orelse] if isinstance(v, ast.IfExp) and not _reads_maximize(v.test) else [v] if not isinstance(v, ast.IfExp) else []
                        if any(_is_signed_constant(x) for x in arms) and stand_in is None:
                            stand_in = s_
                elif isinstance(s_, (ast.For, ast.While, ast.With, ast.Try)):
                    walk(getattr(s_, "body", []))
                    walk(getattr(s_, "orelse", []))

        walk(body)
        # conditional expressions outside statements' tests (e.g. in the returned value)
        for x in body_walk(m.node):
            if isinstance(x, ast.IfExp) and not _reads_maximize(x.test) and not any(isinstance(y, ast.Attribute) and y.attr == "maximize" for y in ast.walk(x.test)):
                for t in atoms(x.test):
                    k = kind(t)
                    if k == "value" and bad_guard is None and not any(_is_signed_constant(z) for z in (x.body, x.orelse)):
                        bad_guard = (x, t)
        if stand_in is not None:
            obs.append(ctx.ob("R13.7", m, stand_in, status=VIOLATION, detail=f"{ci.name}.worse_than replaces a fitness by a fixed signed stand-in before the direction switch (`{norm(stand_in)[:90]}`): that value is the worst one when minimising and the BEST one when maximising, so the problem and its mirror image are ordered differently and a missing value can be reported as the best", construct=f"{ci.name}.worse_than:stand-in"))
        elif bad_guard is not None and need == "by-value":
            obs.append(ctx.ob("R13.7", m, bad_guard[0], status=VIOLATION, detail=f"{ci.name}.worse_than decides `{norm(bad_guard[1])}` before comparing the two values: a proper (non-NaN) objective value, e.g. an infinite one in the problem's own direction, loses against a worse one, so the reported best is not the best value the objective returned", construct=f"{ci.name}.worse_than:value-guard"))
        elif unknown_guard is not None and need == "by-value":
            obs.append(ctx.ob("R13.7", m, unknown_guard[0], status=INCONCLUSIVE, detail=f"{ci.name}.worse_than is guarded by `{norm(unknown_guard[1])[:80]}`, which is neither a NaN test nor the direction switch", construct=f"{ci.name}.worse_than:guard"))
        else:
            obs.append(ctx.ob("R13.7", m, m.node, detail=f"{ci.name}.worse_than: only NaN tests precede the direction switch; the compared operands are the arguments", construct=f"{ci.name}.worse_than"))
    if n < 1:
        raise AnalysisError("no concrete worse_than implementation found")
    return obs


def _is_signed_constant(e) -> bool:
    """a fixed non-NaN number: a numeric literal, +/-inf in its spellings, sys.float_info.max, np.finfo(...).max"""
    if isinstance(e, ast.UnaryOp) and isinstance(e.op, (ast.USub, ast.UAdd)):
        return _is_signed_constant(e.operand)
    if isinstance(e, ast.Constant) and isinstance(e.value, (int, float)) and not isinstance(e.value, bool):
        return e.value == e.value
    t = norm(e)
    if t in ("np.inf", "numpy.inf", "math.inf", "inf", "np.Inf", "np.PINF", "np.NINF", "sys.float_info.max", "sys.maxsize"):
        return True
    if isinstance(e, ast.Call) and norm(e.func) == "float" and e.args and isinstance(e.args[0], ast.Constant) and isinstance(e.args[0].value, str):
        return "inf" in e.args[0].value.lower()
    if isinstance(e, ast.Attribute) and e.attr in ("max", "min") and isinstance(e.value, ast.Call) and norm(e.value.func).endswith("finfo"):
        return True
    return False


RULES = [
    ("R13.1", r13_1, 14),
    ("R13.2", r13_2_c13, 11),
    ("R13.3", r13_3_c13, 8),
    ("R13.4", r13_4, 3),
    ("R13.5", r13_5, 2),
    ("R13.6", r13_6, 1),
    ("R13.7", r13_7, 1),
    ("R13.8", r13_8, 1),
    ("R13.9", r13_9, 3),
    ("R13.10", r13_10, 1),
    ("R13.11", r13_11, 2),
    ("R13.12", r13_12, 1),
]
