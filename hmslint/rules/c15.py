"""C15 — nearest-better clustering returns exactly the defined cluster seeds (structural clauses)."""
from __future__ import annotations

import ast

from ..core import INCONCLUSIVE, OK, VIOLATION, Ctx, canon, is_self_attr, local_defs
from ..model import AnalysisError, body_walk, norm

CLAIM = """Decides the structural clauses of the clustering code: (R15.1) the identifier under which an individual is stored in the
spanning tree is an injective function of its genome (tolist / tobytes / tuple rendering — not numpy's lossy str/repr, an
f-string of the array, array2string or a rounded value), so pairwise distinct genomes can never collide (the pinned defect: near
duplicates collided, the DuplicatedNodeIdError was swallowed and the individuals vanished from the tree and from the mean
distance); (R15.2) a handler that discards DuplicatedNodeIdError is tolerated only together with an injective identifier;
(R15.3) the population is ordered best-first by the direction-aware Individual order exactly once, truncated by the prefix
int(n * truncation_factor), an individual's better-set is the prefix before it (a tie with the best attaches to the best), and
its parent is the argmin of the Euclidean norms to that set; (R15.4) the root gets distance inf, the mean ranges over the finite
distances only, and the cut is the strict `>` against mean x distance_factor (x correction); (R15.5) the generator feeds the
deme's current population and exports the mean of the same clustering (R09.4)."""
NOTE = """The numeric statements of the property (the returned set equals the mathematical definition for every population, invariance under
translation/scaling/order) are not decided; only that each step of the definition is implemented by the construct named above."""
TECHNIQUE = "injectivity classification of identifier expressions + shape rules on the clustering steps (custom ast analysis), sibling cross-check with NumpyCache.get_key"
EXPLANATION = """
Identifier expressions are classified by their outermost rendering: injective {x.tolist() inside str/tuple/json, x.tobytes(),
tuple(x), uuid, an index} versus lossy {str(x), repr(x), f'{x}', np.array2string, np.round / round before rendering,
formatting with a precision}. The sibling implementation NumpyCache.get_key (tobytes) is cross-checked as the reference idiom.
"""
ASSUMPTIONS = ["treelib rejects duplicate identifiers with DuplicatedNodeIdError", "float repr (tolist) round-trips: distinct floats render differently"]


def _injective(e: ast.AST, param: str) -> tuple[str, str]:
    """('injective'|'lossy'|'unknown', reason)"""
    t = canon(e)
    if isinstance(e, ast.Call):
        fn = norm(e.func)
        last = fn.split(".")[-1]
        if last in ("round", "around", "rint", "floor", "trunc", "float32", "float16"):
            return "lossy", f"`{fn}` rounds the genome before it is rendered"
        if last == "tobytes" and isinstance(e.func, ast.Attribute):
            return _inner_array(e.func.value, param)
        if last in ("hex", "decode") and isinstance(e.func, ast.Attribute) and isinstance(e.func.value, ast.Call):
            return _injective(e.func.value, param)
        if last == "tolist" and isinstance(e.func, ast.Attribute):
            return _inner_array(e.func.value, param)
        if fn in ("str", "repr") and e.args:
            inner = e.args[0]
            k, why = _injective(inner, param)
            if isinstance(inner, ast.Call) and norm(inner.func).split(".")[-1] in ("tolist", "tobytes"):
                return k, why
            if isinstance(inner, ast.Call) and norm(inner.func) in ("tuple", "list"):
                return _injective(inner, param)
            if _is_array_expr(inner, param):
                return "lossy", f"`{fn}()` of a numpy array renders at most 8 significant digits (and elides long arrays): distinct genomes can get the same identifier"
            return k, why
        if fn in ("tuple", "list") and e.args:
            inner = e.args[0]
            if isinstance(inner, ast.Call) and norm(inner.func).split(".")[-1] == "tolist":
                return _injective(inner, param)
            if _is_array_expr(inner, param):
                return "injective", "tuple of the genome's coordinates"
            if isinstance(inner, (ast.GeneratorExp, ast.ListComp)):
                return _injective(inner.elt, param)
            return "unknown", f"tuple of `{norm(inner)}`"
        if last in ("array2string", "array_str", "array_repr", "format_float_positional", "format"):
            return "lossy", f"`{fn}` renders with limited precision"
        if fn in ("hash", "id"):
            return "lossy" if fn == "hash" else "injective", f"`{fn}`"
        if last in ("dumps",) and e.args:
            return _injective(e.args[0], param)
        if last in ("hexdigest", "digest"):
            return "injective", "cryptographic digest (collision-free for practical purposes)"
        if fn in ("np.asarray", "np.array", "numpy.asarray") and e.args:
            return _inner_array(e, param)
    if isinstance(e, ast.JoinedStr):
        for v in e.values:
            if isinstance(v, ast.FormattedValue):
                if v.format_spec is not None:
                    return "lossy", "f-string with a format specification truncates the digits"
                k, why = _injective(v.value, param)
                if _is_array_expr(v.value, param):
                    return "lossy", "f-string of a numpy array uses its lossy str()"
                if k != "injective":
                    return k, why
        return "injective", "f-string of injective parts"
    if isinstance(e, ast.Attribute) and e.attr in ("uuid",):
        return "injective", "per-individual uuid"
    if _is_array_expr(e, param):
        return "unknown", "the raw array (unhashable)"
    return "unknown", f"`{t[:60]}`"


def _is_array_expr(e, param) -> bool:
    t = canon(e)
    if t.endswith(".genome"):
        return True
    if isinstance(e, ast.Call) and norm(e.func) in ("np.asarray", "np.array", "numpy.asarray") and e.args:
        return _is_array_expr(e.args[0], param)
    return False


def _inner_array(e, param):
    if _is_array_expr(e, param):
        return "injective", "exact rendering of every coordinate"
    if isinstance(e, ast.Call):
        k, why = _injective(e, param)
        if k == "lossy":
            return k, why
    return "unknown", f"`{norm(e)[:50]}`"


def r15_1(ctx: Ctx):
    """R15.1 the identifier of an individual in the spanning tree is injective on genomes."""
    f = ctx.prog.func("pyhms.utils.clusterization", "get_individual_id")
    p = f.params()[0]
    rets = [r for r in body_walk(f.node) if isinstance(r, ast.Return)]
    obs = []
    if len(rets) != 1:
        return [ctx.ob("R15.1", f, f.node, status=INCONCLUSIVE, detail="get_individual_id has several returns", construct="id")]
    defs = local_defs(f)
    v = rets[0].value
    while isinstance(v, ast.Name) and v.id in defs and len(defs[v.id]) == 1:
        v = defs[v.id][0]
    k, why = _injective(v, p)
    obs.append(ctx.ob("R15.1", f, rets[0], status=OK if k == "injective" else VIOLATION if k == "lossy" else INCONCLUSIVE, detail=f"identifier `{norm(v)}` is injective on genomes ({why})" if k == "injective" else f"identifier `{norm(v)}`: {why}", construct="id"))
    # sibling reference idiom
    nc = ctx.prog.cls_opt("NumpyCache")
    if nc is not None and "get_key" in nc.methods:
        g = nc.methods["get_key"]
        r2 = [r for r in body_walk(g.node) if isinstance(r, ast.Return)]
        ok = len(r2) == 1 and canon(r2[0].value).endswith(".tobytes()")
        obs.append(ctx.ob("R15.1", g, r2[0] if r2 else g.node, status=OK if ok else VIOLATION, detail="sibling key function (NumpyCache) uses tobytes()" if ok else f"NumpyCache.get_key is `{norm(r2[0].value) if r2 else '?'}`: cached objective values can be returned for a different genome", construct="sibling-key"))
    # every identifier handed to treelib comes from get_individual_id
    nbc = ctx.prog.cls("NearestBetterClustering")
    n = 0
    for ci in [nbc] + ctx.prog.subclasses(nbc):
        for m in ci.methods.values():
            for c in body_walk(m.node):
                if isinstance(c, ast.Call) and isinstance(c.func, ast.Attribute) and c.func.attr == "create_node":
                    for kname in ("identifier", "parent"):
                        a = next((k.value for k in c.keywords if k.arg == kname), None)
                        if a is None:
                            continue
                        n += 1
                        ok = isinstance(a, ast.Call) and norm(a.func) == "get_individual_id"
                        obs.append(ctx.ob("R15.1", m, a, status=OK if ok else VIOLATION, detail=f"{kname} computed by get_individual_id" if ok else f"tree {kname} `{norm(a)[:50]}` is not computed by get_individual_id"))
    if n < 3:
        raise AnalysisError(f"only {n} identifier arguments to create_node found (3 confirmed by hand)")
    return obs


def r15_2(ctx: Ctx):
    """R15.2 swallowing DuplicatedNodeIdError is tolerated only with an injective identifier."""
    obs = []
    inj = all(o.status == OK for o in r15_1(ctx) if o.construct == "id")
    nbc = ctx.prog.cls("NearestBetterClustering")
    found = 0
    for ci in [nbc] + ctx.prog.subclasses(nbc):
        for m in ci.methods.values():
            for n in body_walk(m.node):
                if isinstance(n, ast.Try):
                    for h in n.handlers:
                        swallowed = all(isinstance(s, (ast.Pass, ast.Continue)) or (isinstance(s, ast.Expr) and isinstance(s.value, ast.Constant)) for s in h.body)
                        t = norm(h.type) if h.type is not None else "<bare>"
                        if swallowed:
                            found += 1
                            ok = inj and "DuplicatedNodeIdError" in t
                            obs.append(ctx.ob("R15.2", m, h, status=OK if ok else VIOLATION, detail="duplicate-id error ignored; identifiers are injective, so it can only fire for truly equal genomes" if ok else f"`except {t}: pass` hides colliding identifiers (identifier not injective, or a broader exception class is swallowed): individuals silently vanish from the spanning tree"))
    if found == 0:
        obs.append(ctx.ob("R15.2", nbc, nbc.node, detail="no swallowed exception in the clustering code", construct="no-handler", trivial=True))
    return obs


def r15_3(ctx: Ctx):
    """R15.3 best-first once, prefix truncation, better-set = prefix before the individual (tie with the best -> the best), nearest = argmin of Euclidean norms."""
    obs = []
    nbc = ctx.prog.cls("NearestBetterClustering")
    init = nbc.methods["__init__"]
    sn = init.self_name()
    arg, tf = init.params()[1], init.params()[3]
    defs = local_defs(init)
    st = [n for n in body_walk(init.node) if isinstance(n, ast.Assign) and any(is_self_attr(t, "individuals", sn) for t in n.targets)]
    ok = False
    why = "self.individuals not assigned once"
    if len(st) == 1:
        v = st[0].value
        t = canon(v, defs)
        want = [f"sorted({arg},reverse=True)[:int(len(sorted({arg},reverse=True))*{tf})]", f"sorted({arg},reverse=True)[:int(len({arg})*{tf})]"]
        ok = t in want
        why = f"self.individuals = `{t[:110]}`; expected the best-first sort truncated to the prefix int(n * truncation_factor)"
    obs.append(ctx.ob("R15.3", init, st[0] if st else init.node, status=OK if ok else VIOLATION, detail="best-first order (Individual order, once), prefix truncation int(n * truncation_factor)" if ok else why, construct="order-truncate"))
    ps = nbc.methods["_prepare_spanning_tree"]
    psn = ps.self_name()
    loops = [n for n in ps.node.body if isinstance(n, ast.For)]
    okl = len(loops) == 1 and canon(loops[0].iter) == f"{psn}.individuals[1:]" and isinstance(loops[0].target, ast.Name)
    obs.append(ctx.ob("R15.3", ps, loops[0] if loops else ps.node, status=OK if okl else VIOLATION, detail="every individual after the best is attached" if okl else f"the spanning tree is built over `{norm(loops[0].iter) if loops else '?'}`, not over every individual after the best", construct="attach-loop"))
    if okl:
        ind = loops[0].target.id
        ldefs = {}
        for n in ast.walk(loops[0]):
            if isinstance(n, ast.Assign) and len(n.targets) == 1 and isinstance(n.targets[0], ast.Name):
                ldefs.setdefault(n.targets[0].id, []).append(n)
        rootdefs = [n for n in ps.node.body if isinstance(n, ast.Assign) and norm(n.targets[0]) == "root"]
        okroot = len(rootdefs) == 1 and canon(rootdefs[0].value) == f"{psn}.individuals[0]"
        bs = ldefs.get("better_individuals", [])
        vals = sorted(canon(n.value) for n in bs)
        okb = vals == sorted([f"[root]", f"{psn}.individuals[:{psn}.individuals.index({ind})]"])
        ifs = [n for n in loops[0].body if isinstance(n, ast.If)]
        oktie = any(canon(i.test) in (f"{ind}==root", f"root=={ind}") and any(isinstance(s, ast.Assign) and canon(s.value) == "[root]" for s in i.body) for i in ifs)
        obs.append(ctx.ob("R15.3", ps, bs[0] if bs else loops[0], status=OK if (okroot and okb and oktie) else VIOLATION, detail="better-set = prefix before the individual; a tie with the best attaches to the best" if (okroot and okb and oktie) else f"better-set definitions `{vals}` (root ok: {okroot}, tie rule ok: {oktie}) do not implement 'strictly better = earlier in the best-first order, ties with the best attach to the best'", construct="better-set"))
        # the node's distance/parent come from _find_nearest_better(ind, better)
        calls = [c for c in ast.walk(loops[0]) if isinstance(c, ast.Call) and norm(c.func) == f"{psn}._find_nearest_better"]
        okc = len(calls) == 1 and [canon(a) for a in calls[0].args] == [ind, "better_individuals"]
        obs.append(ctx.ob("R15.3", ps, calls[0] if calls else loops[0], status=OK if okc else VIOLATION, detail="nearest better found among the better-set" if okc else "nearest-better search is not applied to (individual, its better-set)", construct="nearest-call"))
    fn = nbc.methods["_find_nearest_better"]
    i_p, b_p = fn.params()[1], fn.params()[2]
    fdefs = local_defs(fn)
    rets = [r for r in body_walk(fn.node) if isinstance(r, ast.Return)]
    t = canon(rets[0].value, fdefs) if len(rets) == 1 else ""
    import re

    okn = bool(re.search(r"np\.linalg\.norm\(%s\.genome-np\.array\(\[(\w+)\.genomefor\1in%s\]\),axis=1\)" % (i_p, b_p), t)) and "np.argmin(" in t and t.count("np.argmax") == 0
    ordok = "ord=" not in t
    obs.append(ctx.ob("R15.3", fn, rets[0] if rets else fn.node, status=OK if (okn and ordok) else VIOLATION, detail="nearest = argmin of Euclidean distances to the better individuals" if (okn and ordok) else f"_find_nearest_better returns `{t[:120]}`: not (min Euclidean distance, the individual attaining it)", construct="nearest"))
    return obs


def r15_4(ctx: Ctx):
    """R15.4 root distance inf; mean over finite distances; strict `>` cut against mean x factor (x correction)."""
    obs = []
    nbc = ctx.prog.cls("NearestBetterClustering")
    ps = nbc.methods["_prepare_spanning_tree"]
    first = [c for c in ps.node.body if isinstance(c, ast.Expr) and isinstance(c.value, ast.Call) and norm(c.value.func).endswith("create_node")]
    okr = False
    if first:
        data = next((k.value for k in first[0].value.keywords if k.arg == "data"), None)
        if isinstance(data, ast.Dict):
            for k, v in zip(data.keys, data.values):
                if isinstance(k, ast.Constant) and k.value == "distance":
                    okr = norm(v) in ("np.inf", "float('inf')", "math.inf")
    obs.append(ctx.ob("R15.4", ps, first[0] if first else ps.node, status=OK if okr else VIOLATION, detail="the best individual is a seed by construction (distance inf)" if okr else "the root of the spanning tree does not get distance inf: the best individual is not guaranteed to be a cluster seed", construct="root-inf"))
    d = nbc.methods["distances"]
    rets = [r for r in body_walk(d.node) if isinstance(r, ast.Return)]
    okd = False
    if len(rets) == 1 and isinstance(rets[0].value, ast.ListComp):
        lc = rets[0].value
        conds = [canon(c) for g in lc.generators for c in g.ifs]
        okd = canon(lc.generators[0].iter).endswith(".tree.all_nodes()") and any(c.startswith("notnp.isinf(") or c.startswith("np.isfinite(") for c in conds) and len(conds) == 1
    obs.append(ctx.ob("R15.4", d, rets[0] if rets else d.node, status=OK if okd else VIOLATION, detail="distances = finite edge lengths of all nodes" if okd else "`distances` does not range over exactly the finite edge lengths (inf of the root included, or edges missing): the mean is wrong", construct="finite-distances"))
    fr = nbc.methods["_find_root_nodes"]
    sn = fr.self_name()
    defs = local_defs(fr)
    rets = [r for r in body_walk(fr.node) if isinstance(r, ast.Return)]
    okc = False
    why = "cut not recognised"
    if len(rets) == 1 and isinstance(rets[0].value, ast.ListComp) and len(rets[0].value.generators) == 1 and len(rets[0].value.generators[0].ifs) == 1:
        cond = rets[0].value.generators[0].ifs[0]
        if isinstance(cond, ast.Compare) and len(cond.ops) == 1:
            l, r, op = cond.left, cond.comparators[0], cond.ops[0]
            lt = canon(l).replace('"', "'")
            rt = canon(r, defs)
            if not isinstance(op, ast.Gt):
                why = f"cut uses `{type(op).__name__}` instead of the strict `>`: individuals exactly at the threshold become seeds"
            elif not lt.endswith(".data['distance']"):
                why = f"cut compares `{norm(l)}`, not the node's distance"
            elif not (f"np.mean({sn}.distances)" in rt and f"{sn}.distance_factor" in rt):
                why = f"threshold `{rt[:100]}` is not mean(finite distances) x distance_factor"
            else:
                okc = True
    obs.append(ctx.ob("R15.4", fr, rets[0] if rets else fr.node, status=OK if okc else VIOLATION, detail="seed iff distance > mean(finite distances) x distance_factor (x correction)" if okc else f"_find_root_nodes: {why}", construct="cut"))
    cl = nbc.methods["cluster"]
    calls = [norm(c.func) for c in body_walk(cl.node) if isinstance(c, ast.Call)]
    okcl = f"{cl.self_name()}._prepare_spanning_tree" in calls and f"{cl.self_name()}._find_root_nodes" in calls
    obs.append(ctx.ob("R15.4", cl, cl.node, status=OK if okcl else VIOLATION, detail="cluster() = build the spanning tree, then cut" if okcl else "cluster() no longer builds the tree and applies the cut", construct="cluster"))
    return obs


def r15_5(ctx: Ctx):
    """R15.5 generators feed the deme's current population and export the same clustering's mean distance (R09.4)."""
    from . import c09

    out = []
    for o in c09.r09_4(ctx):
        o.rule = "R15.5"
        out.append(o)
    return out


RULES = [("R15.1", r15_1, 4), ("R15.2", r15_2, 1), ("R15.3", r15_3, 5), ("R15.4", r15_4, 4), ("R15.5", r15_5, 2)]
