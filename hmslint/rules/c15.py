"""C15 — nearest-better clustering returns exactly the defined cluster seeds (structural clauses)."""
from __future__ import annotations

import ast
import re

from ..core import INCONCLUSIVE, OK, VIOLATION, Ctx, Ob, canon, is_self_attr, local_defs
from ..model import AnalysisError, body_walk, norm

CLAIM = """Decides the structural clauses of the clustering code: (R15.1) the identifier under which an individual is stored in the
spanning tree is an injective function of its genome (tolist / tobytes / tuple rendering — not numpy's lossy str/repr, an
f-string of the array, array2string or a rounded value), so pairwise distinct genomes can never collide (the pinned defect: near
duplicates collided, the DuplicatedNodeIdError was swallowed and the individuals vanished from the tree and from the mean
distance); (R15.2) a handler that discards DuplicatedNodeIdError is tolerated only together with an injective identifier;
(R15.3) the population is ordered best-first by the direction-aware Individual order exactly once, truncated by the prefix
int(n * truncation_factor), an individual's better-set is the prefix before it (a tie with the best attaches to the best), and
its parent is the argmin of the Euclidean norms to that set; (R15.4) the root gets distance inf, the mean ranges over the finite
distances only, and the cut is the strict `>` against mean x distance_factor (x correction); (R15.7) individuals are never looked up by `==` (fitness equivalence) inside the clustering; (R15.8) every kept individual gets a node (no absolute-tolerance skip); the cut has no size special case and may be written vectorised. (R15.9) no raw comparison of objective values inside the clustering module, and Individual.__eq__ is exactly fitness equivalence (index() / `== root` rest on it); a uuid identifier is injective only if clone() draws a new uuid (R15.1). R15.5 is no longer registered here: which population a generator hands to the clustering is C07 / C09 / C10's question."""
NOTE = """The numeric statements of the property (the returned set equals the mathematical definition for every population, invariance under
translation/scaling/order) are not decided; only that each step of the definition is implemented by the construct named above."""
TECHNIQUE = "injectivity classification of identifier expressions + shape rules on the clustering steps (custom ast analysis), sibling cross-check with NumpyCache.get_key"
EXPLANATION = """
Identifier expressions are classified by their outermost rendering: injective {x.tolist() inside str/tuple/json, x.tobytes(),
tuple(x), uuid, an index} versus lossy {str(x), repr(x), f'{x}', np.array2string, np.round / round before rendering,
formatting with a precision}. The sibling implementation NumpyCache.get_key (tobytes) is cross-checked as the reference idiom.
"""
ASSUMPTIONS = ["treelib rejects duplicate identifiers with DuplicatedNodeIdError", "float repr (tolist) round-trips: distinct floats render differently"]


def _injective(e: ast.AST, param: str) -> tuple[str, str]:
    """('injective'|'lossy'|'unknown', reason)"""
    t = canon(e)
    if isinstance(e, ast.Call):
        fn = norm(e.func)
        last = fn.split(".")[-1]
        if last in ("round", "around", "rint", "floor", "trunc", "float32", "float16"):
            return "lossy", f"`{fn}` rounds the genome before it is rendered"
        if last == "tobytes" and isinstance(e.func, ast.Attribute):
            return _inner_array(e.func.value, param)
        if last in ("hex", "decode") and isinstance(e.func, ast.Attribute) and isinstance(e.func.value, ast.Call):
            return _injective(e.func.value, param)
        if last == "tolist" and isinstance(e.func, ast.Attribute):
            return _inner_array(e.func.value, param)
        if fn in ("str", "repr") and e.args:
            inner = e.args[0]
            k, why = _injective(inner, param)
            if isinstance(inner, ast.Call) and norm(inner.func).split(".")[-1] in ("tolist", "tobytes"):
                return k, why
            if isinstance(inner, ast.Call) and norm(inner.func) in ("tuple", "list"):
                return _injective(inner, param)
            if _is_array_expr(inner, param):
                return "lossy", f"`{fn}()` of a numpy array renders at most 8 significant digits (and elides long arrays): distinct genomes can get the same identifier"
            return k, why
        if fn in ("tuple", "list") and e.args:
            inner = e.args[0]
            if isinstance(inner, ast.Call) and norm(inner.func).split(".")[-1] == "tolist":
                return _injective(inner, param)
            if _is_array_expr(inner, param):
                return "injective", "tuple of the genome's coordinates"
            if isinstance(inner, (ast.GeneratorExp, ast.ListComp)):
                return _injective(inner.elt, param)
            return "unknown", f"tuple of `{norm(inner)}`"
        if last in ("array2string", "array_str", "array_repr", "format_float_positional", "format"):
            return "lossy", f"`{fn}` renders with limited precision"
        if fn in ("hash", "id"):
            return "lossy" if fn == "hash" else "injective", f"`{fn}`"
        if last in ("dumps",) and e.args:
            return _injective(e.args[0], param)
        if last in ("hexdigest", "digest"):
            return "injective", "cryptographic digest (collision-free for practical purposes)"
        if fn in ("np.asarray", "np.array", "numpy.asarray") and e.args:
            return _inner_array(e, param)
    if isinstance(e, ast.JoinedStr):
        for v in e.values:
            if isinstance(v, ast.FormattedValue):
                if v.format_spec is not None:
                    return "lossy", "f-string with a format specification truncates the digits"
                k, why = _injective(v.value, param)
                if _is_array_expr(v.value, param):
                    return "lossy", "f-string of a numpy array uses its lossy str()"
                if k != "injective":
                    return k, why
        return "injective", "f-string of injective parts"
    if isinstance(e, ast.Attribute) and e.attr in ("uuid",):
        return "injective", "per-individual uuid"
    if _is_array_expr(e, param):
        return "unknown", "the raw array (unhashable)"
    return "unknown", f"`{t[:60]}`"


def _is_array_expr(e, param) -> bool:
    t = canon(e)
    if t.endswith(".genome"):
        return True
    if isinstance(e, ast.Call) and norm(e.func) in ("np.asarray", "np.array", "numpy.asarray") and e.args:
        return _is_array_expr(e.args[0], param)
    return False


def _inner_array(e, param):
    if _is_array_expr(e, param):
        return "injective", "exact rendering of every coordinate"
    if isinstance(e, ast.Call):
        k, why = _injective(e, param)
        if k == "lossy":
            return k, why
    return "unknown", f"`{norm(e)[:50]}`"


def r15_1(ctx: Ctx):
    """R15.1 the identifier of an individual in the spanning tree is injective on genomes."""
    f = ctx.prog.func("pyhms.utils.clusterization", "get_individual_id")
    p = f.params()[0]
    rets = [r for r in body_walk(f.node) if isinstance(r, ast.Return)]
    obs = []
    if len(rets) != 1:
        return [ctx.ob("R15.1", f, f.node, status=INCONCLUSIVE, detail="get_individual_id has several returns", construct="id")]
    defs = local_defs(f)
    v = rets[0].value
    while isinstance(v, ast.Name) and v.id in defs and len(defs[v.id]) == 1:
        v = defs[v.id][0]
    k, why = _injective(v, p)
    if k == "injective" and any(isinstance(x, ast.Attribute) and x.attr == "uuid" for x in ast.walk(v)):
        # the uuid identifies an individual only if no copy keeps it: `clone()` built on copy(self) hands the parent's uuid to
        # every offspring unless it draws a new one
        ind = ctx.prog.cls("Individual")
        for m in ind.methods.values():
            sn = m.self_name()
            for y in body_walk(m.node):
                if isinstance(y, ast.Assign) and len(y.targets) == 1 and isinstance(y.targets[0], ast.Name) and isinstance(y.value, ast.Call) and norm(y.value.func).split(".")[-1] in ("copy", "deepcopy") and y.value.args and isinstance(y.value.args[0], ast.Name) and y.value.args[0].id == sn:
                    fresh = any(isinstance(z, ast.Assign) and any(isinstance(t, ast.Attribute) and t.attr == "uuid" and isinstance(t.value, ast.Name) and t.value.id == y.targets[0].id for t in z.targets) for z in body_walk(m.node))
                    if not fresh:
                        k, why = "lossy", f"Individual.{m.name} copies the object with its uuid (`{norm(y)}`, no new uuid drawn): offspring cloned from one parent share the identifier, the duplicate node is swallowed and all but one of them drop out of the spanning tree"
    obs.append(ctx.ob("R15.1", f, rets[0], status=OK if k == "injective" else VIOLATION if k == "lossy" else INCONCLUSIVE, detail=f"identifier `{norm(v)}` is injective on genomes ({why})" if k == "injective" else f"identifier `{norm(v)}`: {why}", construct="id"))
    # sibling reference idiom
    nc = ctx.prog.cls_opt("NumpyCache")
    if nc is not None and "get_key" in nc.methods:
        g = nc.methods["get_key"]
        r2 = [r for r in body_walk(g.node) if isinstance(r, ast.Return)]
        ok = len(r2) == 1 and canon(r2[0].value, local_defs(g)).endswith(".tobytes()")
        k2 = _injective(r2[0].value, g.params()[-1])[0] if len(r2) == 1 else "unknown"
        obs.append(ctx.ob("R15.1", g, r2[0] if r2 else g.node, status=OK if (ok or k2 == "injective") else VIOLATION if k2 == "lossy" else INCONCLUSIVE, detail="sibling key function (NumpyCache) uses tobytes()" if ok else f"NumpyCache.get_key is `{norm(r2[0].value) if r2 else '?'}`: cached objective values can be returned for a different genome", construct="sibling-key"))
    # every identifier handed to treelib comes from get_individual_id
    nbc = ctx.prog.cls("NearestBetterClustering")
    n = 0
    for ci in [nbc] + ctx.prog.subclasses(nbc):
        for m in ci.methods.values():
            for c in body_walk(m.node):
                if isinstance(c, ast.Call) and isinstance(c.func, ast.Attribute) and c.func.attr == "create_node":
                    for kname in ("identifier", "parent"):
                        a = next((k.value for k in c.keywords if k.arg == kname), None)
                        if a is None:
                            continue
                        n += 1
                        if kname == "parent" and isinstance(a, ast.Constant) and a.value is None:
                            continue
                        mdefs = local_defs(m)
                        ar = a
                        while isinstance(ar, ast.Name) and len(mdefs.get(ar.id, [])) == 1:
                            ar = mdefs[ar.id][0]
                        ok = isinstance(ar, ast.Call) and norm(ar.func) == "get_individual_id"
                        lossy = isinstance(ar, ast.Call) and norm(ar.func) in ("str", "repr", "hash") or isinstance(ar, ast.JoinedStr)
                        obs.append(ctx.ob("R15.1", m, a, status=OK if ok else VIOLATION if lossy else INCONCLUSIVE, detail=f"{kname} computed by get_individual_id" if ok else f"tree {kname} `{norm(a)[:50]}` is not computed by get_individual_id"))
    if n < 3:
        raise AnalysisError(f"only {n} identifier arguments to create_node found (3 confirmed by hand)")
    return obs


def r15_2(ctx: Ctx):
    """R15.2 swallowing DuplicatedNodeIdError is tolerated only with an injective identifier."""
    obs = []
    inj = all(o.status == OK for o in r15_1(ctx) if o.construct == "id")
    nbc = ctx.prog.cls("NearestBetterClustering")
    found = 0
    for ci in [nbc] + ctx.prog.subclasses(nbc):
        for m in ci.methods.values():
            for n in body_walk(m.node):
                if isinstance(n, ast.Try):
                    for h in n.handlers:
                        swallowed = all(isinstance(s, (ast.Pass, ast.Continue)) or (isinstance(s, ast.Expr) and isinstance(s.value, ast.Constant)) for s in h.body)
                        t = norm(h.type) if h.type is not None else "<bare>"
                        if swallowed:
                            found += 1
                            ok = inj and "DuplicatedNodeIdError" in t
                            obs.append(ctx.ob("R15.2", m, h, status=OK if ok else VIOLATION, detail="duplicate-id error ignored; identifiers are injective, so it can only fire for truly equal genomes" if ok else f"`except {t}: pass` hides colliding identifiers (identifier not injective, or a broader exception class is swallowed): individuals silently vanish from the spanning tree"))
    if found == 0:
        obs.append(ctx.ob("R15.2", nbc, nbc.node, detail="no swallowed exception in the clustering code", construct="no-handler", trivial=True))
    return obs


def _truncation_counterexample(expr_txt: str, arg: str, tf: str, probe: bool = False):
    """Evaluate a closed arithmetic expression over n = len(<arg>) and t = <tf> (no repo code is run: only + - * / // int
    len floor ceil round min max on numbers) on a grid and compare with int(n * t).  -> (n, t, got, want) | None | 'equal'"""
    import math

    try:
        tree = ast.parse(expr_txt, mode="eval").body
    except SyntaxError:
        return None
    allowed_calls = {"int": int, "round": round, "min": min, "max": max, "math.floor": math.floor, "math.ceil": math.ceil, "np.floor": math.floor, "np.ceil": math.ceil, "floor": math.floor, "ceil": math.ceil}

    def ev(e, n, t):
        if isinstance(e, ast.Constant) and isinstance(e.value, (int, float)):
            return e.value
        if isinstance(e, ast.Name) and e.id == tf:
            return t
        if isinstance(e, ast.Call) and norm(e.func) == "len" and len(e.args) == 1 and (canon(e.args[0]) == arg or canon(e.args[0]).startswith(f"sorted({arg}")):
            return n
        if isinstance(e, ast.Call) and norm(e.func) in allowed_calls and not e.keywords:
            return allowed_calls[norm(e.func)](*[ev(a, n, t) for a in e.args])
        if isinstance(e, ast.BinOp) and isinstance(e.op, (ast.Add, ast.Sub, ast.Mult, ast.Div, ast.FloorDiv)):
            a, b = ev(e.left, n, t), ev(e.right, n, t)
            return {ast.Add: a + b, ast.Sub: a - b, ast.Mult: a * b}.get(type(e.op)) if not isinstance(e.op, (ast.Div, ast.FloorDiv)) else (a / b if isinstance(e.op, ast.Div) else a // b)
        if isinstance(e, ast.UnaryOp) and isinstance(e.op, ast.USub):
            return -ev(e.operand, n, t)
        raise ValueError("outside the arithmetic fragment")

    try:
        for n in (2, 3, 5, 7, 10, 15, 23, 33, 40, 60):
            for t in (1.0, 0.9, 0.8, 0.6, 0.5, 0.3, 0.25, 0.1):
                got, want = ev(tree, n, t), int(n * t)
                if got != want:
                    return (n, t, got, want)
    except (ValueError, ZeroDivisionError, TypeError):
        return None
    return "equal" if probe else None


def _calls_helper(e, selfn) -> bool:
    """the expression calls a method of the object itself (a helper whose result the rule does not know)"""
    return any(isinstance(x, ast.Call) and isinstance(x.func, ast.Attribute) and isinstance(x.func.value, ast.Name) and x.func.value.id == selfn for x in ast.walk(e))


def r15_3(ctx: Ctx):
    """R15.3 best-first once, prefix truncation, better-set = prefix before the individual (tie with the best -> the best), nearest = argmin of Euclidean norms."""
    obs = []
    nbc = ctx.prog.cls("NearestBetterClustering")
    init = nbc.methods["__init__"]
    sn = init.self_name()
    arg, tf = init.params()[1], init.params()[3]
    defs = local_defs(init)
    st = [n for n in body_walk(init.node) if isinstance(n, ast.Assign) and any(is_self_attr(t, "individuals", sn) for t in n.targets)]
    ok = False
    why = "self.individuals not assigned once"
    if len(st) == 1:
        v = st[0].value
        t = canon(v, defs)
        want = [f"sorted({arg},reverse=True)[:int(len(sorted({arg},reverse=True))*{tf})]", f"sorted({arg},reverse=True)[:int(len({arg})*{tf})]"]
        want += [f"sorted({arg},reverse=True)[:int({tf}*len({arg}))]", f"sorted({arg},reverse=True)[:int({tf}*len(sorted({arg},reverse=True)))]", f"sorted({arg},reverse=True)[:math.floor(len({arg})*{tf})]"]
        ok = t in want
        why = f"self.individuals = `{t[:110]}`; expected the best-first sort truncated to the prefix int(n * truncation_factor)"
        definite = ("sorted(" in t and "reverse=True" not in t) or "key=" in t or "[-" in t or ("sorted(" not in t and ".sort(" not in t) or "round(" in t or "ceil(" in t or "+1" in t
        # a local list that is sorted / cut in place after it was built: the text of its definition says nothing
        vn = v
        hops = 0
        mutated_local = False
        while isinstance(vn, ast.Name) and hops < 4:
            nm_ = vn.id
            if any((isinstance(x, ast.Call) and isinstance(x.func, ast.Attribute) and isinstance(x.func.value, ast.Name) and x.func.value.id == nm_ and x.func.attr in ("sort", "reverse", "pop", "remove", "clear", "insert", "append", "extend")) or (isinstance(x, ast.Delete) and any(nm_ in {y.id for y in ast.walk(t_) if isinstance(y, ast.Name)} for t_ in x.targets)) or (isinstance(x, ast.Subscript) and isinstance(x.ctx, ast.Store) and isinstance(x.value, ast.Name) and x.value.id == nm_) for x in body_walk(init.node)):
                mutated_local = True
            ds_ = defs.get(nm_, [])
            vn = ds_[0] if len(ds_) == 1 else None
            hops += 1
        if mutated_local and not ok:
            definite = False
            why = f"self.individuals is a local list that is sorted / truncated in place (`{t[:60]}`): cannot read the order and the cut off its definition"
        if not ok and not definite:
            # prefix length as an arithmetic expression of n and the truncation factor: compare with int(n * t) on a grid
            m_ = re.fullmatch(r"sorted\(%s,reverse=True\)\[:(.*)\]" % re.escape(arg), t)
            if m_:
                cex = _truncation_counterexample(m_.group(1), arg, tf)
                if cex is not None:
                    definite = True
                    why = f"self.individuals keeps `{m_.group(1)}` individuals; for n={cex[0]}, truncation={cex[1]} that is {cex[2]} instead of int(n * truncation) = {cex[3]}"
                elif cex is None and _truncation_counterexample(m_.group(1), arg, tf, probe=True) == "equal":
                    ok = True
    obs.append(ctx.ob("R15.3", init, st[0] if st else init.node, status=OK if ok else VIOLATION if (len(st) != 1 or definite) else INCONCLUSIVE, detail="best-first order (Individual order, once), prefix truncation int(n * truncation_factor)" if ok else why, construct="order-truncate"))
    # the factors are used as given: `x or default` replaces a legitimate 0 / 0.0
    for n_ in body_walk(init.node):
        if isinstance(n_, ast.Assign) and len(n_.targets) == 1 and is_self_attr(n_.targets[0], None, sn) and n_.targets[0].attr in ("distance_factor", "truncation_factor"):
            v_ = n_.value
            pname = n_.targets[0].attr
            if isinstance(v_, ast.BoolOp) and isinstance(v_.op, ast.Or) and any(isinstance(x, ast.Constant) for x in v_.values):
                obs.append(ctx.ob("R15.3", init, n_, status=VIOLATION, detail=f"`{norm(n_)}` replaces a falsy {pname} (0 / 0.0) by a default: with factor 0 every kept individual is a seed by definition, but the clustering runs with the default factor", construct=f"param:{pname}"))
            elif canon(v_, defs) in init.params():
                obs.append(ctx.ob("R15.3", init, n_, detail=f"{pname} stored as given", construct=f"param:{pname}"))
            else:
                obs.append(ctx.ob("R15.3", init, n_, status=INCONCLUSIVE, detail=f"cannot tell whether `{norm(n_)[:60]}` stores the parameter unchanged", construct=f"param:{pname}"))
    ps = nbc.methods["_prepare_spanning_tree"]
    psn = ps.self_name()
    loops = [n for n in ps.node.body if isinstance(n, ast.For)]
    okl = len(loops) == 1 and canon(loops[0].iter) == f"{psn}.individuals[1:]" and isinstance(loops[0].target, ast.Name)
    enum_ind = None
    if len(loops) == 1 and isinstance(loops[0].iter, ast.Call) and norm(loops[0].iter.func) == "enumerate" and loops[0].iter.args and canon(loops[0].iter.args[0]) == f"{psn}.individuals[1:]" and isinstance(loops[0].target, ast.Tuple) and len(loops[0].target.elts) == 2 and all(isinstance(e, ast.Name) for e in loops[0].target.elts):
        okl = True
        enum_ind = loops[0].target.elts[1].id
    it_t = canon(loops[0].iter, local_defs(ps)) if len(loops) == 1 else ""
    if not okl and len(loops) == 1 and it_t == f"{psn}.individuals[1:]" and isinstance(loops[0].target, ast.Name):
        okl = True
    definite = len(loops) == 1 and re.fullmatch(re.escape(f"{psn}.individuals") + r"(\[[-\d:]*\])?", it_t) is not None and not okl
    obs.append(ctx.ob("R15.3", ps, loops[0] if loops else ps.node, status=OK if okl else VIOLATION if definite else INCONCLUSIVE, detail="every individual after the best is attached" if okl else f"the spanning tree is built over `{norm(loops[0].iter) if loops else '?'}`, not over every individual after the best", construct="attach-loop"))
    if okl:
        ind = enum_ind or loops[0].target.id
        ldefs = {}
        for n in ast.walk(loops[0]):
            if isinstance(n, ast.Assign) and len(n.targets) == 1 and isinstance(n.targets[0], ast.Name):
                ldefs.setdefault(n.targets[0].id, []).append(n)
        pdefs = local_defs(ps)
        calls = [c for c in ast.walk(loops[0]) if isinstance(c, ast.Call) and norm(c.func) == f"{psn}._find_nearest_better"]
        st_b = INCONCLUSIVE
        why_b = "cannot find the better-set handed to _find_nearest_better"
        if len(calls) == 1 and len(calls[0].args) == 2:
            import copy

            from ..core import _Subst

            bexp = _Subst(pdefs, 4).visit(copy.deepcopy(calls[0].args[1]))
            root_t = f"{psn}.individuals[0]"
            prefix_t = f"{psn}.individuals[:{psn}.individuals.index({ind})]"

            def is_root_list(e):
                return isinstance(e, ast.List) and len(e.elts) == 1 and canon(e.elts[0], pdefs) == root_t

            why_b = f"better-set `{norm(calls[0].args[1])}` = `{canon(bexp)[:100]}`"
            if isinstance(bexp, ast.IfExp) and any(isinstance(x, ast.Call) and norm(x.func).split(".")[-1] in ("isclose", "allclose") for x in ast.walk(bexp.test)):
                st_b, why_b = VIOLATION, f"the tie with the best is decided with a tolerance (`{norm(bexp.test)[:60]}`): individuals that are merely close to the best attach to it instead of to their nearest strictly better individual"
            elif isinstance(bexp, ast.IfExp):
                tie = canon(bexp.test, pdefs)
                tie_eq = tie in (f"{ind}=={root_t}", f"{root_t}=={ind}", f"not{ind}!={root_t}")
                tie_ne = tie in (f"{ind}!={root_t}", f"{root_t}!={ind}", f"not{ind}=={root_t}")
                a, b = (bexp.body, bexp.orelse) if tie_eq else (bexp.orelse, bexp.body)
                if (tie_eq or tie_ne) and is_root_list(a) and canon(b) == prefix_t:
                    st_b = OK
                elif (tie_eq or tie_ne) and is_root_list(b) and canon(a) == prefix_t:
                    st_b, why_b = VIOLATION, "the tie rule is inverted: individuals tied with the best get the prefix, all others attach to the best"
                elif (tie_eq or tie_ne) and is_root_list(a) and re.fullmatch(re.escape(f"{psn}.individuals[:") + r".*\]", canon(b)) and not _calls_helper(b, psn):
                    st_b, why_b = VIOLATION, f"better-set `{canon(b)[:80]}` is not the prefix strictly before the individual in the best-first order"
            elif canon(bexp) == prefix_t:
                st_b, why_b = VIOLATION, "no tie rule: an individual tied with the best has an empty better-set or attaches to an equal one"
            elif (re.fullmatch(re.escape(f"{psn}.individuals[:") + r".*\]", canon(bexp)) or canon(bexp) == f"{psn}.individuals") and not _calls_helper(bexp, psn):
                st_b, why_b = VIOLATION, f"better-set `{canon(bexp)[:80]}` is not the prefix strictly before the individual"
        obs.append(ctx.ob("R15.3", ps, calls[0] if calls else loops[0], status=st_b, detail="better-set = prefix before the individual; a tie with the best attaches to the best" if st_b == OK else f"{why_b}: does not implement 'strictly better = earlier in the best-first order, ties with the best attach to the best'", construct="better-set"))
        # the node's distance/parent come from _find_nearest_better(ind, better)
        calls = [c for c in ast.walk(loops[0]) if isinstance(c, ast.Call) and norm(c.func) == f"{psn}._find_nearest_better"]
        okc = len(calls) == 1 and len(calls[0].args) == 2 and canon(calls[0].args[0]) == ind
        obs.append(ctx.ob("R15.3", ps, calls[0] if calls else loops[0], status=OK if okc else INCONCLUSIVE, detail="nearest better found among the better-set" if okc else "nearest-better search is not applied to (individual, its better-set)", construct="nearest-call"))
    fn = nbc.methods.get("_find_nearest_better")
    if fn is None:
        raise AnalysisError("NearestBetterClustering._find_nearest_better vanished (the nearest-better search is an anchor of R15.3)")
    if len(fn.params()) < 3:
        obs.append(ctx.ob("R15.3", fn, fn.node, status=INCONCLUSIVE, detail=f"_find_nearest_better takes {fn.params()[1:]}, not (individual, better individuals): the search is not in the form this rule reads", construct="nearest-better-signature"))
        return obs
    i_p, b_p = fn.params()[1], fn.params()[2]
    fdefs = local_defs(fn)
    rets = [r for r in body_walk(fn.node) if isinstance(r, ast.Return)]
    t = canon(rets[0].value, fdefs) if len(rets) == 1 else ""

    # an `ord=` keyword: 2 / None is the Euclidean norm; an option of the clustering whose DEFAULT is 2 / None keeps the documented
    # behaviour (another norm is the caller's explicit choice); any other fixed norm is not Euclidean
    ord_undecided = None
    for mo in list(re.finditer(r",ord=([^,()]+)", t)):
        v_ = mo.group(1)
        keep = None
        if v_ in ("2", "None", "2.0"):
            keep = True
        elif re.fullmatch(r"%s\.(\w+)" % re.escape(fn.self_name() or "self"), v_):
            attr_ = v_.split(".", 1)[1]
            init_ = ctx.prog.lookup_method(nbc, "__init__")
            if init_ is not None:
                a_ = init_.node.args
                pos_ = a_.posonlyargs + a_.args
                dm_ = dict(zip([x.arg for x in pos_][len(pos_) - len(a_.defaults):], a_.defaults)) if a_.defaults else {}
                dm_.update({k.arg: d for k, d in zip(a_.kwonlyargs, a_.kw_defaults) if d is not None})
                for y in body_walk(init_.node):
                    if isinstance(y, (ast.Assign, ast.AnnAssign)) and any(is_self_attr(t_, attr_, init_.self_name()) for t_ in (y.targets if isinstance(y, ast.Assign) else [y.target])) and isinstance(getattr(y, "value", None), ast.Name) and y.value.id in dm_ and isinstance(dm_[y.value.id], ast.Constant) and dm_[y.value.id].value in (None, 2):
                        keep = True
            if keep is None:
                ord_undecided = v_
                keep = True
        if keep:
            t = t.replace(mo.group(0), "", 1)
    okn = bool(re.search(r"np\.linalg\.norm\(%s\.genome-np\.array\(\[(\w+)\.genomefor\1in%s\]\),axis=1\)" % (i_p, b_p), t)) and "np.argmin(" in t and t.count("np.argmax") == 0
    ordok = "ord=" not in t
    if okn and ordok and ord_undecided is not None:
        obs.append(ctx.ob("R15.3", fn, rets[0] if rets else fn.node, status=INCONCLUSIVE, detail=f"the norm of the nearest-better distance is chosen by `{ord_undecided}`: cannot tell that it is the Euclidean norm by default", construct="nearest"))
        return obs
    expanded = "np.sqrt(" in t and ("@" in t or "np.dot(" in t or "einsum" in t) and re.search(r"-2(\.0)?\*|\*2(\.0)?\b", t) is not None
    if expanded:
        obs.append(ctx.ob("R15.3", fn, rets[0] if rets else fn.node, status=VIOLATION, detail="distances are computed in the expanded form sqrt(|a|^2 - 2ab + |b|^2): catastrophic cancellation for populations far from the origin makes them wrong (and not translation invariant); the definition needs ||a - b||", construct="nearest"))
        return obs
    definite = "np.argmax(" in t or not ordok or ("np.argmin(" in t and "np.linalg.norm(" in t and "axis=0" in t) or ("np.abs(" in t and "np.linalg.norm" not in t)
    obs.append(ctx.ob("R15.3", fn, rets[0] if rets else fn.node, status=OK if (okn and ordok) else VIOLATION if definite else INCONCLUSIVE, detail="nearest = argmin of Euclidean distances to the better individuals" if (okn and ordok) else f"_find_nearest_better returns `{t[:120]}`: not (min Euclidean distance, the individual attaining it)", construct="nearest"))
    return obs


def r15_4(ctx: Ctx):
    """R15.4 root distance inf; mean over finite distances; strict `>` cut against mean x factor (x correction)."""
    obs = []
    nbc = ctx.prog.cls("NearestBetterClustering")
    ps = nbc.methods["_prepare_spanning_tree"]
    pdefs = local_defs(ps)
    first = [c for c in ps.node.body if isinstance(c, ast.Expr) and isinstance(c.value, ast.Call) and norm(c.value.func).endswith("create_node")]
    st_r = INCONCLUSIVE
    INF = ("np.inf", "float('inf')", 'float("inf")', "math.inf", "numpy.inf", "np.Inf", "np.infty")
    if first:
        data = next((k.value for k in first[0].value.keywords if k.arg == "data"), None)
        while isinstance(data, ast.Name) and len(pdefs.get(data.id, [])) == 1:
            data = pdefs[data.id][0]
        if isinstance(data, ast.Dict):
            for k, v in zip(data.keys, data.values):
                if isinstance(k, ast.Constant) and k.value == "distance":
                    vt = canon(v, pdefs)
                    st_r = OK if vt in INF else VIOLATION if (isinstance(v, ast.Constant) or vt.startswith("-") or vt in ("np.nan", "None")) else INCONCLUSIVE
            if st_r == INCONCLUSIVE and not any(isinstance(k, ast.Constant) and k.value == "distance" for k in data.keys) and all(isinstance(k, ast.Constant) for k in data.keys):
                st_r = VIOLATION
    obs.append(ctx.ob("R15.4", ps, first[0] if first else ps.node, status=st_r, detail="the best individual is a seed by construction (distance inf)" if st_r == OK else "the root of the spanning tree does not get distance inf: the best individual is not guaranteed to be a cluster seed", construct="root-inf"))
    d = nbc.methods["distances"]
    ddefs = local_defs(d)
    rets = [r for r in body_walk(d.node) if isinstance(r, ast.Return)]
    st_d = INCONCLUSIVE
    if len(rets) == 1:
        lc = rets[0].value
        while isinstance(lc, ast.Name) and len(ddefs.get(lc.id, [])) == 1:
            lc = ddefs[lc.id][0]
        if isinstance(lc, ast.Call) and norm(lc.func) in ("list", "np.array") and len(lc.args) == 1:
            lc = lc.args[0]
        if isinstance(lc, (ast.ListComp, ast.GeneratorExp)) and len(lc.generators) == 1 and canon(lc.generators[0].iter, ddefs).endswith((".tree.all_nodes()", ".tree.all_nodes_itr()")) and isinstance(lc.generators[0].target, ast.Name):
            nv = lc.generators[0].target.id
            dist = (f"{nv}.data['distance']", f'{nv}.data["distance"]')
            conds = [canon(c) for c in lc.generators[0].ifs]
            elt_ok = canon(lc.elt) in dist
            fin = [c for c in conds if any(c in (f"notnp.isinf({x})", f"np.isfinite({x})", f"{x}!=np.inf", f"{x}<np.inf", f"notmath.isinf({x})", f"{x}!=float('inf')") for x in dist)]
            if elt_ok and len(conds) == 1 and fin:
                st_d = OK
            elif elt_ok and not conds:
                st_d = VIOLATION  # the root's inf is included: the mean is inf and nothing is ever cut
            elif elt_ok and any(any(c in (f"np.isinf({x})", f"{x}==np.inf") for x in dist) for c in conds):
                st_d = VIOLATION
    obs.append(ctx.ob("R15.4", d, rets[0] if rets else d.node, status=st_d, detail="distances = finite edge lengths of all nodes" if st_d == OK else "`distances` does not range over exactly the finite edge lengths (inf of the root included, or edges missing): the mean is wrong" if st_d == VIOLATION else "cannot tell which edge lengths `distances` ranges over", construct="finite-distances"))
    fr = nbc.methods["_find_root_nodes"]
    sn = fr.self_name()
    defs = local_defs(fr)
    rets = [r for r in body_walk(fr.node) if isinstance(r, ast.Return)]
    st_c = INCONCLUSIVE
    why = "cut not recognised"
    early = None
    if len(rets) > 1:
        # a special case in front of the cut: `if len(nodes) < 3: return [root]` answers without applying the definition
        from ..core import parents_map

        par_ = parents_map(fr.node)
        main = [r for r in rets if isinstance(r.value, (ast.ListComp, ast.Name))]
        for r in rets:
            q = par_.get(id(r))
            if isinstance(q, ast.If) and r in q.body and r is not (main[-1] if main else None):
                t_ = canon(q.test, defs)
                if re.search(r"len\(|\.n\b|\.size\b", t_) and isinstance(r.value, (ast.List, ast.Call, ast.Subscript)):
                    early = (q, r)
        if early is not None:
            rets = [r for r in rets if r is not early[1]]
    rv = rets[0].value if len(rets) == 1 else None
    while isinstance(rv, ast.Name) and len(defs.get(rv.id, [])) == 1:
        rv = defs[rv.id][0]
    # vectorised cut: [nodes[i] for i in np.flatnonzero(np.array([n.data['distance'] for n in nodes]) OP threshold)]
    if isinstance(rv, ast.ListComp) and len(rv.generators) == 1 and not rv.generators[0].ifs and isinstance(rv.generators[0].target, ast.Name) and isinstance(rv.elt, ast.Subscript) and canon(rv.elt.slice) == rv.generators[0].target.id:
        it = rv.generators[0].iter
        hops = 0
        while isinstance(it, ast.Name) and len(defs.get(it.id, [])) == 1 and hops < 3:
            it = defs[it.id][0]
            hops += 1
        mask = None
        if isinstance(it, ast.Call) and norm(it.func).split(".")[-1] in ("flatnonzero", "nonzero", "argwhere") and len(it.args) == 1:
            mask = it.args[0]
        elif isinstance(it, ast.Subscript) and isinstance(it.value, ast.Call) and norm(it.value.func).split(".")[-1] in ("where", "nonzero") and len(it.value.args) == 1 and canon(it.slice) == "0":
            mask = it.value.args[0]
        while isinstance(mask, ast.Name) and len(defs.get(mask.id, [])) == 1:
            mask = defs[mask.id][0]
        if isinstance(mask, ast.Compare) and len(mask.ops) == 1:
            sides = [mask.left, mask.comparators[0]]
            res = []
            for sd in sides:
                e = sd
                while isinstance(e, ast.Name) and len(defs.get(e.id, [])) == 1:
                    e = defs[e.id][0]
                if isinstance(e, ast.Call) and norm(e.func).split(".")[-1] in ("array", "asarray", "fromiter") and e.args:
                    e = e.args[0]
                if isinstance(e, (ast.ListComp, ast.GeneratorExp)) and len(e.generators) == 1 and not e.generators[0].ifs and canon(e.generators[0].iter, defs) == canon(rv.elt.value, defs):
                    res.append(e.elt)
                else:
                    res.append(None)
            if (res[0] is None) != (res[1] is None):
                # one side is the per-node distance column over the same node sequence: read it as the element-wise condition
                l_ = res[0] if res[0] is not None else sides[0]
                r_ = res[1] if res[1] is not None else sides[1]
                nv = (res[0] if res[0] is not None else res[1])
                synth = ast.Compare(left=l_, ops=mask.ops, comparators=[r_])
                g0 = None
                for sd, r0 in zip(sides, res):
                    if r0 is not None:
                        e = sd
                        while isinstance(e, ast.Name) and len(defs.get(e.id, [])) == 1:
                            e = defs[e.id][0]
                        if isinstance(e, ast.Call):
                            e = e.args[0]
                        g0 = e.generators[0]
                rv = ast.ListComp(elt=ast.Name(id=g0.target.id, ctx=ast.Load()), generators=[ast.comprehension(target=g0.target, iter=g0.iter, ifs=[synth], is_async=0)])
                ast.copy_location(rv, rets[0])
                ast.fix_missing_locations(rv)
    if isinstance(rv, ast.ListComp) and len(rv.generators) == 1 and len(rv.generators[0].ifs) == 1:
        from .c08 import _strip_not

        cond = _strip_not(rv.generators[0].ifs[0])
        if isinstance(cond, ast.Compare) and len(cond.ops) == 1:
            l, r, op = cond.left, cond.comparators[0], cond.ops[0]
            if isinstance(op, (ast.Lt, ast.LtE)):
                l, r, op = r, l, (ast.Gt() if isinstance(op, ast.Lt) else ast.GtE())
            lt = canon(l, defs).replace('"', "'")
            rt = canon(r, defs)
            if not lt.endswith(".data['distance']"):
                if rt.replace('"', "'").endswith(".data['distance']") and isinstance(op, (ast.Gt, ast.GtE)):
                    st_c, why = VIOLATION, "the cut keeps nodes whose distance is BELOW the threshold"
                else:
                    why = f"cut compares `{norm(l)}`, not the node's distance"
            elif isinstance(op, ast.GtE):
                st_c, why = VIOLATION, "cut uses `>=` instead of the strict `>`: individuals exactly at the threshold become seeds"
            elif not isinstance(op, ast.Gt):
                why = f"cut uses `{type(op).__name__}`"
            elif f"np.mean({sn}.distances)" in rt and f"{sn}.distance_factor" in rt:
                st_c = OK
            elif f"{sn}.distances" in rt and any(k in rt for k in ("np.median(", "np.max(", "np.min(", "np.sum(")):
                st_c, why = VIOLATION, f"threshold `{rt[:100]}` is not mean(finite distances) x distance_factor"
            elif f"np.mean({sn}.distances)" in rt and "factor" not in rt:
                st_c, why = VIOLATION, f"threshold `{rt[:100]}` ignores distance_factor"
            else:
                why = f"cannot relate threshold `{rt[:100]}` to mean(finite distances) x distance_factor"
    obs.append(ctx.ob("R15.4", fr, rets[0] if rets else fr.node, status=st_c, detail="seed iff distance > mean(finite distances) x distance_factor (x correction)" if st_c == OK else f"_find_root_nodes: {why}", construct="cut"))
    if early is not None:
        obs.append(ctx.ob("R15.4", fr, early[0], status=VIOLATION, detail=f"_find_root_nodes answers `{norm(early[1].value)[:60]}` whenever `{norm(early[0].test)}`, without applying the cut: for such populations the individuals whose distance exceeds factor x mean (with a factor below 1 already the second of two) are not returned", construct="cut-special-case"))
    cl = nbc.methods["cluster"]
    calls = [norm(c.func) for c in body_walk(cl.node) if isinstance(c, ast.Call)]
    okcl = f"{cl.self_name()}._prepare_spanning_tree" in calls and f"{cl.self_name()}._find_root_nodes" in calls
    obs.append(ctx.ob("R15.4", cl, cl.node, status=OK if okcl else INCONCLUSIVE, detail="cluster() = build the spanning tree, then cut" if okcl else "cluster() no longer builds the tree and applies the cut", construct="cluster"))
    return obs


def r15_5(ctx: Ctx):
    """R15.5 (not registered: which population the generators hand to the clustering is C07 / C09 / C10's question - the
    clustering itself answers correctly for whatever evaluated population it is given) generators feed the deme's current
    population and export the same clustering's mean distance (R09.4)."""
    from . import c09

    out = []
    for o in c09.r09_4(ctx):
        o.rule = "R15.5"
        out.append(o)
    return out


def r15_7(ctx: Ctx):
    """R15.7 the clustering never identifies individuals through `==`: Individual.__eq__ is fitness equivalence, so a membership
    test / count / remove on a list of individuals (or a set / dict keyed by them) treats two different individuals
    with tied fitness as one - a seed tied with an already collected seed is dropped."""
    from .c13 import _is_individual, _is_individual_collection

    obs = []
    nbc = ctx.prog.cls("NearestBetterClustering")
    n = 0
    for m in nbc.methods.values():
        n += 1
        hit = None
        for x in body_walk(m.node):
            if isinstance(x, ast.Compare) and len(x.ops) == 1 and isinstance(x.ops[0], (ast.In, ast.NotIn)):
                if _is_individual(ctx, m, x.left) and (_is_individual_collection(ctx, m, x.comparators[0])):
                    hit = hit or x
                elif isinstance(x.left, ast.Subscript) and isinstance(x.left.slice, ast.Constant) and x.left.slice.value == "individual" and _is_individual_collection(ctx, m, x.comparators[0]):
                    hit = hit or x
            if isinstance(x, ast.Call) and isinstance(x.func, ast.Attribute) and x.func.attr in ("count", "remove") and len(x.args) == 1 and _is_individual_collection(ctx, m, x.func.value):
                # (`.index(ind)` on the best-first list is how the strictly better prefix is found: R15.3)
                hit = hit or x
        if hit is not None:
            obs.append(ctx.ob("R15.7", m, hit, status=VIOLATION, detail=f"{m.short}: `{norm(hit)[:80]}` looks an individual up by `==`, which for individuals is equality of FITNESS: a different individual with the same fitness counts as already present (tied cluster seeds are merged / the wrong one is found)", construct=f"{m.short}:eq-lookup"))
        else:
            obs.append(ctx.ob("R15.7", m, m.node, detail=f"{m.short}: no lookup of individuals by `==`", construct=f"{m.short}:eq-lookup", trivial=True))
    return obs


def r15_8(ctx: Ctx):
    """R15.8 every kept individual becomes a node of the spanning tree: inside the loop of `_prepare_spanning_tree` the node is
    created on every path. A node skipped under a test on the distance (`isclose(distance, 0)`, `distance < eps`) drops
    individuals by an ABSOLUTE tolerance: the result then changes under a uniform scaling of the genomes."""
    from ..core import parents_map

    nbc = ctx.prog.cls("NearestBetterClustering")
    ps = nbc.methods["_prepare_spanning_tree"]
    par = parents_map(ps.node)
    loops = [n for n in body_walk(ps.node) if isinstance(n, ast.For)]
    creates = [c for lp in loops for c in ast.walk(lp) if isinstance(c, ast.Call) and isinstance(c.func, ast.Attribute) and c.func.attr == "create_node"]
    if not creates:
        raise AnalysisError("_prepare_spanning_tree no longer creates nodes in a loop")
    obs = []
    for c in creates:
        conds = []
        cur = c
        while id(cur) in par and not isinstance(par[id(cur)], ast.For):
            q = par[id(cur)]
            if isinstance(q, ast.If):
                conds.append(q.test)
            cur = q
        lp = par.get(id(cur))
        conts = [x for x in ast.walk(lp) if isinstance(x, ast.Continue)] if isinstance(lp, ast.For) else []
        for x in conts:
            q = par.get(id(x))
            while q is not None and not isinstance(q, ast.If) and q is not lp:
                q = par.get(id(q))
            if isinstance(q, ast.If) and not isinstance(par.get(id(x)), ast.ExceptHandler):
                conds.append(q.test)
        if not conds:
            obs.append(ctx.ob("R15.8", ps, c, detail="a node is created for every individual of the loop", construct="node-per-individual"))
            continue
        t = conds[0]
        tol = any(isinstance(y, ast.Call) and norm(y.func).split(".")[-1] in ("isclose", "allclose") for y in ast.walk(t)) or (any(isinstance(y, ast.Constant) and isinstance(y.value, float) for y in ast.walk(t)) and any(isinstance(y, ast.Name) and "dist" in y.id for y in ast.walk(t)))
        obs.append(ctx.ob("R15.8", ps, t, status=VIOLATION if tol else INCONCLUSIVE, detail=f"an individual gets no node of the spanning tree under `{norm(t)[:70]}`" + (": the test uses an absolute tolerance on a distance, so tightly clustered (or uniformly scaled-down) populations lose individuals - and with them seeds and terms of the mean distance - that the same population at another scale keeps" if tol else ""), construct="node-per-individual"))
    return obs


def r15_9(ctx: Ctx):
    """R15.9 what the clustering's order rests on: (a) NearestBetterClustering compares objective values only through
    Individual's order - no raw `<` / `<=` / argmin on fitness values outside a maximize switch (R13.1 restricted to the
    clustering module); (b) `Individual.__eq__` is exactly fitness equivalence: `self.individuals.index(ind)` is the length of
    the strictly-better prefix and `ind == root` is "tied with the best" only under that definition - with a genome
    conjunct index() returns the individual's own position and every earlier TIED individual counts as better."""
    from . import c13

    obs = []
    raw = [o for o in c13.r13_1(ctx) if o.status == VIOLATION and o.subject.startswith("utils.clusterization.")]
    for o in raw:
        obs.append(Ob("R15.9", o.subject, o.loc, VIOLATION, detail=o.detail + " - the clustering's order then differs between (f, min) and (-f, max)", construct="raw-compare:" + o.subject))
    if not raw:
        f0 = ctx.prog.cls("NearestBetterClustering").methods["__init__"]
        obs.append(ctx.ob("R15.9", f0, f0.node, detail="no raw comparison of objective values in pyhms.utils.clusterization (R13.1)", construct="raw-compare"))
    ind = ctx.prog.cls("Individual")
    eq = ind.methods.get("__eq__")
    if eq is None:
        obs.append(ctx.ob("R15.9", None, None, subject="core.individual.Individual", loc="-", status=VIOLATION, detail="Individual defines no __eq__: `index` / `==` fall back to identity, a tie with the best is never recognised", construct="eq"))
        return obs
    sn, other = eq.params()[0], eq.params()[1]
    rets = [r.value for r in body_walk(eq.node) if isinstance(r, ast.Return) and r.value is not None and not (isinstance(r.value, ast.Constant) and r.value.value in (False, NotImplemented))]
    rets = [r for r in rets if norm(r) != "NotImplemented"]
    def is_equiv(e):
        return isinstance(e, ast.Call) and isinstance(e.func, ast.Attribute) and e.func.attr == "equivalent" and len(e.args) == 2 and {norm(a) for a in e.args} == {f"{sn}.fitness", f"{other}.fitness"}
    st, why = INCONCLUSIVE, f"Individual.__eq__ returns `{'; '.join(norm(r)[:60] for r in rets)}`: not recognisably fitness equivalence"
    if len(rets) == 1 and is_equiv(rets[0]):
        st, why = OK, "Individual.__eq__ is fitness equivalence (problem.equivalent of the two fitness values)"
    elif len(rets) == 1 and isinstance(rets[0], ast.BoolOp) and isinstance(rets[0].op, ast.And) and any(is_equiv(v) for v in rets[0].values):
        extra = [v for v in rets[0].values if not is_equiv(v)]
        if any(isinstance(x, ast.Attribute) and x.attr in ("genome", "uuid") for v in extra for x in ast.walk(v)) or any(isinstance(v, ast.Compare) and isinstance(v.ops[0], ast.Is) for v in extra):
            st, why = VIOLATION, f"Individual.__eq__ also requires `{norm(extra[0])[:60]}`: `self.individuals.index(ind)` now stops at the individual itself, so every EARLIER individual with the same fitness counts as strictly better, and `ind == root` no longer recognises a tie with the best - tied individuals attach to each other instead of to the best"
    elif len(rets) == 1 and isinstance(rets[0], ast.Compare) and isinstance(rets[0].ops[0], (ast.Is, ast.Eq)) and not any(isinstance(x, ast.Attribute) and x.attr == "fitness" for x in ast.walk(rets[0])):
        st, why = VIOLATION, f"Individual.__eq__ is `{norm(rets[0])[:60]}`, not fitness equivalence: the strictly-better prefix and the tie with the best are computed through it"
    if st == VIOLATION:
        nbc = ctx.prog.cls("NearestBetterClustering")
        relies = [x for m in nbc.methods.values() for x in body_walk(m.node) if (isinstance(x, ast.Call) and isinstance(x.func, ast.Attribute) and x.func.attr == "index" and "individuals" in norm(x.func.value)) or (isinstance(x, ast.Compare) and len(x.ops) == 1 and isinstance(x.ops[0], (ast.Eq, ast.NotEq)) and all(isinstance(y, ast.Name) for y in [x.left] + x.comparators))]
        if not relies:
            st, why = INCONCLUSIVE, why.split(":")[0] + ": the clustering no longer uses `index` / `==` on individuals; cannot tell what it relies on"
    obs.append(ctx.ob("R15.9", eq, eq.node, status=st, detail=why, construct="eq"))
    return obs


RULES = [("R15.9", r15_9, 2), ("R15.1", r15_1, 4), ("R15.2", r15_2, 1), ("R15.3", r15_3, 5), ("R15.4", r15_4, 4), ("R15.7", r15_7, 5), ("R15.8", r15_8, 1)]
