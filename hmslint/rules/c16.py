"""C16 — problem wrappers are transparent and their counters follow simple laws."""
from __future__ import annotations

import ast

from ..core import INCONCLUSIVE, OK, VIOLATION, Ctx, is_self_attr, local_defs
from ..model import AnalysisError, Inconclusive, body_walk, norm
from .wrappers import counter_attr, evaluate_summaries, inf_sign

EXPLANATION = """
Static per-path effect summaries of every ProblemWrapper.evaluate (all acyclic CFG paths, super() calls
composed with the parent's summaries): (R16.1) every forwarding path passes (phenome, *args, **kwargs)
unchanged, forwards exactly once and returns the forwarded value unchanged; (R16.2) counting wrappers
increment their counter by exactly 1 iff they forward, and nothing else writes the counter; (R16.3) the
cutoff wrapper's only non-forwarding path is the one guarded by counter >= cutoff and returns -inf
when maximising else +inf; the cutoff is written only by the constructor; (R16.4) the precision
wrapper stores ETA from the counter after the forwarding call, under `not hit_precision` and
|f - opt| <= eps, and hit_precision is only ever set to True outside the constructor; (R16.5) every
public member of Problem is delegated by ProblemWrapper to the wrapped problem and no subclass
overrides a delegated member without delegating; (R16.6) `_inner` is stored only by constructors and
get_function_problem recurses on it; (R16.7) the precision-reached stop condition reads the sticky flag.
"""
CLAIM = """Decides the whole property structurally for the shipped wrappers: per-path effect summaries of every evaluate (all acyclic paths, super() composed): arguments and result forwarded unchanged, exactly one forward per forwarding path, counter += 1 iff forwarded, the cutoff's only refusing path guarded by counter >= cutoff with the direction's worst sentinel, precision ETA read from the counter after the counted forward under first-hit and precision guards, sticky flag; delegation of every public Problem member by ProblemWrapper (exhaustiveness) and no breaking override. Stacks of any depth follow by induction because each wrapper is checked against an arbitrary inner Problem. Round-3/4 extensions: completeness of the ETA store (every forwarding path that skips it is taken only after a hit or outside the precision); forwards made through a helper that is handed the bound evaluate. Round 5: the first hit must be the TRUE outcome of `|f - opt| <= eps` (the false outcome of `>` also holds for NaN); a hit flag derived from ETA by a property is undecided."""
NOTE = """The wrapped objective is a function of its argument. Wrapper bodies are loop-free (checked). Numeric value of |f - opt| <= eps is not evaluated."""
TECHNIQUE = "per-path effect summaries over hand-built CFGs (ast) + interface exhaustiveness check"
ASSUMPTIONS = ["the wrapped objective is a function of its argument", "wrapper evaluate bodies are loop-free (checked; a loop is reported as inconclusive)"]


def _wrapper_classes(ctx):
    ws = ctx.wrappers()
    if len(ws) < 5:
        raise AnalysisError(f"expected ProblemWrapper and >= 4 subclasses, found {len(ws)}")
    # a private base class that only factors out state shared by its subclasses (never constructed anywhere in pyhms, has
    # subclasses) is not a wrapper a user can stack: its subclasses are checked with the inherited members resolved
    out = []
    for ci in ws:
        if ci.name.startswith("_") and ctx.prog.subclasses(ci):
            constructed = any(isinstance(c, ast.Call) and ctx.prog.resolve_class_expr(c.func, f.module) is ci for f in ctx.prog.all_functions() for c in body_walk(f.node) if isinstance(c, ast.Call))
            if not constructed:
                continue
        out.append(ci)
    return out


def r16_1(ctx: Ctx):
    """R16.1 forwarding: arguments unchanged, exactly one forward per forwarding path, forwarded value returned unchanged."""
    obs = []
    for ci in _wrapper_classes(ctx):
        f = ctx.prog.lookup_method(ci, "evaluate")
        sums = evaluate_summaries(ctx, ci)
        ctx.count("wrapper_paths", len(sums))
        bad = []
        for s in sums:
            if s.forwards >= 2:
                bad.append(("a path forwards to the wrapped problem more than once", s))
            if s.forwards >= 1 and not s.args_ok:
                bad.append(("a forwarding call does not pass (phenome, *args, **kwargs) unchanged", s))
            if s.forwards >= 1 and s.ret != "forwarded":
                bad.append((f"a forwarding path returns `{s.ret}` instead of the forwarded value", s))
            if s.forwards == 0 and not s.ret.startswith("sentinel:"):
                bad.append((f"a path returns `{s.ret}` without forwarding", s))
        if not any(s.forwards == 1 for s in sums):
            bad.append(("no path forwards to the wrapped problem", sums[0]))
        for msg, s in bad:
            obs.append(ctx.ob("R16.1", f, s.ret_node or f.node, status=VIOLATION, detail=f"{ci.name}: {msg}", witness=[f"L{n.lineno}: {n.label[:80]}" for n in s.nodes], construct=f"{ci.name}:{msg[:40]}"))
        if not bad:
            obs.append(ctx.ob("R16.1", f, f.node, detail=f"{ci.name}: {len(sums)} path(s); forwarding paths pass arguments and result unchanged", construct=f"{ci.name}.evaluate"))
    return obs


def _bounded_counter_obs(ctx: Ctx, rule: str):
    """A wrapper whose n_evaluations is the length of a bounded container (deque(maxlen=..)) stops counting at the bound."""
    out = []
    base = ctx.prog.cls("ProblemWrapper")
    for ci in ctx.prog.subclasses(base):
        m = ci.methods.get("n_evaluations")
        if m is None:
            continue
        for r in body_walk(m.node):
            if isinstance(r, ast.Return) and isinstance(r.value, ast.Call) and norm(r.value.func) == "len" and r.value.args and is_self_attr(r.value.args[0], None, m.self_name()):
                attr = r.value.args[0].attr
                for g in ci.methods.values():
                    for st in body_walk(g.node):
                        if isinstance(st, (ast.Assign, ast.AnnAssign)) and getattr(st, "value", None) is not None and any(is_self_attr(t, attr, g.self_name()) for t in (st.targets if isinstance(st, ast.Assign) else [st.target])):
                            v = st.value
                            if isinstance(v, ast.Call) and norm(v.func).split(".")[-1] == "deque" and any(k.arg == "maxlen" and not (isinstance(k.value, ast.Constant) and k.value.value is None) for k in v.keywords):
                                out.append(ctx.ob(rule, m, r, status=VIOLATION, detail=f"{ci.name}.n_evaluations is `{norm(r.value)}`, the length of a bounded deque (`{norm(v)[:50]}`): the count stops growing at the bound although evaluations are still forwarded", construct=f"{ci.name}:bounded-counter"))
    return out


def r16_2(ctx: Ctx):
    """R16.2 counting law: counter += 1 exactly on forwarding paths; counter written only by the constructor (0) and evaluate."""
    obs_pre = _bounded_counter_obs(ctx, "R16.2")
    if obs_pre:
        return obs_pre
    obs = []
    for ci in _wrapper_classes(ctx):
        cattr = counter_attr(ctx, ci)
        if cattr is None:
            continue
        f = ctx.prog.lookup_method(ci, "evaluate")
        sums = evaluate_summaries(ctx, ci)
        bad = []
        for s in sums:
            if s.bad_increment:
                bad.append((f"the counter is changed other than by `+= 1`: {norm(s.bad_increment[0])}", s))
            if s.forwards != s.increments:
                bad.append((f"a path forwards {s.forwards} time(s) but increments the counter {s.increments} time(s)", s))
        for msg, s in bad:
            obs.append(ctx.ob("R16.2", f, s.ret_node or f.node, status=VIOLATION, detail=f"{ci.name}: {msg}", witness=[f"L{n.lineno}: {n.label[:80]}" for n in s.nodes], construct=f"{ci.name}:{msg[:50]}"))
        if not bad:
            obs.append(ctx.ob("R16.2", f, f.node, detail=f"{ci.name}: (forwards, increments) over paths = {sorted({s.pair() for s in sums})}", construct=f"{ci.name}.count"))
    # who writes the counters
    seen_attrs = {}
    for ci in ctx.wrappers():
        a = counter_attr(ctx, ci)
        if a:
            seen_attrs.setdefault(a, []).append(ci)
    wrapper_q = {c.qualname for c in ctx.wrappers()}
    for f in ctx.prog.all_functions():
        if f.name == "<module>":
            continue
        for n in body_walk(f.node):
            tg = []
            if isinstance(n, ast.Assign):
                tg = n.targets
            elif isinstance(n, (ast.AugAssign, ast.AnnAssign)):
                tg = [n.target]
            for t in tg:
                if isinstance(t, ast.Attribute) and t.attr in seen_attrs and isinstance(t.ctx, ast.Store):
                    bt = ctx.res.type_of(t.value, f)
                    owners = {x[1] for x in ([] if bt is None else ([bt] if bt[0] != "union" else list(bt[1]))) if x[0] == "inst"}
                    if owners and not (owners & wrapper_q):
                        continue
                    in_wrapper = f.cls is not None and f.cls.qualname in wrapper_q and is_self_attr(t, None, f.self_name())
                    if in_wrapper and f.name == "__init__":
                        ok = isinstance(n, (ast.Assign, ast.AnnAssign)) and isinstance(n.value, ast.Constant) and n.value.value == 0
                        obs.append(ctx.ob("R16.2", f, n, status=OK if ok else VIOLATION, detail="counter starts at 0" if ok else "counter does not start at 0"))
                    elif in_wrapper and f.name == "evaluate":
                        continue
                    elif in_wrapper and f.qualname in _evaluate_hooks(ctx):
                        continue  # a private hook that only the wrappers' evaluate runs (template method): part of evaluate
                    elif owners or in_wrapper:
                        obs.append(ctx.ob("R16.2", f, n, status=VIOLATION, detail=f"evaluation counter written outside __init__/evaluate: {norm(n)}"))
    return obs


class _ExpandedCond:
    """a path condition whose test was replaced by the expression a predicate method of the wrapper returns"""

    def __init__(self, c, new_ast):
        self.ast = new_ast
        self.stmt = getattr(c, "stmt", None)
        self.kind = getattr(c, "kind", "cond")
        self.id = getattr(c, "id", -1)
        self.label = getattr(c, "label", "")


def _expand_self_predicate(ctx, ci, e, selfn, depth=0):
    """`self.m(a, ..)` / `self.p` where m / p of the class is one `return <expression>`: that expression with the arguments put
    in (also under `not`); anything else unchanged"""
    import copy

    if e is None or depth > 3:
        return e
    if isinstance(e, ast.UnaryOp) and isinstance(e.op, ast.Not):
        inner = _expand_self_predicate(ctx, ci, e.operand, selfn, depth + 1)
        return e if inner is e.operand else ast.copy_location(ast.UnaryOp(op=ast.Not(), operand=inner), e)
    call = e if isinstance(e, ast.Call) else None
    attr = call.func if call is not None else e
    if not (isinstance(attr, ast.Attribute) and isinstance(attr.value, ast.Name) and attr.value.id == selfn):
        return e
    m = ctx.prog.lookup_method(ci, attr.attr)
    if m is None or (call is None) != bool(getattr(m, "is_property", False)):
        return e
    body = [x for x in m.node.body if not (isinstance(x, ast.Expr) and isinstance(x.value, ast.Constant))]
    if len(body) != 1 or not isinstance(body[0], ast.Return) or body[0].value is None:
        return e
    params = m.params()[1:]
    if call is not None and (call.keywords or len(call.args) != len(params) or any(isinstance(a, ast.Starred) for a in call.args)):
        return e
    mp = dict(zip(params, call.args)) if call is not None else {}
    mp[m.self_name()] = ast.Name(id=selfn, ctx=ast.Load())
    out = copy.deepcopy(body[0].value)

    class _S(ast.NodeTransformer):
        def visit_Name(self, n):
            return copy.deepcopy(mp[n.id]) if n.id in mp and isinstance(n.ctx, ast.Load) else n

    out = ast.fix_missing_locations(ast.copy_location(_S().visit(out), e))
    return _expand_self_predicate(ctx, ci, out, selfn, depth + 1)


def _evaluate_hooks(ctx) -> set:
    """private methods of Problem classes whose only callers are the evaluate methods of Problem classes (or other such hooks)"""
    if getattr(ctx, "_eval_hooks", None) is not None:
        return ctx._eval_hooks
    from .common import private_closure

    base = ctx.prog.cls("Problem")
    roots = {m.qualname for ci in ctx.prog.classes.values() if ci is base or ctx.prog.is_subclass(ci, base) for m in [ci.methods.get("evaluate")] if m is not None}
    ctx._eval_hooks = private_closure(ctx, set(roots)) - roots
    return ctx._eval_hooks


def _prop_aliases(ctx, ci) -> dict:
    """property name -> attribute it returns (`return self.<attr>`), over the class and its bases (the inherited accessors a
    wrapper may read instead of the field itself)."""
    out = {}
    seen = set()
    cur = [ci]
    while cur:
        c = cur.pop()
        if c is None or c.qualname in seen:
            continue
        seen.add(c.qualname)
        for nm, m in c.methods.items():
            if getattr(m, "is_property", False) and nm not in out:
                rets = [r for r in body_walk(m.node) if isinstance(r, ast.Return)]
                if len(rets) == 1 and is_self_attr(rets[0].value, None, m.self_name()):
                    out[nm] = rets[0].value.attr
        cur.extend(getattr(c, "bases", []) or [])
    return out


_ALIASES: dict = {}
_PROP_EXPRS: dict = {}  # boolean properties of the wrapper under analysis: name -> returned expression (self named as in evaluate)


def _fill_prop_exprs(ctx, ci, selfn):
    _PROP_EXPRS.clear()
    for c in ctx.prog.mro(ci):
        for nm, m in c.methods.items():
            if getattr(m, "is_property", False) and nm not in _PROP_EXPRS:
                rets = [r for r in body_walk(m.node) if isinstance(r, ast.Return) and r.value is not None]
                if len(rets) == 1 and isinstance(rets[0].value, (ast.Compare, ast.UnaryOp)) and len([x for x in m.node.body if not (isinstance(x, ast.Expr) and isinstance(x.value, ast.Constant))]) == 1:
                    e = rets[0].value
                    if m.self_name() != selfn:
                        import copy

                        e = copy.deepcopy(e)
                        for x in ast.walk(e):
                            if isinstance(x, ast.Name) and x.id == m.self_name():
                                x.id = selfn
                    _PROP_EXPRS[nm] = e


def _norm_guard(cond: ast.AST, outcome: bool, counter: str, cutoff: str, selfn: str):
    """Returns the relation 'counter REL cutoff' that holds on this outcome: one of >=, >, <, <=, ==, != or None."""
    def is_self_attr(e, attr, sn):  # noqa: F811  (accessor-aware: self.n_evaluations reads self._n_evals)
        from ..core import is_self_attr as _isa

        return _isa(e, attr, sn) or (attr is not None and _isa(e, None, sn) and _ALIASES.get(e.attr) == attr)

    if isinstance(cond, ast.NamedExpr):
        cond = cond.value
    # the test may be read through a boolean property of the wrapper (`if self.cutoff_reached:`): look at what it returns
    hops = 0
    while hops < 3:
        if isinstance(cond, ast.UnaryOp) and isinstance(cond.op, ast.Not):
            cond, outcome = cond.operand, not outcome
        elif isinstance(cond, ast.Attribute) and isinstance(cond.value, ast.Name) and cond.value.id == selfn and cond.attr in _PROP_EXPRS:
            cond = _PROP_EXPRS[cond.attr]
        else:
            break
        hops += 1
    if not (isinstance(cond, ast.Compare) and len(cond.ops) == 1):
        return None
    l, r = cond.left, cond.comparators[0]
    op = type(cond.ops[0])
    flip = {ast.Lt: ast.Gt, ast.Gt: ast.Lt, ast.LtE: ast.GtE, ast.GtE: ast.LtE, ast.Eq: ast.Eq, ast.NotEq: ast.NotEq}
    neg = {ast.Lt: ast.GtE, ast.GtE: ast.Lt, ast.Gt: ast.LtE, ast.LtE: ast.Gt, ast.Eq: ast.NotEq, ast.NotEq: ast.Eq}
    if op not in flip:
        return None
    if is_self_attr(l, counter, selfn) and is_self_attr(r, cutoff, selfn):
        pass
    elif is_self_attr(r, counter, selfn) and is_self_attr(l, cutoff, selfn):
        op = flip[op]
    else:
        return None
    if not outcome:
        op = neg[op]
    return {ast.Lt: "<", ast.Gt: ">", ast.LtE: "<=", ast.GtE: ">=", ast.Eq: "==", ast.NotEq: "!="}[op]


def _cutoff_attr(ctx, ci):
    init = ci.methods.get("__init__")
    if init is None:
        raise AnalysisError("EvalCutoffProblem has no constructor")
    params = init.params()
    for n in body_walk(init.node):
        if isinstance(n, (ast.Assign, ast.AnnAssign)):
            tg = n.targets if isinstance(n, ast.Assign) else [n.target]
            for t in tg:
                if is_self_attr(t, None, init.self_name()) and isinstance(n.value, ast.Name) and n.value.id in params and "cutoff" in n.value.id:
                    return t.attr
    raise Inconclusive("cannot find the attribute holding the evaluation cutoff")


def _opaque_cond(e, counter, selfn) -> bool:
    """A condition the guard analysis cannot read although it may be about the counter: it calls something, or compares an
    expression that mentions the counter (directly or through an accessor) in a form _norm_guard did not recognise."""
    if e is None:
        return False
    if any(isinstance(x, ast.Call) for x in ast.walk(e)):
        return True
    names = {x.attr for x in ast.walk(e) if isinstance(x, ast.Attribute)}
    return isinstance(e, ast.Compare) and (counter in names or any(_ALIASES.get(a) == counter for a in names))


def r16_3(ctx: Ctx):
    """R16.3 cutoff: refuses exactly when counter >= cutoff, with the direction's worst sentinel and without forwarding."""
    ci = ctx.prog.cls("EvalCutoffProblem")
    f = ctx.prog.lookup_method(ci, "evaluate")
    selfn = f.self_name()
    counter = counter_attr(ctx, ci)
    cutoff = _cutoff_attr(ctx, ci)
    sums = evaluate_summaries(ctx, ci)
    obs = []
    _ALIASES.clear()
    _ALIASES.update(_prop_aliases(ctx, ci))
    _fill_prop_exprs(ctx, ci, selfn)
    _TABLES.clear()
    for st_ in f.module.tree.body:
        if isinstance(st_, (ast.Assign, ast.AnnAssign)) and isinstance(getattr(st_, "value", None), ast.Dict):
            for t_ in (st_.targets if isinstance(st_, ast.Assign) else [st_.target]):
                if isinstance(t_, ast.Name):
                    _TABLES[t_.id] = st_.value
    refusing = [s for s in sums if s.forwards == 0]
    forwarding = [s for s in sums if s.forwards > 0]
    if not refusing:
        obs.append(ctx.ob("R16.3", f, f.node, status=VIOLATION, detail="the cutoff wrapper has no refusing path: the budget is not enforced", construct="no-refusing-path"))
        return obs
    for s in refusing:
        rels = [(_norm_guard(c.ast, lab, counter, cutoff, selfn), c) for c, lab in s.conds]
        rels = [(r, c) for r, c in rels if r]
        ok_rel = any(r in (">=", "==") for r, _ in rels)
        if not ok_rel:
            if any(r == ">" for r, _ in rels):
                msg = f"refuses only when {counter} > {cutoff}: forwards cutoff + 1 evaluations (off by one)"
            else:
                msg = f"a refusing path is not guarded by {counter} >= {cutoff}"
            opaque = not rels and any(_opaque_cond(c.ast, counter, selfn) for c, _ in s.conds)
            obs.append(ctx.ob("R16.3", f, s.ret_node, status=INCONCLUSIVE if opaque else VIOLATION, detail=msg if not opaque else f"cannot relate the conditions on a refusing path ({', '.join(norm(c.ast)[:40] for c, _ in s.conds)}) to {counter} >= {cutoff}", witness=[f"L{n.lineno}: {n.label[:80]}" for n in s.nodes], construct="guard:" + ",".join(r for r, _ in rels)))
        else:
            obs.append(ctx.ob("R16.3", f, rels[0][1].ast, detail=f"refusing path guarded by {counter} {rels[0][0]} {cutoff}", construct="guard"))
        # sentinel
        v = s.ret_node.value if isinstance(s.ret_node, ast.Return) else None
        hops = 0
        while isinstance(v, ast.Name) and hops < 3:
            # a local returned at the end: the value it was given last ON THIS PATH
            last = [n_.ast for n_ in s.nodes if n_.ast is not None and isinstance(n_.ast, ast.Assign) and len(n_.ast.targets) == 1 and isinstance(n_.ast.targets[0], ast.Name) and n_.ast.targets[0].id == v.id]
            if not last:
                break
            v = last[-1].value
            hops += 1
        pol = _sentinel_polarity(v, selfn)
        if pol == "ok":
            obs.append(ctx.ob("R16.3", f, s.ret_node, detail="returns -inf when maximising, +inf when minimising", construct="sentinel"))
        elif pol == "swapped":
            obs.append(ctx.ob("R16.3", f, s.ret_node, status=VIOLATION, detail=f"refusing path returns the best possible value for the direction: `{norm(v)}`", construct="sentinel"))
        else:
            obs.append(ctx.ob("R16.3", f, s.ret_node, status=VIOLATION if pol == "bad" else INCONCLUSIVE, detail=f"refusing path returns `{norm(v)}`, not the direction's worst sentinel", construct="sentinel"))
    for s in forwarding:
        rels = [_norm_guard(c.ast, lab, counter, cutoff, selfn) for c, lab in s.conds]
        rels = [r for r in rels if r]
        # a path taken only when NO cutoff is configured (`self._eval_cutoff is None`): the property speaks about a cutoff N
        no_cutoff = any(isinstance(c.ast, ast.Compare) and len(c.ast.ops) == 1 and is_self_attr(c.ast.left, cutoff, selfn) and isinstance(c.ast.comparators[0], ast.Constant) and c.ast.comparators[0].value is None and ((isinstance(c.ast.ops[0], ast.Is) and lab is True) or (isinstance(c.ast.ops[0], ast.IsNot) and lab is False)) for c, lab in s.conds)
        if no_cutoff:
            obs.append(ctx.ob("R16.3", f, s.ret_node, detail=f"forwarding path taken only when {cutoff} is None (no cutoff configured)", construct="fwd-guard:none", trivial=True))
            continue
        if not any(r in ("<", "!=") for r in rels):
            opaque = not rels and any(_opaque_cond(c.ast, counter, selfn) for c, _ in s.conds)
            obs.append(ctx.ob("R16.3", f, s.ret_node, status=INCONCLUSIVE if opaque else VIOLATION, detail=f"a forwarding path is not guarded by {counter} < {cutoff}" if not opaque else f"cannot relate the conditions on a forwarding path to {counter} < {cutoff}", witness=[f"L{n.lineno}: {n.label[:80]}" for n in s.nodes], construct="fwd-guard:" + ",".join(rels)))
    # cutoff written only by the constructor
    for f2 in ctx.prog.all_functions():
        if f2.name == "<module>":
            continue
        for n in body_walk(f2.node):
            tg = n.targets if isinstance(n, ast.Assign) else [n.target] if isinstance(n, (ast.AugAssign, ast.AnnAssign)) else []
            for t in tg:
                if isinstance(t, ast.Attribute) and t.attr == cutoff and isinstance(t.ctx, ast.Store):
                    in_init = f2.cls is ci and f2.name == "__init__"
                    obs.append(ctx.ob("R16.3", f2, n, status=OK if in_init else VIOLATION, detail="cutoff set by the constructor" if in_init else f"the cutoff is rewritten outside the constructor: {norm(n)}"))
    return obs


def _sentinel_polarity(v, selfn):
    if isinstance(v, ast.IfExp):
        t = v.test
        neg = False
        if isinstance(t, ast.UnaryOp) and isinstance(t.op, ast.Not):
            t, neg = t.operand, True
        if isinstance(t, ast.Attribute) and t.attr == "maximize":
            a, b = inf_sign(v.body), inf_sign(v.orelse)
            if neg:
                a, b = b, a
            if (a, b) == (-1, 1):
                return "ok"
            if (a, b) == (1, -1):
                return "swapped"
            return "bad"
    if isinstance(v, ast.Subscript) and isinstance(v.value, ast.Name) and _TABLES.get(v.value.id) is not None:
        d = _TABLES[v.value.id]
        key = v.slice
        if isinstance(key, ast.Call) and isinstance(key.func, ast.Name) and key.func.id == "bool" and len(key.args) == 1:
            key = key.args[0]
        if isinstance(key, ast.Attribute) and key.attr == "maximize":
            ent = {k.value: inf_sign(val) for k, val in zip(d.keys, d.values) if isinstance(k, ast.Constant) and isinstance(k.value, bool)}
            if ent.get(True) == -1 and ent.get(False) == 1:
                return "ok"
            if ent.get(True) == 1 and ent.get(False) == -1:
                return "swapped"
            if len(ent) == 2:
                return "bad"
    return "unknown" if v is not None and inf_sign(v) == 0 else "bad"


_TABLES: dict = {}  # module-level dict literals of the wrappers' module, by name (filled by r16_3)


def r16_4(ctx: Ctx):
    """R16.4 precision wrapper: ETA = counter after the forward, guarded by first hit and |f - opt| <= eps; the flag is sticky."""
    ci = ctx.prog.cls("PrecisionCutoffProblem")
    f = ctx.prog.lookup_method(ci, "evaluate")
    selfn = f.self_name()
    counter = counter_attr(ctx, ci)
    sums = evaluate_summaries(ctx, ci)
    obs = []
    eta_paths = [s for s in sums if any(e[0] == "store:ETA" for e in s.events)]
    if not eta_paths:
        raise AnalysisError("PrecisionCutoffProblem.evaluate never stores ETA")
    for s in eta_paths:
        kinds = [e[0] for e in s.events]
        i_eta = kinds.index("store:ETA")
        before = kinds[:i_eta]
        ok_order = ("inc" in before) and ("forward" in before)
        eta_stmt = s.events[i_eta][1]
        aliases = _prop_aliases(ctx, ci)
        ok_val = is_self_attr(eta_stmt.value, counter, selfn) or (is_self_attr(eta_stmt.value, None, selfn) and aliases.get(eta_stmt.value.attr) == counter)
        # a local that holds the counter: where it was read decides
        if not ok_val and isinstance(eta_stmt.value, ast.Name):
            rd = [(k, e[1]) for k, e in enumerate(s.events) if e[0] != "store:ETA" and isinstance(e[1], ast.AST)]
            loc_defs = [n_.ast for n_ in s.nodes if n_.ast is not None and isinstance(n_.ast, ast.Assign) and len(n_.ast.targets) == 1 and isinstance(n_.ast.targets[0], ast.Name) and n_.ast.targets[0].id == eta_stmt.value.id]
            if len(loc_defs) == 1 and (is_self_attr(loc_defs[0].value, counter, selfn) or (is_self_attr(loc_defs[0].value, None, selfn) and aliases.get(loc_defs[0].value.attr) == counter)):
                # position of the read among the path's nodes, relative to the forward / increment events
                order = [n_.ast for n_ in s.nodes if n_.ast is not None]
                pos_read = next((k for k, a_ in enumerate(order) if a_ is loc_defs[0]), None)
                ev_nodes = [e[1] for e in s.events if e[0] in ("inc", "forward") or e[0].startswith("super:")]
                pos_evs = [next((k for k, a_ in enumerate(order) if any(x is ev for x in ast.walk(a_))), None) for ev in ev_nodes]
                pos_evs = [p_ for p_ in pos_evs if p_ is not None]  # events of an inherited evaluate sit behind the super() call node
                if pos_read is not None and pos_evs:
                    if pos_read > max(pos_evs):
                        ok_val = True
                    else:
                        obs.append(ctx.ob("R16.4", f, eta_stmt, status=VIOLATION, detail=f"ETA is stored from `{eta_stmt.value.id}`, a copy of the counter taken before the forwarded evaluation was counted (0-based index)", witness=kinds))
                        continue
        if not ok_val:
            positively_other = isinstance(eta_stmt.value, ast.Constant) or (isinstance(eta_stmt.value, (ast.Attribute, ast.BinOp)) and not any(isinstance(x, ast.Call) for x in ast.walk(eta_stmt.value)))
            obs.append(ctx.ob("R16.4", f, eta_stmt, status=VIOLATION if positively_other else INCONCLUSIVE, detail=f"ETA is stored from `{norm(eta_stmt.value)}`, not from the evaluation counter"))
        elif not ok_order:
            obs.append(ctx.ob("R16.4", f, eta_stmt, status=VIOLATION, detail="ETA is read from the counter before the forwarded evaluation was counted (0-based index)", witness=kinds))
        else:
            obs.append(ctx.ob("R16.4", f, eta_stmt, detail="ETA = counter, read after forward + increment (1-based)"))
        # guards on this path
        guard_first = guard_prec = False
        negated_only = None
        opaque_pred = None
        for c, lab in s.conds:
            if is_self_attr(c.ast, "hit_precision", selfn) and lab is False:
                guard_first = True  # (tested on the condition as written: the flag may itself be a property)
            c = _ExpandedCond(c, _expand_self_predicate(ctx, ci, c.ast, selfn))
            if isinstance(c.ast, ast.Call) and isinstance(c.ast.func, ast.Attribute) and isinstance(c.ast.func.value, ast.Name) and c.ast.func.value.id == selfn:
                opaque_pred = c.ast
            t = norm(c.ast)
            if is_self_attr(c.ast, "hit_precision", selfn) and lab is False:
                guard_first = True
            if isinstance(c.ast, ast.Compare) and len(c.ast.ops) == 1:
                l, r, op = c.ast.left, c.ast.comparators[0], c.ast.ops[0]
                lt, rt = norm(l), norm(r)
                is_abs = lambda e: isinstance(e, ast.Call) and norm(e.func) in ("abs", "np.abs", "numpy.abs", "math.fabs", "np.absolute") and "_global_optima" in norm(e)
                if is_abs(l) and "precision" in rt and ((isinstance(op, ast.LtE) and lab is True) or (isinstance(op, ast.Gt) and lab is False)):
                    guard_prec = True
                    negated_only = c.ast if (lab is False and negated_only is None) else False if lab is True else negated_only
                if is_abs(r) and "precision" in lt and ((isinstance(op, ast.GtE) and lab is True) or (isinstance(op, ast.Lt) and lab is False)):
                    guard_prec = True
                    negated_only = c.ast if (lab is False and negated_only is None) else False if lab is True else negated_only
        obs.append(ctx.ob("R16.4", f, eta_stmt, status=OK if guard_first else VIOLATION, detail="ETA store guarded by `not hit_precision`" if guard_first else "ETA can be overwritten after the first hit (no `not hit_precision` guard on the path)", construct="eta-first-hit-guard"))
        obs.append(ctx.ob("R16.4", f, eta_stmt, status=OK if guard_prec else INCONCLUSIVE if opaque_pred is not None else VIOLATION, detail="ETA store guarded by |fitness - optimum| <= precision" if guard_prec else f"the ETA store is guarded by `{norm(opaque_pred)[:60]}`, a method of the wrapper that is not a single returned comparison: not followed" if opaque_pred is not None else "ETA store is not guarded by |fitness - optimum| <= precision", construct="eta-precision-guard"))
        if guard_prec and negated_only:
            # the hit is the FALSE outcome of `|f - opt| > eps`: a NaN value (a failed evaluation) compares false to everything, so it
            # takes that outcome too, unless the path also tests the value for NaN
            nan_tested = any(c.ast is not None and any(isinstance(x, ast.Call) and norm(x.func).split(".")[-1] in ("isnan", "isfinite") for x in ast.walk(c.ast)) for c, _ in s.conds)
            obs.append(ctx.ob("R16.4", f, negated_only, status=INCONCLUSIVE if nan_tested else VIOLATION, detail=f"the first hit is recorded when `{norm(negated_only)[:70]}` is FALSE: that is also the outcome for a NaN value, which is not within the precision of anything - a failed (NaN) evaluation is recorded as the hit and ETA freezes on it", construct="eta-precision-guard-nan"))
        if "store:hit_precision" not in kinds:
            # the flag may be DERIVED from ETA (a property reading it): storing ETA then sets it
            hp = ctx.prog.lookup_method(ci, "hit_precision")
            derived = hp is not None and any(isinstance(x, ast.Attribute) and x.attr == "ETA" for x in ast.walk(hp.node))
            obs.append(ctx.ob("R16.4", f, eta_stmt, status=INCONCLUSIVE if derived else VIOLATION, detail="hit_precision is computed from ETA by a property: cannot tell from the stores alone that it is set exactly when ETA is" if derived else "the path that stores ETA does not set hit_precision", construct="eta-sets-flag"))
    # completeness: a forwarding path that does NOT store ETA is taken only when the hit was recorded before or the value is
    # outside the precision. Propositional check per path: (conditions of the path) and (within precision) and (no hit yet)
    # must be unsatisfiable; further conditions are free atoms.
    import itertools

    def is_abs_(e):
        return isinstance(e, ast.Call) and norm(e.func) in ("abs", "np.abs", "numpy.abs", "math.fabs", "np.absolute") and "_global_optima" in norm(e)

    def formula(e, atoms):
        if isinstance(e, ast.BoolOp):
            return ("and" if isinstance(e.op, ast.And) else "or", [formula(v, atoms) for v in e.values])
        if isinstance(e, ast.UnaryOp) and isinstance(e.op, ast.Not):
            return ("not", [formula(e.operand, atoms)])
        if is_self_attr(e, "hit_precision", selfn):
            return ("atom", "H")
        if isinstance(e, ast.Compare) and len(e.ops) == 1:
            l, r, op = e.left, e.comparators[0], e.ops[0]
            if is_abs_(l) and "precision" in norm(r) and isinstance(op, (ast.LtE, ast.Gt)):
                return ("atom", "P") if isinstance(op, ast.LtE) else ("not", [("atom", "P")])
            if is_abs_(r) and "precision" in norm(l) and isinstance(op, (ast.GtE, ast.Lt)):
                return ("atom", "P") if isinstance(op, ast.GtE) else ("not", [("atom", "P")])
        k = "X:" + norm(e)
        atoms[k] = e
        return ("atom", k)

    def ev(fm, val):
        if fm[0] == "atom":
            return val[fm[1]]
        if fm[0] == "not":
            return not ev(fm[1][0], val)
        if fm[0] == "and":
            return all(ev(x, val) for x in fm[1])
        return any(ev(x, val) for x in fm[1])

    written_here = set()
    for n_ in body_walk(f.node):
        tg_ = n_.targets if isinstance(n_, ast.Assign) else [n_.target] if isinstance(n_, (ast.AugAssign, ast.AnnAssign)) else []
        for t_ in tg_:
            if is_self_attr(t_, None, selfn) and t_.attr not in ("ETA", "hit_precision", counter):
                written_here.add(t_.attr)
    n_other = 0
    for s in sums:
        kinds = [e[0] for e in s.events]
        if "store:ETA" in kinds or s.forwards == 0:
            continue
        n_other += 1
        atoms = {}
        fms = [(formula(c.ast, atoms), lab) for c, lab in s.conds if c.ast is not None]
        names = ["P", "H"] + sorted(atoms)
        if len(names) > 10:
            continue
        sat = None
        for bits in itertools.product([False, True], repeat=len(names) - 2):
            val = dict(zip(names[2:], bits))
            val["P"], val["H"] = True, False
            if all(ev(fm, val) == bool(lab) for fm, lab in fms):
                sat = val
                break
        if sat is None:
            continue
        hist = [a_ for k_, a_ in atoms.items() if any(is_self_attr(x, None, selfn) and x.attr in written_here for x in ast.walk(a_)) or "worse_than" in norm(a_)]
        where_ = next((c.ast for c, lab in s.conds if c.ast is not None), f.node)
        if not atoms:
            obs.append(ctx.ob("R16.4", f, where_, status=VIOLATION, detail="a path forwards the evaluation, finds the value within the precision with no hit recorded yet, and still does not store ETA: the first hit is missed", construct="eta-complete"))
        elif hist:
            obs.append(ctx.ob("R16.4", hist[0] if False else f, hist[0], status=VIOLATION, detail=f"whether a value within the precision is recorded as the first hit also depends on `{norm(hist[0])[:80]}`, i.e. on the values evaluated before: when that condition sends the evaluation past the test, the first evaluation within the precision is not the one recorded (ETA stays unset or is set later)", construct="eta-complete"))
        else:
            obs.append(ctx.ob("R16.4", f, where_, status=INCONCLUSIVE, detail=f"a forwarding path skips the precision test under `{' , '.join(sorted(k_[2:] for k_ in atoms))[:100]}`: cannot tell whether a first hit can be missed", construct="eta-complete"))
    if n_other and not any(o.construct == "eta-complete" for o in obs):
        obs.append(ctx.ob("R16.4", f, f.node, detail=f"every forwarding path that does not store ETA ({n_other}) is taken only after a recorded hit or outside the precision", construct="eta-complete"))
    # flag stores
    for f2 in ctx.prog.all_functions():
        if f2.name == "<module>":
            continue
        for n in body_walk(f2.node):
            tg = n.targets if isinstance(n, ast.Assign) else [n.target] if isinstance(n, (ast.AugAssign, ast.AnnAssign)) else []
            for t in tg:
                if isinstance(t, ast.Attribute) and t.attr == "hit_precision" and isinstance(t.ctx, ast.Store):
                    val = getattr(n, "value", None)
                    if f2.cls is ci and f2.name == "__init__":
                        ok = isinstance(val, ast.Constant) and val.value is False
                        obs.append(ctx.ob("R16.4", f2, n, status=OK if ok else VIOLATION, detail="flag starts False" if ok else "flag does not start False"))
                    else:
                        ok = isinstance(val, ast.Constant) and val.value is True and f2.cls is ci
                        obs.append(ctx.ob("R16.4", f2, n, status=OK if ok else VIOLATION, detail="flag only ever set to True" if ok else f"hit_precision can be un-set or is written from outside: {norm(n)}"))
                if isinstance(t, ast.Attribute) and t.attr == "ETA" and isinstance(t.ctx, ast.Store) and not (f2.cls is ci and f2.name in ("__init__", "evaluate")) and not (f2.cls is ci and f2.qualname in _evaluate_hooks(ctx)):
                    obs.append(ctx.ob("R16.4", f2, n, status=VIOLATION, detail=f"ETA written outside the precision wrapper: {norm(n)}"))
    return obs


def r16_5(ctx: Ctx):
    """R16.5 delegation exhaustiveness: every public member of Problem is delegated by ProblemWrapper; subclasses do not break it."""
    prob = ctx.prog.cls("Problem")
    wrap = ctx.prog.cls("ProblemWrapper")
    obs = []
    public = [n for n in prob.methods if not n.startswith("_")]
    if len(public) < 5:
        raise AnalysisError(f"Problem has only {len(public)} public members")
    for name in public:
        m = wrap.methods.get(name)
        if m is None and any(isinstance(y, (ast.Assign, ast.AnnAssign)) and any(isinstance(t, ast.Name) and t.id == name for t in (y.targets if isinstance(y, ast.Assign) else [y.target])) for y in wrap.node.body):
            obs.append(ctx.ob("R16.5", wrap, wrap.node, status=INCONCLUSIVE, detail=f"ProblemWrapper defines `{name}` by a class-level assignment (a generated property / descriptor): what it reads is not followed", construct=f"delegate:{name}"))
            continue
        if m is None:
            obs.append(ctx.ob("R16.5", wrap, wrap.node, status=VIOLATION, detail=f"ProblemWrapper does not delegate `{name}`: the base-class default is used instead of the wrapped problem's", construct=f"delegate:{name}"))
            continue
        if name == "evaluate":
            obs.append(ctx.ob("R16.5", m, m.node, detail="evaluate delegation is decided by R16.1", construct="delegate:evaluate"))
            continue
        ok = _delegates(m, name)
        if not ok and _delegation_undecided(m, name):
            obs.append(ctx.ob("R16.5", m, m.node, status=INCONCLUSIVE, detail=f"ProblemWrapper.{name} reaches the wrapped problem through a helper / a dynamic lookup: whether it returns the wrapped problem's `{name}` of the same arguments is not followed", construct=f"delegate:{name}"))
            continue
        obs.append(ctx.ob("R16.5", m, m.node, status=OK if ok else VIOLATION, detail=f"`{name}` returns the wrapped problem's `{name}` with unchanged arguments" if ok else f"ProblemWrapper.{name} does not return self._inner.{name}(<same arguments>)", construct=f"delegate:{name}"))
    for ci in ctx.prog.subclasses(wrap):
        for name in public:
            if name == "evaluate" or name not in ci.methods:
                continue
            m = ci.methods[name]
            ok = _delegates(m, name) or _delegates(m, name, via_super=True)
            if not ok and _delegation_undecided(m, name):
                obs.append(ctx.ob("R16.5", m, m.node, status=INCONCLUSIVE, detail=f"{ci.name}.{name} reaches the wrapped problem through a helper / a dynamic lookup: not followed", construct=f"override:{ci.name}.{name}"))
                continue
            obs.append(ctx.ob("R16.5", m, m.node, status=OK if ok else VIOLATION, detail=f"{ci.name}.{name} still delegates" if ok else f"{ci.name} overrides `{name}` without delegating to the wrapped problem", construct=f"override:{ci.name}.{name}"))
    return obs


def _delegation_undecided(m, name) -> bool:
    """the method mentions the wrapped problem (or super()) but not as a direct `self._inner.<name>(...)` / `super().<name>(...)`
    call whose arguments could be compared: a helper or a getattr stands in between. A body that never mentions them, or that
    makes the direct call with other arguments, is decided (not delegating)."""
    selfn = m.self_name()
    mentions = any((isinstance(x, ast.Attribute) and x.attr == "_inner") or (isinstance(x, ast.Call) and norm(x.func) == "super") for x in ast.walk(m.node))
    direct = any(isinstance(x, ast.Call) and isinstance(x.func, ast.Attribute) and x.func.attr == name and (is_self_attr(x.func.value, "_inner", selfn) or (isinstance(x.func.value, ast.Call) and norm(x.func.value.func) == "super")) for x in ast.walk(m.node)) or any(isinstance(x, ast.Attribute) and x.attr == name and is_self_attr(x.value, "_inner", selfn) for x in ast.walk(m.node))
    via_helper = any(isinstance(x, ast.Call) and ((isinstance(x.func, ast.Attribute) and isinstance(x.func.value, ast.Name) and x.func.value.id == selfn and x.func.attr.startswith("_")) or norm(x.func) == "getattr") for x in ast.walk(m.node))
    return (mentions or via_helper) and not direct and via_helper


def _delegates(m, name, via_super=False):
    selfn = m.self_name()
    body = [s for s in m.node.body if not (isinstance(s, ast.Expr) and isinstance(s.value, ast.Constant))]
    # allow `x = self._inner.f(..); return x`
    if len(body) == 2 and isinstance(body[0], ast.Assign) and isinstance(body[1], ast.Return) and isinstance(body[1].value, ast.Name) and len(body[0].targets) == 1 and isinstance(body[0].targets[0], ast.Name) and body[0].targets[0].id == body[1].value.id:
        v = body[0].value
    elif len(body) == 1 and isinstance(body[0], ast.Return):
        v = body[0].value
    else:
        return False
    a = m.node.args
    params = [x.arg for x in a.posonlyargs + a.args][1:]
    if m.is_property:
        if via_super:
            return isinstance(v, ast.Attribute) and v.attr == name and isinstance(v.value, ast.Call) and norm(v.value.func) == "super"
        return isinstance(v, ast.Attribute) and v.attr == name and is_self_attr(v.value, "_inner", selfn)
    if not (isinstance(v, ast.Call) and isinstance(v.func, ast.Attribute) and v.func.attr == name):
        return False
    recv_ok = (isinstance(v.func.value, ast.Call) and norm(v.func.value.func) == "super") if via_super else is_self_attr(v.func.value, "_inner", selfn)
    args = [norm(x) for x in v.args] + [f"{k.arg}={norm(k.value)}" for k in v.keywords]
    want_pos = params
    want_kw = [f"{p}={p}" for p in params]
    return recv_ok and (args == want_pos or args == want_kw)


def r16_6(ctx: Ctx):
    """R16.6 `_inner` is stored only by wrapper constructors (from the decorated problem); get_function_problem recurses on `_inner`."""
    obs = []
    wrapper_q = {c.qualname for c in ctx.wrappers()}
    for f in ctx.prog.all_functions():
        if f.name == "<module>":
            continue
        for n in body_walk(f.node):
            tg = n.targets if isinstance(n, ast.Assign) else [n.target] if isinstance(n, (ast.AugAssign, ast.AnnAssign)) else []
            for t in tg:
                if isinstance(t, ast.Attribute) and t.attr == "_inner" and isinstance(t.ctx, ast.Store):
                    ok = f.cls is not None and f.cls.qualname in wrapper_q and f.name == "__init__" and is_self_attr(t, None, f.self_name()) and isinstance(getattr(n, "value", None), ast.Name) and n.value.id in f.params()
                    obs.append(ctx.ob("R16.6", f, n, status=OK if ok else VIOLATION, detail="constructor stores the decorated problem" if ok else f"`_inner` is rebound outside a wrapper constructor: {norm(n)}"))
    g = ctx.prog.func("pyhms.core.problem", "get_function_problem")
    rec = [c for c in body_walk(g.node) if isinstance(c, ast.Call) and norm(c.func) == "get_function_problem"]
    ok = any(len(c.args) == 1 and norm(c.args[0]).endswith("._inner") for c in rec)
    st_u = OK if ok else INCONCLUSIVE
    if not ok:
        # iterative form: cur = problem; while not isinstance(cur, FunctionProblem): ...; cur = cur._inner; return cur
        gp = g.params()[0] if g.params() else None
        loops = [n for n in body_walk(g.node) if isinstance(n, ast.While)]
        rets = [r for r in body_walk(g.node) if isinstance(r, ast.Return) and r.value is not None]
        gdefs = local_defs(g)
        for lp in loops:
            steps = [n for n in ast.walk(lp) if isinstance(n, ast.Assign) and len(n.targets) == 1 and isinstance(n.targets[0], ast.Name) and isinstance(n.value, ast.Attribute) and n.value.attr == "_inner" and isinstance(n.value.value, ast.Name) and n.value.value.id == n.targets[0].id]
            if len(steps) == 1:
                cur = steps[0].targets[0].id
                t = norm(lp.test).replace(" ", "")
                entry = [d for d in gdefs.get(cur, []) if d is not steps[0].value]
                if t == f"notisinstance({cur},FunctionProblem)" and rets and all(isinstance(r.value, ast.Name) and r.value.id == cur for r in rets) and (cur == gp or (len(entry) == 1 and isinstance(entry[0], ast.Name) and entry[0].id == gp)):
                    st_u = OK
        mentions_inner = any(isinstance(x, ast.Attribute) and x.attr == "_inner" for x in ast.walk(g.node))
        gp0 = g.params()[0] if g.params() else None
        dispatches = any(isinstance(c, ast.Call) and isinstance(c.func, ast.Attribute) and isinstance(c.func.value, ast.Name) and c.func.value.id == gp0 for c in body_walk(g.node)) or any(isinstance(c, ast.Call) and isinstance(c.func, ast.Attribute) and c.func.attr.startswith("_") and c.func.attr != "_inner" for c in body_walk(g.node))
        if st_u != OK and any(len(c.args) == 1 and isinstance(c.args[0], ast.Attribute) and c.args[0].attr != "_inner" for c in rec):
            st_u = VIOLATION
        elif st_u != OK and not mentions_inner and not dispatches:
            st_u = VIOLATION  # neither `_inner` nor a method of the problem that could step down: nothing is unwrapped
    obs.append(ctx.ob("R16.6", g, g.node, status=st_u, detail="unwrapping follows _inner down to the FunctionProblem" if st_u == OK else "get_function_problem does not step through `_inner`" if st_u == VIOLATION else "cannot follow how get_function_problem unwraps the layers", construct="unwrap"))
    return obs


def r16_7(ctx: Ctx):
    """R16.7 SingularProblemPrecisionReached returns the wrapper's sticky hit_precision flag."""
    m = ctx.prog.own_method("SingularProblemPrecisionReached", "__call__")
    rets = [n for n in body_walk(m.node) if isinstance(n, ast.Return)]
    defs = local_defs(m)
    v = rets[0].value if len(rets) == 1 else None
    hops = 0
    while isinstance(v, ast.Name) and len(defs.get(v.id, [])) == 1 and hops < 3:
        v = defs[v.id][0]  # the flag read into a local first (e.g. to log it)
        hops += 1
    while isinstance(v, ast.Call) and norm(v.func) == "bool" and len(v.args) == 1:
        v = v.args[0]
    ok = len(rets) == 1 and isinstance(v, ast.Attribute) and v.attr == "hit_precision" and is_self_attr(v.value, "problem", m.self_name())
    recomputed = v is not None and any(isinstance(x, (ast.Compare, ast.BinOp)) for x in ast.walk(v))
    return [ctx.ob("R16.7", m, m.node, status=OK if ok else VIOLATION if (recomputed or v is None or isinstance(v, ast.Constant)) else INCONCLUSIVE, detail="reads problem.hit_precision" if ok else f"the stop condition returns `{norm(rets[0].value) if rets else '?'}` instead of the sticky flag", construct="precision-gsc")]


RULES = [
    ("R16.1", r16_1, 5),
    ("R16.2", r16_2, 5),
    ("R16.3", r16_3, 3),
    ("R16.4", r16_4, 5),
    ("R16.5", r16_5, 5),
    ("R16.6", r16_6, 2),
    ("R16.7", r16_7, 1),
]
